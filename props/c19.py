"""C19 - configuration sources agree; each CLI flag sets exactly its own setting; binds parse to the
intended sockets; root_path normalised; response headers well formed.

Exhaustive enumeration of finite configuration / input spaces against the *real* hypercorn.config.Config,
hypercorn.__main__.main (with `run` patched to capture the Config), Config.create_sockets (real sockets on
loopback, temp-dir unix sockets and dup()ed descriptors, all closed again) and Config.response_headers.
No event loop is involved.

Enumerated (one *case* per item; families of cases are the top-level scenarios):

  load     every documented Config key (docs/how_to_guides/configuring.rst; table in mc/x_c19c20_ref.py) x two
           distinct non-default values x every loader {from_mapping(dict), from_mapping(**kw), from_object(class),
           from_object(instance), from_object("module"), from_object("module.attr"), from_pyfile, from_toml,
           the CLI flag if one is documented, main -c file.toml, main -c file:x.py, main -c python:module}
           and the "Python object" loader over WHERE the object keeps the setting (OBJECT_LOADERS): a class attribute
           of an instance, an attribute inherited from a base class (instance / the class object itself), base class
           and instance mixed, a property, __slots__, a types.SimpleNamespace, a module object; the class-level and
           inherited forms also through from_object("module.attr") and main -c python:module.attr
  load2    every ordered pair of keys set together through {mapping, toml} (thorough: 7 loaders)
  cli1     every documented spelling of every flag alone x value sets (unique / edge / negative-odd) x
           {--flag value, --flag=value} (thorough) x position of the application argument (thorough)
  cli2     every ordered pair of spellings (quick: canonical long flags; thorough: all spellings, all value sets),
           including a flag given twice and two flags documented for the same setting
  cli3     (thorough) every ordered triple of canonical long flags
  clifile  config file (toml; thorough also file: and python:) setting key K x every flag F
  cliopts  the parser's own option list against the documented table (coverage of the enumeration itself)
  bind     ssl on/off x {bind, insecure_bind, quic_bind} x bind-string shapes {host:0, host:port, bare host,
           name:0, [::1]:0, [::1]:port, bare [::1], unix:path (fresh / stale socket file), fd://n (matching /
           mismatching type)} alone and in ordered pairs
  cfgname  the three documented forms of the -c / --config argument {file:<path>, python:<module> (also module.attribute),
           bare TOML path} x a name alphabet that exercises the prefix handling: names starting with every character of
           "file:" and "python:" (f i l e : p y t h o n) and two control characters, one-character names, names equal to /
           containing the prefix words (file.py, python.py, file:file.py, python:python.py, my-file:x.py, module python.python),
           names in sub-directories / packages (also directories called file, python, "file:") x placement {relative to the
           working directory, ./name, ../name, absolute path from another directory; modules: scratch dir first on sys.path,
           last on sys.path, working directory with "" on sys.path} x {target present, target missing}; every case runs in a
           private scratch tree (tempfile, removed afterwards) that also holds decoy files / modules with other values at
           every proper suffix of the argument word and at the unstripped word
  root     root_path alphabet x loaders
  hdr      epoch lattice (every day of the chosen years at 00:00:00 and 23:59:59, every minute of one day,
           fractional seconds) x {include_date_header, include_server_header} x alt_svc_headers x protocol
  hist     HISTORIES over two / three Config instances in one process, judged differentially: one instance exists before
           the history (sentinel), A and A2 are its subjects, and after EVERY operation a fresh Config() is built; every
           instance other than the operation's subject, and the fresh one, must observe what it observed before
           (mc/x_c19_hist.deep_observe: every data attribute incl. the private backing fields _bind / _quic_addresses /
           _log / ..., ssl_enabled, and response_headers for h11 / h2 / h3 under a frozen clock).  Operations:
           set      every documented key: A.key = v0; A2 = from_mapping({key: v1}); A2.key = v0
           sockets  A: {ssl off+bind, ssl+bind, ssl+insecure_bind, ssl+quic_bind} x shape {v4:0, [::1]:0, unix} x
                    {alt_svc_headers explicit, none}, create_sockets() (real loopback TCP / UDP sockets, closed again); then
                    A2: every combination again, create_sockets(), and create_sockets() once more; the alt-svc values of
                    the subject itself: the explicit list, else one advertisement per QUIC socket IT created and nothing else
           misc     response_headers, log (Logger creation), cert_reqs, set_statsd_logger_class, create_ssl_context,
                    root_path, binds given as lists, from_object, from_toml
           pickle   run() hands the Config to every spawned worker by pickle: after create_sockets() (every combination
                    above) and after setting every key to every value, the pickled Config is loaded by a FRESH interpreter
                    (subprocess) whose deep_observe() must equal the parent's
           aioquic is not installed: for the duration of a hist case a stand-in aioquic.h3.connection (H3_ALPN = ["h3"]) is
           registered in sys.modules (parent and child) and removed again; the Config class' data attributes and the
           hypercorn loggers are put back after every case.

Oracle clauses (expected values come from the documented tables / reference models in mc/x_c19c20_ref.py):

  loader-effect        a loader did not yield defaults + {key: given value (binds as list, root_path stripped)}
  cli-flag-effect      with flags F.. the captured Config differs from defaults (+ file values) in a setting: either a
                       documented target of a given flag does not hold the given value (key <setting>:<flag>:wrong-value)
                       or a setting nobody asked for changed (key <setting>:unasked-change)
  cli-rejected         a documented invocation exits
  file-value-survives  a value from the config file was lost although no given flag is documented to set it
  config-arg-load      -c <form><name> with the named file / module present: run() did not get defaults + the values written
                       into exactly that file / module (key <form>:loaded-sibling - the values of a decoy; <form>:raised:<Exc>;
                       <form>:rejected; <setting>:<form> - some other difference)
  config-arg-missing   -c <form><name> with the named file / module absent ended without an error: run() got a Config
                       (key <form>:loaded; the detail names the sibling whose values it holds)
  cli-table-coverage   parser options and the documented flag table differ (the enumeration would be incomplete)
  bind-socket          socket family / type / address / count differs from the reference parse of the bind string
  bind-failed          a documented bind shape raised
  fd-type-unchecked    fd:// of the wrong socket type silently accepted
  root-path            root_path not stripped of trailing slashes (or otherwise altered)
  response-headers     date not the RFC 7231 IMF-fixdate of the clock / server / alt-svc not as configured
                       (key hist:alt-svc:...: a Config advertises a QUIC port it did not create / not the one it created)
  instance-isolation   an operation on one Config changed what ANOTHER Config observes (key <operation>:<attribute>:
                       fresh-instance - a Config() built afterwards differs from one built before; ...:other-instance - an
                       instance that already existed changed; set:<key>:own-value-lost)
  pickle-derived       the Config a spawned worker unpickles differs from the parent's (key <operation>:<attribute>)
"""
from __future__ import annotations

import contextlib
import copy
import importlib
import importlib.util
import io
import os
import socket
import sys
import tempfile
import warnings
from typing import Any, Dict, List, Optional, Tuple

from mc.core import digest
from mc.explore import ExecResult, V
from mc.x_c19c20_enum import run_family, stable_repr
from mc import x_c19c20_ref as ref

ID = "C19"
LEVEL = "exploration"
TECHNIQUE = ("bounded exhaustive enumeration of the finite configuration space (keys x values x loaders incl. every placement of a "
             "setting on a Python object - instance / class / base class / property / slots / namespace / module -, CLI flags "
             "alone and in ordered pairs, histories over several Config instances with a differential 'every other instance and a "
             "fresh instance observe what they observed before' oracle over all setters / create_sockets on real loopback sockets / "
             "derived-value readers, pickle round trip into a fresh interpreter as for spawned workers, -c argument forms x prefix-exercising file / module names x placement x present / missing "
             "in scratch trees with decoy siblings, bind-string shapes, root paths, clock lattice x header switches) executed on "
             "the real Config / __main__.main / create_sockets / response_headers; oracle = documented tables and "
             "independent reference functions")
RULE = ("one evaluation = one case (one key/value/loader, one argv, one -c word in one scratch tree, one bind list, one clock instant); distinct by digest "
        "of the observed Config snapshot / socket descriptions / header list; non-trivial = the observed outcome differs "
        "from the all-defaults outcome (a setting changed, a socket exists, a header was produced)")
ASSUMPTIONS = [
    "the documented key and flag tables (mc/x_c19c20_ref.py) were transcribed from docs/how_to_guides/configuring.rst and "
    "the --help texts; clause cli-table-coverage checks them against the live parser",
    "values that a format cannot express are not loaded through it (None / classes / enums in TOML, non-integers on the CLI)",
    "Python objects as a settings source: plain data attributes only (reachable by dir() + getattr()); values that are "
    "plain functions (which a class attribute would turn into bound methods) do not occur among the documented settings",
    "binds use loopback addresses, ephemeral or probed-free ports, temp-dir unix sockets and dup()ed descriptors only; "
    "[::] / 0.0.0.0 are not bound; aioquic is not installed: the alt-svc branch of response_headers that derives values from "
    "the QUIC sockets is reached in the hist family only, through a stand-in aioquic.h3.connection module with H3_ALPN = ['h3']",
    "hist: settings are supplied by assignment / loaders only (a caller mutating a list it read from a Config in place is not "
    "modelled); the log of a Config is created on a default configuration only (stream handlers); a Config whose log was "
    "created is not pickled; the interpreter that loads the pickles is a plain subprocess, not a multiprocessing child",
    "-c names: a word starting with file: / python: is never offered as a bare TOML path (it is by definition the other form); "
    "python files carry the .py extension the documentation shows; module names that an installed or already imported module "
    "owns are skipped (none on this installation); for a missing target any exception or non-zero exit is accepted as the "
    "error (the documentation names none) - only a Config reaching run() is a violation",
    "two flags documented for one setting, or one non-repeatable flag given twice: either given value is accepted",
    "a bind that fails with EADDRINUSE is retried with fresh ports; if a control experiment with plain sockets shows that "
    "port 8000 (the documented default of bare hosts) is occupied on this machine the case is skipped, not judged",
]
BOUNDS_DOC = {
    "quick": "all 54 keys x 2 values x 25 loaders (12 sources + 13 placements of a setting on a Python object) + ordered key pairs x 2 loaders; all 44 spellings alone x 3 value sets; 36x36 ordered canonical pairs; "
             "toml file key x flag; -c forms: 69 file + 74 toml names (68 for the bare relative word) x 4 placements, 60 module names x {module, module.attribute} x 3 sys.path "
             "arrangements, each with the target present and missing (1852 cases, decoys at every suffix of the word); bind shapes alone + pairs; 2 years + 1 day of minutes of clock lattice; "
             "hist: 54 keys x 3 operations, 9 misc operations, 4 bind kinds x 3 shapes x 2 alt-svc x (4 kinds x 2 shapes) two-instance socket histories "
             "of 3 operations, 16 + 108 pickles into fresh interpreters",
    "thorough": "as quick plus key pairs x 9 loaders (two of them objects with base-class / mixed placement), all 36^3 canonical triples, all 44x44 ordered spelling pairs x 3 value sets x 2 argv styles, 3 config-file formats, "
                "-c names additionally with every ordered pair of prefix characters as the first two characters (flat and as directory / "
                "package name) and every ordered pair of the prefix words as directory/file resp. package.module (12340 cases), "
                "clock lattice over every day 1970-2100; hist second instance over all 3 shapes, 24 + 108 pickles",
}
BUDGET = {"quick": 300, "thorough": 1100}

APP = "c19mod:app"
DERIVED = {"log", "cert_reqs", "ssl_enabled"}


# ---------------------------------------------------------------------------------------------
# observing a Config


def snapshot(cfg: Any) -> Dict[str, Any]:
    out: Dict[str, Any] = {}
    for name in dir(cfg):
        if name.startswith("_") or name in DERIVED:
            continue
        try:
            v = getattr(cfg, name)
        except AttributeError:
            continue
        if callable(v) and not isinstance(v, type):
            continue
        out[name] = copy.deepcopy(v)
    return out


_DEFAULTS: Optional[Dict[str, Any]] = None


def defaults() -> Dict[str, Any]:
    global _DEFAULTS
    if _DEFAULTS is None:
        from hypercorn.config import Config

        _DEFAULTS = snapshot(Config())
    return copy.deepcopy(_DEFAULTS)


MISSING = "<unset>"


def compare(snap: Dict[str, Any], assigned: Dict[str, Tuple[list, str, str]], other: str = "cli-flag-effect") -> List[dict]:
    """assigned: setting -> (acceptable values, clause, key suffix); `other`: clause for unasked changes."""
    out = []
    base = defaults()
    for name in sorted(set(snap) | set(base) | set(assigned)):
        got = snap.get(name, MISSING)
        if name in assigned:
            accept, clause, how = assigned[name]
            if not any(_same(got, a) for a in accept):
                out.append(V(clause, f"{name}:{how}", f"{name}={stable_repr(got)} wanted {stable_repr(accept)}"))
        else:
            want = base.get(name, MISSING)
            if not _same(got, want):
                out.append(V(other, f"{name}:unasked-change",
                             f"{name}={stable_repr(got)} default {stable_repr(want)}"))
    return out


def _same(a: Any, b: Any) -> bool:
    if isinstance(a, bool) != isinstance(b, bool):
        return False
    try:
        return bool(a == b)
    except Exception:
        return False


def snap_digest(snap: Dict[str, Any]) -> str:
    return digest(tuple((k, stable_repr(v)) for k, v in sorted(snap.items())))


# ---------------------------------------------------------------------------------------------
# running main()


def run_main(argv: List[str]) -> Tuple[Optional[Any], Optional[str]]:
    import hypercorn.__main__ as hm

    captured: List[Any] = []
    orig = hm.run

    def fake_run(config: Any) -> int:
        captured.append(config)
        return 0

    hm.run = fake_run
    err = io.StringIO()
    try:
        with warnings.catch_warnings():
            warnings.simplefilter("ignore")
            with contextlib.redirect_stderr(err), contextlib.redirect_stdout(io.StringIO()):
                try:
                    hm.main(list(argv))
                except SystemExit as e:
                    return None, f"SystemExit({e.code}): {err.getvalue().strip().splitlines()[-1:]}"
    finally:
        hm.run = orig
    if len(captured) != 1:
        return None, f"run() called {len(captured)} times"
    return captured[0], None


_COUNTER = [0]


@contextlib.contextmanager
def config_files(settings: Dict[str, Any]) -> Any:
    """Temp dir with cfg.toml (if expressible), a python file and an importable module + instance."""
    _COUNTER[0] += 1
    mod = f"c19cfg_{os.getpid()}_{_COUNTER[0]}"
    with tempfile.TemporaryDirectory(prefix="c19_") as d:
        paths = {"dir": d, "module": mod, "pyfile": os.path.join(d, mod + ".py"), "toml": None}
        src = ref.python_document(settings)
        with open(paths["pyfile"], "w") as f:
            f.write(src)
        with open(os.path.join(d, mod + "_inst.py"), "w") as f:
            f.write("class _Holder:\n    pass\n\n\ninstance = _Holder()\n")
            pre_done = ""
            for k, v in settings.items():
                pre, expr = ref.python_value(v)
                if pre and pre not in pre_done:
                    f.write(pre)
                    pre_done += pre
                f.write(f"instance.{k} = {expr}\n")
            # the same settings held as CLASS attributes of an instance, and inherited from a base class
            f.write("\n\nclass _ClassLevel:\n")
            for k, v in settings.items():
                f.write(f"    {k} = {ref.python_value(v)[1]}\n")
            f.write("    pass\n\n\nclass _Derived(_ClassLevel):\n    pass\n\n\n")
            f.write("classattr = _ClassLevel()\ninherited = _Derived()\nDerived = _Derived\n")
        try:
            text = ref.toml_document(settings)
            paths["toml"] = os.path.join(d, "cfg.toml")
            with open(paths["toml"], "w") as f:
                f.write(text)
        except TypeError:
            paths["toml"] = None
        sys.path.insert(0, d)
        importlib.invalidate_caches()
        try:
            yield paths
        finally:
            try:
                sys.path.remove(d)
            except ValueError:
                pass
            for name in (mod, mod + "_inst"):
                sys.modules.pop(name, None)
            importlib.invalidate_caches()


# ---------------------------------------------------------------------------------------------
# part: load

LOADERS = ["mapping", "kwargs", "class", "instance", "module", "module_attr", "pyfile", "toml", "cli",
           "main-toml", "main-pyfile", "main-module"]
# the "Python object" loader over WHERE the object keeps its settings: class attributes of an instance, attributes
# inherited from a base class (instance and class object), a property, __slots__, a SimpleNamespace, a module object;
# the same through the dotted "module.attribute" string and through `-c python:module.attribute`
OBJECT_LOADERS = ["obj-classattr", "obj-inherited", "class-inherited", "obj-mixed", "obj-property", "obj-slots", "namespace",
                  "module-object", "module_attr-classattr", "module_attr-inherited", "module_attr-class",
                  "main-module-attr", "main-module-attr-inherited"]
LOADERS += OBJECT_LOADERS


def cli_args_for(key: str, value: Any) -> Optional[List[str]]:
    kind = ref.CONFIG_KEYS[key][0]
    flags = [c for c, (al, setting, k) in ref.CLI_FLAGS.items() if setting == key and k not in ("cert_reqs",)
             and c not in ("--access-log", "--error-log")]
    if not flags:
        return None
    flag = flags[0]
    fk = ref.CLI_FLAGS[flag][2]
    if fk == "flag":
        return [flag] if value is True else None
    if fk == "int":
        if isinstance(value, bool) or int(value) != value:
            return None
        return [flag, str(int(value))]
    if fk == "append":
        vals = [value] if isinstance(value, str) else list(value)
        out: List[str] = []
        for v in vals:
            out += [flag, v]
        return out
    if fk == "vmode_name":
        return [flag, value.name]
    if kind in ("str", "rootpath"):
        return [flag, value]
    return None


def do_load(case: tuple) -> ExecResult:
    from hypercorn.config import Config

    _, key, vi, loader = case
    kind, values = ref.CONFIG_KEYS[key]
    value = values[vi]
    want = ref.normalise_setting(kind, value)
    settings = {key: value}
    cfg = None
    assigned = {key: ([want], "loader-effect", loader)}
    with config_files(settings) as p:
        try:
            if loader == "mapping":
                cfg = Config.from_mapping(dict(settings))
            elif loader == "kwargs":
                cfg = Config.from_mapping(**settings)
            elif loader == "class":
                cfg = Config.from_object(type("Settings", (), dict(settings)))
            elif loader == "instance":
                holder = type("Settings", (), {})()
                setattr(holder, key, value)
                cfg = Config.from_object(holder)
            elif loader == "module":
                cfg = Config.from_object(p["module"])
            elif loader == "module_attr":
                cfg = Config.from_object(p["module"] + "_inst.instance")
            elif loader in OBJECT_LOADERS and not loader.startswith("main-"):
                cfg = Config.from_object(_settings_object(loader, settings, p))
            elif loader == "pyfile":
                cfg = Config.from_pyfile(p["pyfile"])
            elif loader == "toml":
                if p["toml"] is None or kind not in ref.TOML_KINDS:
                    pass  # not expressible in TOML
                else:
                    cfg = Config.from_toml(p["toml"])
            else:
                if loader == "cli":
                    argv = cli_args_for(key, value)
                    if argv is not None:
                        assigned[key] = ([want], "cli-flag-effect", f"{argv[0]}:wrong-value")
                else:
                    assigned[key] = ([want], "file-value-survives", loader[len("main-"):])
                    if loader == "main-toml":
                        argv = ["-c", p["toml"]] if p["toml"] is not None and kind in ref.TOML_KINDS else None
                    elif loader == "main-pyfile":
                        argv = ["--config", "file:" + p["pyfile"]]
                    elif loader == "main-module-attr":
                        argv = ["-c", "python:" + p["module"] + "_inst.classattr"]
                    elif loader == "main-module-attr-inherited":
                        argv = ["-c", "python:" + p["module"] + "_inst.inherited"]
                    else:
                        argv = ["-c", "python:" + p["module"]]
                if argv is not None and key != "application_path":
                    cfg, err = run_main(argv + [APP])
                    assigned["application_path"] = ([APP], "cli-flag-effect", "application")
                    if err is not None:
                        return _result(case, [V("cli-rejected", f"{key}:{loader}", err)], ("rejected", err), True)
        except Exception as e:  # a documented way of supplying a documented setting must not raise
            return _result(case, [V("loader-effect", f"{key}:{loader}:raised:{type(e).__name__}", repr(e))],
                           ("raised", type(e).__name__), True)
    if cfg is None:
        return _result(case, [], ("n/a",), False)
    snap = snapshot(cfg)
    viol = compare(snap, assigned, "loader-effect")
    return _result(case, viol, snap_digest(snap), snap != defaults(), {"case": repr(case), key: stable_repr(snap.get(key))})


def _settings_object(loader: str, settings: Dict[str, Any], p: Dict[str, Any]) -> Any:
    """A Python object (or the dotted name of one) that carries `settings` the way `loader` says."""
    import types

    if loader == "obj-classattr":
        return type("Settings", (), dict(settings))()
    if loader in ("obj-inherited", "class-inherited"):
        derived = type("Production", (type("BaseSettings", (), dict(settings)),), {})
        return derived() if loader == "obj-inherited" else derived
    if loader == "obj-mixed":  # the first setting on the base class, the others on the instance
        keys = list(settings)
        holder = type("Production", (type("BaseSettings", (), {keys[0]: settings[keys[0]]}),), {})()
        for k in keys[1:]:
            setattr(holder, k, settings[k])
        return holder
    if loader == "obj-property":
        return type("Settings", (), {k: property(lambda self, v=v: v) for k, v in settings.items()})()
    if loader == "obj-slots":
        holder = type("Settings", (), {"__slots__": tuple(settings)})()
        for k, v in settings.items():
            setattr(holder, k, v)
        return holder
    if loader == "namespace":
        return types.SimpleNamespace(**settings)
    if loader == "module-object":
        return importlib.import_module(p["module"])
    if loader == "module_attr-classattr":
        return p["module"] + "_inst.classattr"
    if loader == "module_attr-inherited":
        return p["module"] + "_inst.inherited"
    if loader == "module_attr-class":
        return p["module"] + "_inst.Derived"
    raise ValueError(loader)


LOADERS2 = {"quick": ["mapping", "toml"],
            "thorough": ["mapping", "kwargs", "class", "module", "pyfile", "toml", "main-toml", "obj-mixed", "obj-inherited"]}


def do_load2(case: tuple) -> ExecResult:
    """Two keys at once through one loader: both take their values, nothing else moves."""
    from hypercorn.config import Config

    _, key_a, key_b, loader = case
    settings = {key_a: ref.CONFIG_KEYS[key_a][1][0], key_b: ref.CONFIG_KEYS[key_b][1][-1]}
    kinds = {k: ref.CONFIG_KEYS[k][0] for k in settings}
    assigned = {k: ([ref.normalise_setting(kinds[k], v)], "loader-effect", loader) for k, v in settings.items()}
    with config_files(settings) as p:
        try:
            if loader == "mapping":
                cfg = Config.from_mapping(dict(settings))
            elif loader == "kwargs":
                cfg = Config.from_mapping(**settings)
            elif loader == "class":
                cfg = Config.from_object(type("Settings", (), dict(settings)))
            elif loader == "module":
                cfg = Config.from_object(p["module"])
            elif loader in OBJECT_LOADERS:
                cfg = Config.from_object(_settings_object(loader, settings, p))
            elif loader == "pyfile":
                cfg = Config.from_pyfile(p["pyfile"])
            elif p["toml"] is None or not all(k in ref.TOML_KINDS for k in kinds.values()):
                return _result(case, [], ("n/a",), False)
            elif loader == "toml":
                cfg = Config.from_toml(p["toml"])
            else:
                if "application_path" in settings:
                    return _result(case, [], ("n/a",), False)
                cfg, err = run_main(["--config", p["toml"], APP])
                assigned["application_path"] = ([APP], "cli-flag-effect", "application")
                for k in settings:
                    assigned[k] = (assigned[k][0], "file-value-survives", "toml")
                if err is not None:
                    return _result(case, [V("cli-rejected", f"{key_a}+{key_b}:{loader}", err)], ("rejected", err), True)
        except Exception as e:
            return _result(case, [V("loader-effect", f"{key_a}+{key_b}:{loader}:raised:{type(e).__name__}", repr(e))],
                           ("raised", type(e).__name__), True)
    snap = snapshot(cfg)
    viol = compare(snap, assigned, "loader-effect")
    return _result(case, viol, snap_digest(snap), True, {"case": repr(case), "changed": _changed(snap)})


# A source rarely holds settings only: a Python file / module has helper names, a mapping may carry keys meant for
# somebody else.  `loadx`: one setting next to ONE name that is not a setting - a name that collides with a read-only
# property of Config ("log", "ssl_enabled": assigning raises AttributeError, which from_mapping skips), an unknown name,
# a private name - placed before and after the setting (insertion order for mappings / TOML; objects are read in dir()
# order, so the alphabet of setting names covers both sides).  The setting takes its value, nothing else moves.
NOISE_NAMES = ["log", "ssl_enabled", "not_a_setting", "_helper"]
LOADERS_X = ["mapping", "kwargs", "class", "namespace", "pyfile", "toml"]


def do_loadx(case: tuple) -> ExecResult:
    from hypercorn.config import Config

    _, key, noise, pos, loader = case
    kind, values = ref.CONFIG_KEYS[key]
    value = values[0]
    want = ref.normalise_setting(kind, value)
    pairs = [(noise, "noise"), (key, value)] if pos == 0 else [(key, value), (noise, "noise")]
    settings = dict(pairs)
    assigned = {key: ([want], "loader-effect", f"{loader}:next-to-{noise}")}
    cfg = None
    with config_files(settings) as p:
        try:
            if loader == "mapping":
                cfg = Config.from_mapping(dict(settings))
            elif loader == "kwargs":
                cfg = Config.from_mapping(**settings)
            elif loader == "class":
                cfg = Config.from_object(type("Settings", (), dict(settings)))
            elif loader == "namespace":
                cfg = Config.from_object(_settings_object("namespace", settings, p))
            elif loader == "pyfile":
                cfg = Config.from_pyfile(p["pyfile"])
            elif p["toml"] is not None and kind in ref.TOML_KINDS:
                cfg = Config.from_toml(p["toml"])
        except Exception as e:
            return _result(case, [V("loader-effect", f"{key}:{loader}:next-to-{noise}:raised:{type(e).__name__}", repr(e))],
                           ("raised", type(e).__name__), True)
    if cfg is None:
        return _result(case, [], ("n/a",), False)
    snap = snapshot(cfg)
    snap.pop(noise, None)  # (an unknown name simply becomes an attribute of the Config: not a setting, not judged)
    viol = compare(snap, assigned, "loader-effect")
    return _result(case, viol, snap_digest(snap), snap != defaults(), {"case": repr(case), key: stable_repr(snap.get(key))})


def _result(case: tuple, viol: List[dict], obs: Any, nontrivial: bool, sample: Optional[dict] = None) -> ExecResult:
    if os.environ.get("MC_VERBOSE"):
        print("case:", case)
        print("observation:", sample if sample is not None else obs)
    return ExecResult([], viol, obs if isinstance(obs, str) else digest(obs), nontrivial, (),
                      sample if sample is not None else {"case": repr(case), "obs": stable_repr(obs)[:300]})


# ---------------------------------------------------------------------------------------------
# part: cli1 / cli2 / clifile / cliopts


def build_argv(flags: List[Tuple[str, int]], vset: int, style: int, app_first: int) -> Tuple[List[str], Dict[str, list]]:
    """flags: [(spelling, slot)] in argv order -> (argv, setting -> acceptable final values)."""
    canon_of = dict(ref.cli_spellings())
    argv: List[str] = []
    per_setting: Dict[str, List[Tuple[str, Any]]] = {}
    for spelling, slot in flags:
        canon = canon_of[spelling]
        words, val = ref.cli_value(spelling, canon, vset, slot)
        if style == 1 and words and spelling.startswith("--"):
            argv.append(f"{spelling}={words[0]}")
        else:
            argv += [spelling] + words
        setting, kind = ref.CLI_FLAGS[canon][1], ref.CLI_FLAGS[canon][2]
        per_setting.setdefault(setting, []).append((kind, val))
    accept: Dict[str, list] = {}
    for setting, lst in per_setting.items():
        if lst[0][0] == "append":
            accept[setting] = [[v for _, v in lst]]  # repeated list options accumulate in argv order
        else:
            accept[setting] = [v for _, v in lst]  # same setting twice: either value
    argv = ([APP] + argv) if app_first else (argv + [APP])
    return argv, accept


def do_cli(case: tuple) -> ExecResult:
    # ("cli", (spelling, ...), vset, style, app_first)
    _, spellings, vset, style, app_first = case
    canon_of = dict(ref.cli_spellings())
    seen: Dict[str, int] = {}
    flags = []
    for s in spellings:
        slot = seen.get(s, 0)
        seen[s] = slot + 1
        flags.append((s, slot))
    argv, accept = build_argv(flags, vset, style, app_first)
    cfg, err = run_main(argv)
    if err is not None:
        return _result(case, [V("cli-rejected", "+".join(sorted({canon_of[s] for s in spellings})), f"{argv} -> {err}")],
                       ("rejected", err), True)
    snap = snapshot(cfg)
    assigned = {"application_path": ([APP], "cli-flag-effect", "application")}
    for setting, vals in accept.items():
        flag = sorted({canon_of[s] for s in spellings if ref.CLI_FLAGS[canon_of[s]][1] == setting})[0]
        assigned[setting] = (vals, "cli-flag-effect", f"{flag}:wrong-value")
    viol = compare(snap, assigned)
    for v in viol:
        v["detail"] = f"argv={argv} :: " + v["detail"]
    return _result(case, viol, snap_digest(snap), True, {"argv": argv, "changed": _changed(snap)})


def _changed(snap: Dict[str, Any]) -> Dict[str, str]:
    base = defaults()
    return {k: stable_repr(v)[:80] for k, v in snap.items() if not _same(v, base.get(k, MISSING))}


def do_clifile(case: tuple) -> ExecResult:
    # ("clifile", fmt, key, spelling)
    _, fmt, key, spelling = case
    kind, values = ref.CONFIG_KEYS[key]
    value = values[0]
    canon = dict(ref.cli_spellings())[spelling]
    with config_files({key: value}) as p:
        if fmt == "toml":
            if p["toml"] is None or kind not in ref.TOML_KINDS:
                return _result(case, [], ("n/a",), False)
            where = p["toml"]
        elif fmt == "pyfile":
            where = "file:" + p["pyfile"]
        else:
            where = "python:" + p["module"]
        argv, accept = build_argv([(spelling, 0)], 0, 0, 0)
        argv = ["--config", where] + argv
        cfg, err = run_main(argv)
    if err is not None:
        return _result(case, [V("cli-rejected", f"{canon}+--config", f"{argv} -> {err}")], ("rejected", err), True)
    snap = snapshot(cfg)
    assigned = {"application_path": ([APP], "cli-flag-effect", "application")}
    if key != "application_path":
        assigned[key] = ([ref.normalise_setting(kind, value)], "file-value-survives", fmt)
    for setting, vals in accept.items():  # the flag wins over the file for its own setting
        assigned[setting] = (vals, "cli-flag-effect", f"{canon}:wrong-value")
    viol = compare(snap, assigned)
    for v in viol:
        v["detail"] = f"file {fmt} sets {key}; flag {spelling} :: " + v["detail"]
    return _result(case, viol, snap_digest(snap), True, {"argv": argv[2:], "file": {key: stable_repr(value)}, "changed": _changed(snap)})


def do_cliopts(case: tuple) -> ExecResult:
    import argparse

    parsers: List[Any] = []
    orig = argparse.ArgumentParser.parse_args

    def spy(self: Any, *a: Any, **kw: Any) -> Any:
        parsers.append(self)
        return orig(self, *a, **kw)

    argparse.ArgumentParser.parse_args = spy  # type: ignore
    try:
        cfg, err = run_main([APP])
    finally:
        argparse.ArgumentParser.parse_args = orig  # type: ignore
    viol: List[dict] = []
    if err is not None or not parsers:
        return _result(case, [V("cli-rejected", "bare-application", err)], ("rejected", err), True)
    live = set()
    positionals = []
    for action in parsers[0]._actions:
        if not action.option_strings:
            positionals.append(action.dest)
        for s in action.option_strings:
            if s not in ("-h", "--help"):
                live.add(s)
    documented = set()
    for canon, (aliases, _, _) in ref.CLI_FLAGS.items():
        documented.add(canon)
        documented.update(aliases)
    for s in sorted(live - documented):
        viol.append(V("cli-table-coverage", f"undocumented:{s}", "parser accepts an option the documented table lacks"))
    for s in sorted(documented - live):
        viol.append(V("cli-table-coverage", f"not-accepted:{s}", "documented option unknown to the parser"))
    if positionals != ["application"]:
        viol.append(V("cli-table-coverage", "positionals", positionals))
    viol += compare(snapshot(cfg), {"application_path": ([APP], "cli-flag-effect", "application")})
    return _result(case, viol, ("opts", tuple(sorted(live))), True)


# ---------------------------------------------------------------------------------------------
# part: cfgname  (the -c / --config argument forms over a name alphabet that exercises the prefix handling)
#
# `-c file:<path>` is documented as Config.from_pyfile(<path>), `-c python:<module>` as Config.from_object(<module>), any
# other word as a TOML path.  The argument word is *built* here as prefix + name, so the expected target is known by
# construction (no parsing of the word by the harness).  Every case gets a private scratch tree holding the target (or not:
# present=0) and *decoys* with other values at every name a mis-handled prefix could resolve to instead: every proper suffix of
# the argument word (too much removed), the whole word and the suffixes longer than the name (too little removed), the
# same relative name in another directory (absolute paths).

PREFIX_CHARS = ["f", "i", "l", "e", ":", "p", "y", "t", "h", "o", "n"]  # every character of "file:" and "python:"
CONTROL_CHARS = ["c", "_"]
CFG_WORDS = ["file", "python", "live", "life", "typhon", "hypercorn", "etc", "lib", "files", "prod", "net"]
CFG_TARGET = {"backlog": 4242, "keep_alive_timeout": 17, "root_path": "/cfg-target/", "server_names": ["target.example"]}
CFG_FORMS = ["file", "toml", "python", "python-attr"]
CFG_PLACEMENTS = {"file": ["rel", "dot", "up", "abs"], "toml": ["rel", "dot", "up", "abs"],
                  "python": ["path0", "pathend", "cwd"], "python-attr": ["path0", "pathend", "cwd"]}


def _decoy_settings(i: int) -> Dict[str, Any]:
    return {"backlog": 6000 + i, "keep_alive_timeout": 99, "root_path": f"/decoy-{i}", "server_names": [f"decoy-{i}.example"]}


def cfg_names(form: str, placement: str, tier: str) -> List[str]:
    first = PREFIX_CHARS + CONTROL_CHARS
    if form in ("file", "toml"):
        ext = ".py" if form == "file" else ".toml"
        names = [c + "conf" + ext for c in first] + [c + ext for c in first] + [w + ext for w in CFG_WORDS]
        names += [n + ext for n in ("file:file", "python:python", "file:python", "python:file", "my-file:x", "a.python:b")]
        names += [c + "dir/conf" + ext for c in first]
        names += [n + ext for n in ("etc/hypercorn", "lib/conf", "files/conf", "file/file", "python/python", "sub/file", "sub/python",
                                    "sub/file:file", "sub/python:mod", "a/b/live", "etc/file/e", "file:/file", "python:/conf")]
        if form == "toml":
            names += ["file", "python", "hypercorn", "etc/file", "sub/python"]  # TOML files need no extension
        if tier != "quick":
            names += [a + b + "x" + ext for a in PREFIX_CHARS for b in PREFIX_CHARS]
            names += [a + b + "/conf" + ext for a in PREFIX_CHARS for b in PREFIX_CHARS]
            names += [w + "/" + v + ext for w in CFG_WORDS for v in CFG_WORDS]
        if form == "toml" and placement == "rel":
            # a bare word that starts with "file:" / "python:" is by definition not a TOML path
            names = [n for n in names if not n.startswith(("file:", "python:"))]
        return list(dict.fromkeys(names))
    first = [c for c in first if c != ":"]
    names = [c + "conf" for c in first] + list(first) + [w for w in CFG_WORDS if w != "hypercorn"]
    names += ["hypercorn_conf", "prod_settings", "python_file", "file_python"]
    names += [c + "pkg.conf" for c in first]
    names += ["netconf.values", "pkg.python", "pkg.file", "python.python", "file.file", "python.file", "file.python", "pkg.sub.nconf",
              "hypercorn_cfg.prod", "a.b.live"]
    if tier != "quick":
        names += [a + b + "x" for a in first for b in first]
        names += [a + b + ".conf" for a in first for b in first]
        names += [w + "." + v for w in CFG_WORDS for v in CFG_WORDS if w != "hypercorn"]
    return list(dict.fromkeys(names))


def _suffixes(word: str) -> List[str]:
    return [word[i:] for i in range(len(word))]


def _put(path: str, text: str) -> bool:
    try:
        os.makedirs(os.path.dirname(path), exist_ok=True)
        if os.path.lexists(path):
            return False
        with open(path, "w") as f:
            f.write(text)
        return True
    except OSError:  # a decoy whose name needs a directory where another decoy is a file (or the reverse): leave it out
        return False


def _attr_module(holder: Dict[str, Any], module_level: Dict[str, Any]) -> str:
    src = ref.python_document(module_level) + "\n\nclass _Holder:\n    pass\n\n\nsettings = _Holder()\n"
    for k, v in holder.items():
        src += f"settings.{k} = {ref.python_value(v)[1]}\n"
    return src


def _lay_out_files(form: str, placement: str, name: str, present: int, scratch: str) -> Tuple[str, str, Dict[int, str]]:
    """-> (cwd, argument word, decoy index -> path relative to the scratch dir)"""
    root, other = os.path.join(scratch, "root"), os.path.join(scratch, "other")
    work = os.path.join(root, "w")
    for d in (work, other):
        os.makedirs(d)
    cwd, word = {"rel": (root, name), "dot": (root, "./" + name), "up": (work, "../" + name),
                 "abs": (other, os.path.join(root, name))}[placement]
    arg = ("file:" if form == "file" else "") + word
    target = os.path.normpath(os.path.join(cwd, word))
    doc = ref.python_document if form == "file" else ref.toml_document
    if present:
        assert _put(target, doc(CFG_TARGET)), target
    if placement == "abs":
        cands = [os.path.join(root, s) for s in _suffixes(name)[1:]] + [os.path.join(other, s) for s in _suffixes(name)]
        cands = [c for c in cands if not c.endswith("/")]
    else:
        cands = [os.path.join(cwd, s) for s in _suffixes(arg) if s != word and not s.startswith("/") and not s.endswith("/")]
    decoys: Dict[int, str] = {}
    seen = {target}
    for c in cands:
        p = os.path.normpath(c)
        if p in seen or not p.startswith(scratch + os.sep) or os.path.basename(p) in ("", ".", ".."):
            continue
        seen.add(p)
        i = len(decoys)
        if _put(p, doc(_decoy_settings(i))):
            decoys[i] = os.path.relpath(p, scratch)
    return cwd, arg, decoys


def _module_path(root: str, dotted: str) -> str:
    parts = dotted.split(".")
    d = root
    for pkg in parts[:-1]:
        d = os.path.join(d, pkg)
        os.makedirs(d, exist_ok=True)
        _put(os.path.join(d, "__init__.py"), "")
    return os.path.join(d, parts[-1] + ".py")


_SPEC_CACHE: Dict[str, bool] = {}


def _importable_elsewhere(top: str) -> bool:
    """Is `top` an installed / already imported top-level module (asked while the scratch tree is not on sys.path)?"""
    if top in sys.modules:
        return True
    if top not in _SPEC_CACHE:
        try:
            _SPEC_CACHE[top] = importlib.util.find_spec(top) is not None
        except Exception:
            _SPEC_CACHE[top] = True
    return _SPEC_CACHE[top]


def _lay_out_modules(form: str, name: str, present: int, scratch: str) -> Tuple[Optional[str], Dict[int, str]]:
    """-> (argument word or None if the name is taken by an installed module, decoys); call before sys.path is changed"""
    root = os.path.join(scratch, "root")
    os.makedirs(root)
    top = name.split(".")[0]
    if _importable_elsewhere(top):
        return None, {}
    dotted = name + (".settings" if form == "python-attr" else "")
    if present:
        path = _module_path(root, name)
        if form == "python":
            assert _put(path, ref.python_document(CFG_TARGET)), path
        else:  # the named attribute holds the settings; the module itself holds other values
            assert _put(path, _attr_module(CFG_TARGET, _decoy_settings(900))), path
    decoys: Dict[int, str] = {900: name + " (module level)"} if form == "python-attr" and present else {}
    for s in _suffixes(dotted)[1:]:
        parts = s.split(".")
        if not all(p.isidentifier() for p in parts) or parts[0] == top or _importable_elsewhere(parts[0]):
            continue  # not a module name / would shadow the target's own top-level name / an installed module
        i = len(decoys)
        if _put(_module_path(root, s), ref.python_document(_decoy_settings(i))):
            decoys[i] = s
    return "python:" + dotted, decoys


def _forget_modules(scratch: str) -> None:
    for mod_name, mod in list(sys.modules.items()):
        where = getattr(mod, "__file__", None) or ""
        paths = list(getattr(mod, "__path__", None) or [])
        if any(str(p).startswith(scratch + os.sep) for p in [where] + paths):
            del sys.modules[mod_name]
    for p in list(sys.path_importer_cache):
        if p.startswith(scratch):
            del sys.path_importer_cache[p]
    importlib.invalidate_caches()


def do_cfgname(case: tuple) -> ExecResult:
    # ("cfgname", form, placement, name, present)
    _, form, placement, name, present = case
    old_cwd, old_path = os.getcwd(), list(sys.path)
    cfg = err = None
    with tempfile.TemporaryDirectory(prefix="c19n_") as tmp:
        scratch = os.path.realpath(tmp)
        try:
            if form in ("file", "toml"):
                cwd, arg, decoys = _lay_out_files(form, placement, name, present, scratch)
                os.chdir(cwd)
            else:
                arg, decoys = _lay_out_modules(form, name, present, scratch)
                if arg is None:
                    return _result(case, [], ("n/a", "name taken"), False)
                root = os.path.join(scratch, "root")
                if placement == "path0":
                    sys.path.insert(0, root)
                elif placement == "pathend":
                    sys.path.append(root)
                else:
                    os.chdir(root)
                    sys.path.insert(0, "")
                importlib.invalidate_caches()
            try:
                cfg, err = run_main(["-c", arg, APP])
            except Exception as e:
                err = f"{type(e).__name__}: {e}"
                kind = "raised:" + type(e).__name__
            else:
                kind = "rejected" if err is not None else "loaded"
        finally:
            os.chdir(old_cwd)
            sys.path[:] = old_path
            _forget_modules(scratch)
    shown = arg.replace(scratch, "<scratch>")
    how = f"-c {shown!r} ({placement}, target {'present' if present else 'missing'})"
    sibling = None
    snap: Dict[str, Any] = {}
    if cfg is not None:
        snap = snapshot(cfg)
        for i, where in decoys.items():
            if snap.get("backlog") == _decoy_settings(i)["backlog"]:
                sibling = where
    viol: List[dict] = []
    if not present:
        if cfg is not None:
            viol.append(V("config-arg-missing", f"{form}:loaded",
                          f"{how}: no error, run() got a Config" + (f" loaded from the sibling {sibling!r}" if sibling else "")
                          + f" changed={_changed(snap)}"))
        return _result(case, viol, ("missing", kind), False, {"case": repr(case), "arg": shown, "outcome": kind, "error": str(err)[:200].replace(scratch, "<scratch>")})
    if cfg is None:
        viol.append(V("config-arg-load", f"{form}:{kind}", f"{how}: {str(err)[:300].replace(scratch, '<scratch>')}"))
        return _result(case, viol, ("present", kind), True)
    if sibling is not None:
        viol.append(V("config-arg-load", f"{form}:loaded-sibling", f"{how}: loaded {sibling!r} instead; changed={_changed(snap)}"))
    else:
        assigned = {k: ([ref.normalise_setting(ref.CONFIG_KEYS[k][0], v)], "config-arg-load", form) for k, v in CFG_TARGET.items()}
        assigned["application_path"] = ([APP], "cli-flag-effect", "application")
        viol = compare(snap, assigned, "config-arg-load")
        for v in viol:
            v["detail"] = f"{how} :: " + v["detail"]
    return _result(case, viol, ("present", form, snap_digest(snap)), True, {"case": repr(case), "arg": shown, "decoys": len(decoys), "changed": _changed(snap)})


# ---------------------------------------------------------------------------------------------
# part: bind

SHAPES =["v4:0", "v4:P", "v4bare", "name:0", "v6:0", "v6:P", "v6bare", "unix", "unix-stale", "fd-stream", "fd-dgram"]
_BARE = [0]


def _free_port(family: int, host: str, type_: int) -> int:
    s = socket.socket(family, type_)
    try:
        s.bind((host, 0))
        return s.getsockname()[1]
    finally:
        s.close()


def materialise(shape: str, type_: int, tmp: str, n: int, keep: list) -> Tuple[str, dict]:
    """bind string for `shape` + what the reference expects of the socket (beyond parse_bind)."""
    if shape == "v4:0":
        return "127.0.0.1:0", {"addr": "127.0.0.1", "port": None}
    if shape == "v4:P":
        port = _free_port(socket.AF_INET, "127.0.0.1", type_)
        return f"127.0.0.1:{port}", {"addr": "127.0.0.1", "port": port}
    if shape == "v4bare":
        _BARE[0] += 1
        pid = os.getpid()
        host = f"127.{1 + pid % 250}.{1 + (pid // 250) % 250}.{1 + _BARE[0] % 250}"
        return host, {"addr": host, "port": 8000}
    if shape == "name:0":
        return "localhost:0", {"addr": "127.0.0.1", "port": None}
    if shape == "v6:0":
        return "[::1]:0", {"addr": "::1", "port": None}
    if shape == "v6:P":
        port = _free_port(socket.AF_INET6, "::1", type_)
        return f"[::1]:{port}", {"addr": "::1", "port": port}
    if shape == "v6bare":
        return "[::1]", {"addr": "::1", "port": 8000}
    if shape in ("unix", "unix-stale"):
        path = os.path.join(tmp, f"s{n}.sock")
        if shape == "unix-stale":
            old = socket.socket(socket.AF_UNIX, type_)
            old.bind(path)
            old.close()  # the file stays behind, as after a crashed server
        return "unix:" + path, {"path": path}
    if shape in ("fd-stream", "fd-dgram"):
        t = socket.SOCK_STREAM if shape == "fd-stream" else socket.SOCK_DGRAM
        mine = socket.socket(socket.AF_INET, t)
        mine.bind(("127.0.0.1", 0))
        keep.append(mine)
        fd = os.dup(mine.fileno())
        return f"fd://{fd}", {"fd": fd, "ino": os.fstat(fd).st_ino, "name": mine.getsockname()}
    raise ValueError(shape)


def do_bind(case: tuple) -> ExecResult:
    # ("bind", ssl, which, (shape, ...), workers)
    _, ssl_on, which, shapes, workers = case
    for _attempt in range(5):
        viol, obs, made, exc = _bind_once(ssl_on, which, shapes, workers)
        if exc is None or exc[0] != "OSError" or "Address already in use" not in exc[1]:
            break
        # a probed-free port was taken by another process in between: try again with fresh ports
    if exc is not None and exc[0] == "OSError" and "Address already in use" in exc[1] and _port_8000_busy(which):
        # bare hosts mean port 8000; somebody else on this machine is listening there: not hypercorn's doing
        return _result(case, [], ("environment", "port 8000 busy"), False)
    if exc is not None:
        mismatch = _mismatch(which, shapes)
        if not mismatch:
            culprits = []
            if len(shapes) > 1:  # which bind string of the list is at fault?  try each alone (fresh resources)
                for s in sorted(set(shapes)):
                    if _bind_once(ssl_on, which, (s,), workers)[3] is not None:
                        culprits.append(s)
            else:
                culprits = list(shapes)
            who = "+".join(culprits) if culprits else "list:" + "+".join(shapes)
            viol.append(V("bind-failed", f"{who}:{exc[0]}", f"{which} {shapes}: {exc[1]}"[:300]))
    return _result(case, viol, tuple(obs), made, {"case": repr(case), "sockets": stable_repr(obs)[:300]})


def _port_8000_busy(which: str) -> bool:
    """Control experiment with plain sockets: can *we* bind port 8000 on a loopback address (SO_REUSEADDR set)?"""
    type_ = socket.SOCK_DGRAM if which == "quic_bind" else socket.SOCK_STREAM
    for family, host in ((socket.AF_INET, "127.0.0.1"), (socket.AF_INET6, "::1")):
        s = socket.socket(family, type_)
        try:
            s.setsockopt(socket.SOL_SOCKET, socket.SO_REUSEADDR, 1)
            s.bind((host, 8000))
        except OSError:
            return True
        finally:
            s.close()
    return False


def _mismatch(which: str, shapes: tuple) -> list:
    dgram = which == "quic_bind"
    return [s for s in shapes if s.startswith("fd-") and (s == "fd-dgram") != dgram]


def _bind_once(ssl_on: int, which: str, shapes: tuple, workers: int) -> Tuple[List[dict], List[Any], bool, Optional[tuple]]:
    from hypercorn.config import Config

    type_ = socket.SOCK_DGRAM if which == "quic_bind" else socket.SOCK_STREAM
    keep: List[socket.socket] = []
    produced: List[socket.socket] = []
    viol: List[dict] = []
    obs: List[Any] = []
    exc: Optional[tuple] = None
    with tempfile.TemporaryDirectory(prefix="c19_") as tmp:
        binds, extras = [], []
        for n, shape in enumerate(shapes):
            b, x = materialise(shape, type_, tmp, n, keep)
            binds.append(b)
            extras.append(x)
        cfg = Config()
        cfg.workers = workers
        if ssl_on:
            cfg.certfile, cfg.keyfile = "/c19/cert.pem", "/c19/key.pem"
        if which != "bind":
            cfg.bind = "127.0.0.1:0"  # the main bind stays in force next to insecure_bind / quic_bind
        setattr(cfg, which, binds if len(binds) > 1 else binds[0])
        tag = "+".join(shapes)
        socks = None
        try:
            with warnings.catch_warnings():
                warnings.simplefilter("ignore")
                socks = cfg.create_sockets()
        except Exception as e:
            exc = (type(e).__name__, repr(e))
            obs.append(("raised", type(e).__name__))
        if socks is not None:
            lists = {"secure": socks.secure_sockets, "insecure": socks.insecure_sockets, "quic": socks.quic_sockets}
            for lst in lists.values():
                produced.extend(lst)
            slot = {"bind": "secure" if ssl_on else "insecure", "insecure_bind": "insecure", "quic_bind": "quic"}[which]
            if _mismatch(which, shapes):
                viol.append(V("fd-type-unchecked", f"{which}:{tag}", f"{binds} accepted"))
            for name, lst in lists.items():
                if name == slot:
                    continue
                want = 1 if (name == "secure" and which != "bind") else 0
                if len(lst) != want:
                    viol.append(V("bind-socket", f"{which}:other-list-{name}", f"{len(lst)} sockets, wanted {want}"))
            got = lists[slot]
            if len(got) != len(binds):
                viol.append(V("bind-socket", f"{which}:count", f"{len(got)} sockets for {binds}"))
            for sock, b, x, shape in zip(got, binds, extras, shapes):
                desc, bad = describe_socket(sock, b, x, type_)
                obs.append((shape, desc))
                for what in bad:
                    viol.append(V("bind-socket", f"{which}:{shape}:{what}", f"{b} -> {desc}"))
        for s in produced + keep:
            with contextlib.suppress(OSError):
                s.close()
        for x in extras:  # a descriptor we dup()ed that hypercorn never wrapped (it failed earlier) is still ours
            if "fd" in x:
                with contextlib.suppress(OSError):
                    if os.fstat(x["fd"]).st_ino == x["ino"]:
                        os.close(x["fd"])
    return viol, obs, bool(produced), exc


def describe_socket(sock: socket.socket, bind: str, extra: dict, type_: int) -> Tuple[tuple, List[str]]:
    parsed = ref.parse_bind(bind)
    bad: List[str] = []
    fam, typ = sock.family, sock.type
    name = sock.getsockname()
    if typ != type_:
        bad.append("type")
    if parsed[0] == "unix":
        if fam != socket.AF_UNIX:
            bad.append("family")
        if name != parsed[1]:
            bad.append("address")
        return (fam.name, typ.name, "path-ok" if name == parsed[1] else "path-differs"), bad
    if parsed[0] == "fd":
        if sock.fileno() != parsed[1]:
            bad.append("fileno")
        if name != extra["name"]:
            bad.append("address")
        return (fam.name, typ.name, "fd"), bad
    want_family = socket.AF_INET if parsed[0] == "inet" else socket.AF_INET6
    if fam != want_family:
        bad.append("family")
    if name[0] != extra["addr"]:
        bad.append("address")
    want_port = parsed[2]
    if want_port != 0 and name[1] != want_port:
        bad.append("port")
    return (fam.name, typ.name, name[0] if not name[0].startswith("127.") else "127.x", "port-ok" if "port" not in bad else name[1]), bad


# ---------------------------------------------------------------------------------------------
# part: root

ROOT_PATHS = ["", "/", "//", "/a", "/a/", "/a//", "/a/b", "/a/b/", "a/", "/a/ ", "/%2F/", "/a/./", "/a b/", "///a///"]
ROOT_LOADERS = ["attr", "mapping", "kwargs", "class", "obj-classattr", "obj-inherited", "pyfile", "toml", "cli", "cli="]


def do_root(case: tuple) -> ExecResult:
    from hypercorn.config import Config

    _, loader, path = case
    want = ref.strip_trailing_slashes(path)
    assigned = {"root_path": ([want], "root-path", loader)}
    with config_files({"root_path": path}) as p:
        if loader == "attr":
            cfg = Config()
            cfg.root_path = path
        elif loader == "mapping":
            cfg = Config.from_mapping({"root_path": path})
        elif loader == "kwargs":
            cfg = Config.from_mapping(root_path=path)
        elif loader == "class":
            cfg = Config.from_object(type("S", (), {"root_path": path}))
        elif loader in ("obj-classattr", "obj-inherited"):
            cfg = Config.from_object(_settings_object(loader, {"root_path": path}, p))
        elif loader == "pyfile":
            cfg = Config.from_pyfile(p["pyfile"])
        elif loader == "toml":
            cfg = Config.from_toml(p["toml"])
        else:
            argv = ["--root-path", path] if loader == "cli" else [f"--root-path={path}"]
            cfg, err = run_main(argv + [APP])
            assigned["application_path"] = ([APP], "cli-flag-effect", "application")
            if err is not None:
                return _result(case, [V("cli-rejected", "--root-path", err)], ("rejected", err), True)
    snap = snapshot(cfg)
    viol = compare(snap, assigned, "root-path")
    if snap.get("root_path", "").endswith("/"):
        viol.append(V("root-path", f"trailing-slash:{loader}", repr(snap.get("root_path"))))
    return _result(case, viol, ("root", snap.get("root_path")), path != "", {"case": repr(case), "root_path": snap.get("root_path")})


# ---------------------------------------------------------------------------------------------
# part: hdr

ALT_SVC = [[], ['h3=":443"; ma=3600'], ['h3=":443"', 'h3-29=":8443"; ma=60']]
PROTOCOLS = ["h11", "h2", "h3"]


def do_hdr(case: tuple) -> ExecResult:
    import hypercorn.config as hc
    from hypercorn.config import Config

    _, epoch, date_on, server_on, alt, proto = case
    cfg = Config()
    cfg.include_date_header = bool(date_on)
    cfg.include_server_header = bool(server_on)
    cfg.alt_svc_headers = list(ALT_SVC[alt])
    orig = hc.time
    hc.time = lambda: epoch
    try:
        headers = cfg.response_headers(proto)
    except Exception as e:  # the headers of a response cannot be produced at all
        return _result(case, [V("response-headers", f"raised:{type(e).__name__}", f"response_headers({proto!r}) raised {e!r}")],
                       ("raised", type(e).__name__), True)
    finally:
        hc.time = orig
    viol: List[dict] = []
    ok_shape = isinstance(headers, list) and all(
        isinstance(h, tuple) and len(h) == 2 and isinstance(h[0], bytes) and isinstance(h[1], bytes) for h in headers)
    if not ok_shape:
        viol.append(V("response-headers", "shape", repr(headers)[:200]))
        return _result(case, viol, ("bad",), True)
    dates = [v for n, v in headers if n.lower() == b"date"]
    servers = [v for n, v in headers if n.lower() == b"server"]
    alts = [v for n, v in headers if n.lower() == b"alt-svc"]
    others = [n for n, v in headers if n.lower() not in (b"date", b"server", b"alt-svc")]
    want_date = [ref.imf_fixdate(epoch)] if date_on else []
    if dates != want_date:
        viol.append(V("response-headers", "date:" + ("value" if len(dates) == len(want_date) else "presence"),
                      f"epoch {epoch!r}: {dates} wanted {want_date}"))
    if len(servers) != (1 if server_on else 0):
        viol.append(V("response-headers", "server:presence", servers))
    elif server_on and b"hypercorn" not in servers[0].lower():
        viol.append(V("response-headers", "server:value", servers))
    if alts != [a.encode() for a in ALT_SVC[alt]]:
        viol.append(V("response-headers", "alt-svc", f"{alts} wanted {ALT_SVC[alt]}"))
    if others:
        viol.append(V("response-headers", "extra-header", others))
    if any(n != n.lower() or b"\r" in v or b"\n" in v for n, v in headers):
        viol.append(V("response-headers", "malformed", repr(headers)[:200]))
    return _result(case, viol, tuple(headers), bool(headers), {"case": repr(case), "headers": repr(headers)[:200]})


# ---------------------------------------------------------------------------------------------
# part: hist  (histories over two / three Config instances in one process; the Config handed to a spawned worker)
#
# A setting, and everything derived from it (bind lists, QUIC addresses -> alt-svc, ssl_enabled, the logger), belongs to
# the Config it was given to.  The differential oracle: after EVERY operation on one instance, every other live instance
# (one created before the history, the earlier subjects of the history) and a freshly constructed Config() observe exactly
# what they observed before (mc.x_c19_hist.deep_observe: all data attributes incl. the private backing fields, and
# response_headers for the three protocols under a frozen clock).  run() pickles the Config for every spawned worker:
# the observation of the pickled Config in a FRESH interpreter equals the observation in the parent.

HIST_COMBOS = [(0, "bind"), (1, "bind"), (1, "insecure_bind"), (1, "quic_bind")]
HIST_SHAPES = ["v4:0", "v6:0", "unix"]
HIST_ALT = ['h3=":443"; ma=3600']
HIST_MISC = ["headers", "log", "cert_reqs", "statsd", "ssl_context", "root_path", "binds-as-lists", "from_object", "from_toml"]


class _Hist:
    """Book-keeping of one history: live instances, their last observations, the violations found."""

    def __init__(self) -> None:
        from hypercorn.config import Config
        from mc import x_c19_hist as xh

        self.xh = xh
        self.Config = Config
        self.viol: List[dict] = []
        self.pristine = xh.deep_observe(Config())
        self.fresh = self.pristine
        self.live: List[Tuple[str, Any, Dict[str, str]]] = []
        self.add("sentinel", Config())
        self.trace: List[Any] = []

    def add(self, name: str, cfg: Any) -> Any:
        self.live.append((name, cfg, self.xh.deep_observe(cfg)))
        return cfg

    def after(self, op: str, subject: Any) -> None:
        """Call after every operation: `subject` is the instance the operation was applied to (it may change)."""
        xh = self.xh
        fresh = xh.deep_observe(self.Config())
        for attr in xh.diff(self.fresh, fresh)[:4]:  # (each change is reported once, at the operation that caused it)
            self.viol.append(V("instance-isolation", f"{op}:{attr}:fresh-instance",
                               f"after {op} on another Config, Config().{attr} = {fresh.get(attr)} (before: {self.fresh.get(attr)})"))
        self.fresh = fresh
        for i, (name, cfg, before) in enumerate(self.live):
            now = xh.deep_observe(cfg)
            if cfg is not subject:
                for attr in xh.diff(before, now)[:4]:
                    self.viol.append(V("instance-isolation", f"{op}:{attr}:other-instance",
                                       f"after {op} on another Config, {name}.{attr} = {now.get(attr)} (before: {before.get(attr)})"))
            self.live[i] = (name, cfg, now)
        self.trace.append((op, tuple(xh.diff(self.pristine, xh.deep_observe(subject)))))

    def observed(self, cfg: Any) -> Dict[str, str]:
        return next(o for _, c, o in self.live if c is cfg)


@contextlib.contextmanager
def _hist_world() -> Any:
    """Stand-in aioquic, a temp dir, socket clean-up, and the Config class / logging state put back afterwards."""
    import logging

    from mc import x_c19_hist as xh

    saved = xh.class_state()
    handlers = {n: (list(logging.getLogger(n).handlers), logging.getLogger(n).propagate, logging.getLogger(n).level)
                for n in ("hypercorn.access", "hypercorn.error")}
    res = {"keep": [], "produced": [], "n": 0}
    with xh.fake_aioquic(), tempfile.TemporaryDirectory(prefix="c19h_") as tmp, warnings.catch_warnings():
        warnings.simplefilter("ignore")
        res["tmp"] = tmp
        try:
            yield res
        finally:
            for sk in res["produced"] + res["keep"]:
                with contextlib.suppress(OSError):
                    sk.close()
            xh.restore_class_state(saved)
            for n, (hs, prop, lvl) in handlers.items():
                lg = logging.getLogger(n)
                for h in lg.handlers:
                    if h not in hs:
                        with contextlib.suppress(Exception):
                            h.close()
                lg.handlers, lg.propagate = hs, prop
                lg.setLevel(lvl)


def _hist_sockets(h: _Hist, res: dict, cfg: Any, ssl_on: int, which: str, shape: str, alt: int, op: str) -> None:
    """Configure `cfg` and create its sockets (as run() does); judge the alt-svc values of cfg itself."""
    type_ = socket.SOCK_DGRAM if which == "quic_bind" else socket.SOCK_STREAM
    cfg.workers = 1
    if ssl_on:
        cfg.certfile, cfg.keyfile = "/c19/cert.pem", "/c19/key.pem"
    if which != "bind":
        cfg.bind = "127.0.0.1:0"
    res["n"] += 1
    b, _ = materialise(shape, type_, res["tmp"], res["n"], res["keep"])
    setattr(cfg, which, b)
    if alt:
        cfg.alt_svc_headers = list(HIST_ALT)
    try:
        socks = cfg.create_sockets()
    except Exception as e:
        h.viol.append(V("bind-failed", f"hist:{which}:{shape}:{type(e).__name__}", repr(e)[:200]))
        h.after(op, cfg)
        return
    made = socks.secure_sockets + socks.insecure_sockets + socks.quic_sockets
    res["produced"] += made
    ports = [sk.getsockname()[1] for sk in socks.quic_sockets if sk.family != socket.AF_UNIX]
    h.after(op, cfg)
    # the alt-svc values this Config asks for: the explicit list, else one advertisement per QUIC socket it created
    for proto in PROTOCOLS:
        hdrs = cfg.response_headers(proto)
        alts = [v for n, v in hdrs if n.lower() == b"alt-svc"]
        if alt:
            ok = alts == [a.encode() for a in HIST_ALT]
        else:
            ok = all(any(b'":%d"' % p in a for a in alts) for p in ports) and \
                all(any(b'":%d"' % p in a for p in ports) for a in alts)
        if not ok:
            h.viol.append(V("response-headers", f"hist:alt-svc:{which}:{shape}:{'explicit' if alt else 'derived'}",
                            f"{proto}: alt-svc {alts}; explicit {HIST_ALT if alt else []}; QUIC ports of this Config {ports}"))
            break


def _hist_result(case: tuple, h: _Hist) -> ExecResult:
    return _result(case, h.viol, ("hist", tuple(h.trace)), True, {"case": repr(case), "ops": stable_repr(h.trace)[:300]})


def do_hist(case: tuple) -> ExecResult:
    from hypercorn.config import Config
    from mc import x_c19_hist as xh

    kind = case[1]
    with _hist_world() as res:
        h = _Hist()
        if kind == "set":
            # ("hist", "set", key): A.key = v0 (attribute), A2 = from_mapping({key: v1}), A3 = from_mapping(key=v0) ...
            key = case[2]
            kd, values = ref.CONFIG_KEYS[key]
            a = h.add("A", Config())
            try:
                setattr(a, key, copy.deepcopy(values[0]))
                h.after(f"set:{key}", a)
                a2 = Config.from_mapping({key: copy.deepcopy(values[-1])})
                h.add("A2", a2)
                h.after(f"from_mapping:{key}", a2)
                setattr(a2, key, copy.deepcopy(values[0]))
                h.after(f"set-again:{key}", a2)
            except Exception as e:
                h.viol.append(V("loader-effect", f"{key}:hist:raised:{type(e).__name__}", repr(e)))
            want = ref.normalise_setting(kd, values[0])
            if not _same(getattr(a, key, MISSING), want):
                h.viol.append(V("instance-isolation", f"set:{key}:own-value-lost", f"A.{key}={stable_repr(getattr(a, key, MISSING))} wanted {stable_repr(want)}"))
            return _hist_result(case, h)
        if kind == "sockets":
            # ("hist", "sockets", (ssl, which, shape, alt), (ssl, which, shape)): A creates sockets, A2 creates sockets, A2 again
            (ssl_a, which_a, shape_a, alt_a), (ssl_b, which_b, shape_b) = case[2], case[3]
            a = h.add("A", Config())
            _hist_sockets(h, res, a, ssl_a, which_a, shape_a, alt_a, f"create_sockets:{which_a}")
            a2 = h.add("A2", Config())
            _hist_sockets(h, res, a2, ssl_b, which_b, shape_b, 0, f"create_sockets:{which_b}")
            _hist_sockets(h, res, a2, ssl_b, which_b, shape_b, 0, f"create_sockets-again:{which_b}")
            return _hist_result(case, h)
        if kind == "misc":
            op = case[2]
            a = h.add("A", Config())
            try:
                if op == "headers":
                    a.alt_svc_headers = list(HIST_ALT)
                    a.include_server_header = False
                    for p in PROTOCOLS:
                        a.response_headers(p)
                elif op == "log":
                    a.loglevel = "DEBUG"
                    a.log  # noqa: B018  (creates the Logger)
                elif op == "cert_reqs":
                    a.cert_reqs = 2
                elif op == "statsd":
                    a.statsd_host = "localhost:8125"
                    a.set_statsd_logger_class(ref.AltLoggerA)
                elif op == "ssl_context":
                    assets = os.path.join(os.path.dirname(os.path.dirname(os.path.dirname(os.path.abspath(
                        sys.modules["hypercorn"].__file__)))), "tests", "assets")
                    if os.path.exists(os.path.join(assets, "cert.pem")):
                        a.certfile, a.keyfile = os.path.join(assets, "cert.pem"), os.path.join(assets, "key.pem")
                        a.alpn_protocols = ["h2"]
                        a.create_ssl_context()
                    else:
                        a.certfile, a.keyfile = "/c19/cert.pem", "/c19/key.pem"
                elif op == "root_path":
                    a.root_path = "/a/b//"
                elif op == "binds-as-lists":
                    a.bind, a.insecure_bind, a.quic_bind = ["a:1", "b:2"], ["c:3"], ["d:4", "e:5"]
                elif op == "from_object":
                    h.add("A2", Config.from_object(type("S", (), {"bind": "x:1", "quic_bind": ["q:1"], "server_names": ["s"]})))
                elif op == "from_toml":
                    with config_files({"bind": ["x:1"], "alt_svc_headers": list(HIST_ALT), "root_path": "/r/"}) as p:
                        h.add("A2", Config.from_toml(p["toml"]))
            except Exception as e:
                h.viol.append(V("loader-effect", f"hist:{op}:raised:{type(e).__name__}", repr(e)))
            h.after(op, a)
            return _hist_result(case, h)
        if kind == "pickle-sockets":
            # ("hist", "pickle-sockets", ssl, which, shape, alt): what the spawned worker gets after run() created the sockets
            _, _, ssl_on, which, shape, alt = case
            a = h.add("A", Config())
            _hist_sockets(h, res, a, ssl_on, which, shape, alt, f"create_sockets:{which}")
            _judge_pickles(h, [(f"create_sockets:{which}", a)])
            return _hist_result(case, h)
        if kind == "pickle-keys":
            subjects = []
            for key, (kd, values) in ref.CONFIG_KEYS.items():
                for vi, v in enumerate(values):
                    a = Config()
                    setattr(a, key, copy.deepcopy(v))
                    subjects.append((f"set:{key}", a))
            _judge_pickles(h, subjects)
            h.trace.append(("pickled", len(subjects)))
            return _hist_result(case, h)
    raise ValueError(case)


def _judge_pickles(h: _Hist, subjects: List[Tuple[str, Any]]) -> None:
    from mc import x_c19_hist as xh

    blobs, kept = [], []
    for what, cfg in subjects:
        b = xh.try_pickle(cfg)
        if b is None:
            h.viol.append(V("pickle-derived", f"{what}:not-picklable", "pickle.dumps(config) raised"))
            continue
        blobs.append(b)
        kept.append((what, cfg))
    if not blobs:
        return
    seen = xh.observe_in_fresh_interpreter(blobs)
    for (what, cfg), theirs in zip(kept, seen):
        mine = xh.deep_observe(cfg)
        if isinstance(theirs, str):
            h.viol.append(V("pickle-derived", f"{what}:worker-cannot-load", theirs[:300]))
            continue
        for attr in xh.diff(mine, theirs)[:4]:
            h.viol.append(V("pickle-derived", f"{what}:{attr}",
                            f"spawned worker sees {attr} = {theirs.get(attr)}; the parent that created the Config sees {mine.get(attr)}"))


# ---------------------------------------------------------------------------------------------
# families


def _hdr_epochs(year: int) -> List[Any]:
    out: List[Any] = []
    start = ref.days_from_civil(year, 1, 1)
    end = ref.days_from_civil(year + 1, 1, 1)
    for d in range(start, end):
        out += [d * 86400, d * 86400 + 86399]
    return out


def _year_list(tier: str) -> List[int]:
    return [2024, 2025] if tier == "quick" else list(range(1970, 2101))


def scenarios(tier: str) -> List[Any]:
    fams: List[Any] = [("load", key) for key in ref.CONFIG_KEYS]
    fams += [("load2", key) for key in ref.CONFIG_KEYS]
    fams += [("loadx", key) for key in ref.CONFIG_KEYS]
    spell = [s for s, _ in ref.cli_spellings()]
    canon = [s for s, c in ref.cli_spellings() if s == c]
    fams.append(("cliopts",))
    if tier == "quick":
        fams += [("cli1", v, 0, 0) for v in (0, 1, 2)]
        fams += [("cli2", a, 0, 0, 0) for a in canon]
        fams += [("clifile", "toml", key) for key in ref.CONFIG_KEYS]
    else:
        fams += [("cli1", v, st, af) for v in (0, 1, 2) for st in (0, 1) for af in (0, 1)]
        fams += [("cli2", a, -1, -1, 0) for a in spell]
        fams += [("clifile", fmt, key) for fmt in ("toml", "pyfile", "module") for key in ref.CONFIG_KEYS]
        fams += [("cli3", a) for a in canon]
    fams += [("bind", ssl_on, which) for ssl_on, which in ((0, "bind"), (1, "bind"), (1, "insecure_bind"), (1, "quic_bind"))]
    fams.append(("root",))
    fams += [("cfgname", form, pl) for form in CFG_FORMS for pl in CFG_PLACEMENTS[form]]
    fams += [("hdr", y) for y in _year_list(tier)]
    fams += [("hdr-minutes",), ("hdr-switches",)]
    fams += [("hist-set",), ("hist-misc",), ("hist-pickle-keys",)]
    fams += [("hist-sockets", ssl_on, which) for ssl_on, which in HIST_COMBOS]
    fams += [("hist-pickle", ssl_on, which) for ssl_on, which in HIST_COMBOS]
    return fams


def cases(fam: tuple, tier: str) -> List[tuple]:
    kind = fam[0]
    spell = [s for s, _ in ref.cli_spellings()]
    canon = [s for s, c in ref.cli_spellings() if s == c]
    if kind == "load":
        key = fam[1]
        return [("load", key, vi, ld) for vi in range(len(ref.CONFIG_KEYS[key][1])) for ld in LOADERS]
    if kind == "loadx":
        return [("loadx", fam[1], nz, pos, ld) for nz in NOISE_NAMES for pos in (0, 1) for ld in LOADERS_X]
    if kind == "load2":
        return [("load2", fam[1], kb, ld) for kb in ref.CONFIG_KEYS if kb != fam[1] for ld in LOADERS2[tier]]
    if kind == "cli3":
        return [("cli", (fam[1], b, c), 0, 0, 0) for b in canon for c in canon]
    if kind == "cliopts":
        return [("cliopts",)]
    if kind == "cli1":
        _, v, st, af = fam
        return [("cli", (s,), v, st, af) for s in spell]
    if kind == "cli2":
        _, a, v, st, af = fam
        if tier == "quick":
            return [("cli", (a, b), v, st, af) for b in canon]
        return [("cli", (a, b), v, st, af) for v in (0, 1, 2) for st in (0, 1) for b in spell]
    if kind == "clifile":
        _, fmt, key = fam
        second = canon if tier == "quick" else spell
        return [("clifile", fmt, key, s) for s in second]
    if kind == "bind":
        _, ssl_on, which = fam
        out = [("bind", ssl_on, which, (s,), 1) for s in SHAPES]
        out += [("bind", ssl_on, which, (a, b), 1) for a in SHAPES for b in SHAPES
                if not (a.startswith("fd-") and b.startswith("fd-")) and not (a == b and a in ("v4:P", "v6:P"))]
        out += [("bind", ssl_on, which, (s,), 2) for s in SHAPES]
        return out
    if kind == "cfgname":
        _, form, pl = fam
        return [("cfgname", form, pl, n, present) for n in cfg_names(form, pl, tier) for present in (1, 0)]
    if kind == "root":
        return [("root", ld, p) for ld in ROOT_LOADERS for p in ROOT_PATHS]
    if kind == "hdr":
        return [("hdr", e, 1, 1, 0, "h11") for e in _hdr_epochs(fam[1])]
    if kind == "hdr-minutes":
        day = ref.days_from_civil(2024, 2, 29) * 86400
        out = [("hdr", day + 60 * m + s, 1, 0, 0, "h2") for m in range(1440) for s in (0, 59)]
        out += [("hdr", day + f, 1, 1, 0, "h2") for f in (0.5, 0.999999, 86399.5, 86399.999999, 1e-9)]
        return out
    if kind == "hdr-switches":
        epochs = [0, 951782400, 1709164800.75, 4107542399]
        return [("hdr", e, d, s, a, p) for e in epochs for d in (0, 1) for s in (0, 1) for a in range(len(ALT_SVC))
                for p in PROTOCOLS]
    if kind == "hist-set":
        return [("hist", "set", key) for key in ref.CONFIG_KEYS]
    if kind == "hist-misc":
        return [("hist", "misc", op) for op in HIST_MISC]
    if kind == "hist-pickle-keys":
        return [("hist", "pickle-keys")]
    if kind == "hist-sockets":
        _, ssl_on, which = fam
        shapes_b = HIST_SHAPES if tier != "quick" else HIST_SHAPES[:2]
        return [("hist", "sockets", (ssl_on, which, sa, alt), (sb_ssl, sb_which, sb))
                for sa in HIST_SHAPES for alt in (0, 1) for sb_ssl, sb_which in HIST_COMBOS for sb in shapes_b]
    if kind == "hist-pickle":
        _, ssl_on, which = fam
        return [("hist", "pickle-sockets", ssl_on, which, shape, alt)
                for shape in (HIST_SHAPES if tier != "quick" else HIST_SHAPES[:2]) for alt in (0, 1)]
    raise ValueError(fam)


def bounds(tier: str, params: Any) -> dict:
    return {"M": 0, "S": 0, "R": 0}


_DISPATCH = {"load": do_load, "load2": do_load2, "loadx": do_loadx, "cli": do_cli, "clifile": do_clifile, "cliopts": do_cliopts, "bind": do_bind,
             "root": do_root, "hdr": do_hdr, "cfgname": do_cfgname, "hist": do_hist}


def execute(params: Any, prefix: List[int]) -> ExecResult:
    """One case (a violation's replay artefact carries the case tuple)."""
    if isinstance(params, list):
        params = _tuplify(params)
    return _DISPATCH[params[0]](params)


def _tuplify(o: Any) -> Any:
    return tuple(_tuplify(x) for x in o) if isinstance(o, (list, tuple)) else o


def explore_item_custom(params: Any, tier: str, deadline: float) -> dict:
    return run_family(execute, cases(params, tier), deadline)


# wave h documentation (what was added to the enumeration; see DESIGN.md 11.0)
_WAVE_H = '+ loadx: every key next to one name that is not a setting {log, ssl_enabled, not_a_setting, _helper} x {before, after} x {mapping, kwargs, class, namespace, pyfile, toml}'
RULE = RULE + " " + _WAVE_H
BOUNDS_DOC = {k: v + " " + _WAVE_H for k, v in BOUNDS_DOC.items()}
