"""C12 - invalid application messages are rejected without corrupting the wire.

Explorer B (explicit-state breadth-first search over operation histories, canonical-state
de-duplication) on the real TCPServer / H11Protocol / H2Protocol / HTTPStream / WSStream code under
the virtual-time asyncio engine.

What is enumerated
    carriers   h1 (GET, HTTP/1.1), h2 (ALPN h2, request without `te`), h2te (request with
               `te: trailers`), ws/h1 (RFC 6455 upgrade), ws/h2 (RFC 8441 extended CONNECT);
               ws/h1o, ws/h2o: the same handshakes OFFERING subprotocols (chat, superchat), sub-alphabet
               OFFER_ALPHABET; ws/h1p, ws/h2p: websocket_ping_interval and a small
               websocket_max_message_size configured, sub-alphabet PING_ALPHABET, which adds two
               ENVIRONMENT operations: "tick" (the clock jumps to the next timer: the keep-alive ping
               task) and "c_big" (once, over an open WebSocket: the client sends a message above the
               limit, the server closes with 1009 on its own, the client stays silent)
    operations every sequence, up to the depth bound, over the ASGI send alphabet below (HTTP_OPS /
               WS_OPS): valid and invalid http.response.start / body / trailers / push /
               early_hint, websocket.accept / send / close / http.response.start / body, unknown
               types, header names/values that are not bytes, pseudo-headers, CR / LF / NUL in
               values, blank / CRLF in names, non-str push path and text frame, websocket.accept
               selecting a subprotocol (offered / not offered / with CR LF inside).
    One top-level scenario = (carrier, first operation); the search below it is exhaustive to
    the depth bound.  Every operation is applied at quiescence: the scripted application is
    [recv, gate g0, send m0, gate g1, send m1, ...]; the environment releases gate i, lets the
    server run dry, snapshots, releases gate i+1 ...  The client sent one complete request before
    and sends nothing afterwards.

Bounds
    quick: depth 6 (h1) / 4 (h2, h2te) / 5 (ws/h1, ws/h2);  thorough: depth 8 / 6 / 7.

Oracle clauses (reference automaton: mc/x_c12_ref.py, written from the ASGI spec)
    invalid-accepted      send() returned although the reference rejects the message
    valid-raised          send() raised although the reference allows the message
    rejected-wrote-bytes  a message the reference rejects added bytes to the wire
    send-never-returned   send() neither returned nor raised at quiescence
    wire-invalid          what was written is not a valid protocol prefix: the independent client
                          parser (h11 / strict h2 / wsproto) fails, a second final response head,
                          DATA / END_STREAM without a response head, trailers nobody sent,
                          a header field the application did not supply (h1 injection), a WebSocket
                          frame after the server's own Close frame (raw frame walk: the wsproto
                          client drops what follows a Close), a sec-websocket-protocol in the
                          handshake response that the client did not offer
    ctl-on-wire           CR, LF or NUL inside a header name/value the client decodes (h1: parsed
                          and raw head bytes; h2: decoded header blocks, inbound validation off)
    Wire clauses are evaluated after every operation and reported for the operation that
    introduced them; only violations caused by the LAST operation of a history are reported (the
    prefix was judged when it was the history), one witness per clause+key and scenario.
    Violation keys: <carrier>:<operation>:<reference state>[:<exception>] for the send clauses,
    <carrier>:<what the client saw>:after-<operation> for the wire clauses.
    Messages whose validity the ASGI text leaves open are judged None by the reference (nothing
    demanded about raising; the automaton follows the implementation, or goes to "limbo" where only
    state-independent rejections remain) - see mc/x_c12_ref.py.

Why equal canon implies equal futures
    canon = digest of (reference-automaton state; hypercorn's own state reachable from the
    connection and from every application's send callable: stream class / ASGI state / closed flag /
    stored response start / handshake.accepted / wsproto state, h11 our_state+their_state or the h2
    connection state, per-stream h2 state, outbound windows, stream-buffer fill and completion,
    keep-alive counter, transport closing flags; outcome of every application instance; virtual
    time; ALL bytes written so far; the client parsers' summary).  The future of an execution is a
    function of (a) hypercorn's mutable state - listed above, or a function of the bytes exchanged
    (HPACK tables, h2 windows, h11 framing state); the client's bytes are the same fixed request in
    every history of a carrier and it never speaks again; (b) the application program, which is
    parked at its next gate in every state; (c) the environment: no timer ever fires (the clock
    stays at 0), no fault is injected - on the "p" carriers the clock only moves by "tick", virtual
    time and the next pending deadline are part of canon, and whether the client has spoken
    ("c_big" in the history) is too; (d) the monitor: reference state and client parsers, the
    latter being deterministic functions of the byte string written.  Two histories with equal
    canon therefore agree on all of (a)-(d); extending both with the same operations gives the
    same executions and verdicts.  States in which the implementation already disagreed with the
    reference about raising are reported and not expanded (their continuation has no agreed
    reference state).
"""
from __future__ import annotations

import gc
import hashlib
import os
import re
from typing import Any, Dict, List, Optional, Tuple

from mc.clients import (OP_TEXT, Client, H2Client, h1_request, h2_request_headers, ws_frame, ws_h1_handshake,
                        ws_h2_headers)
from mc.core import ScriptApp
from mc.explore import V, bfs
from mc.harness import describe, norm_headers, run_world
from mc.x_c12_ref import HttpRef, WsRef

ID = "C12"
LEVEL = "model_checking"
TECHNIQUE = ("explicit-state breadth-first search over ASGI send-message histories with canonical-state "
             "de-duplication; every history is executed on the real hypercorn protocol stack under a virtual-time "
             "loop and an in-memory transport; oracle = reference ASGI send automaton + independent client parsers")
RULE = ("scenario = carrier(h1,h2,h2te,ws/h1,ws/h2, ws/h1o,ws/h2o: client offers subprotocols, ws/h1p,ws/h2p: keep-alive "
        "pings configured + environment operations clock tick / over-sized client message) x first operation; below it "
        "every operation sequence up to the "
        "depth bound, each operation applied at quiescence; states = distinct canonical states (reference state, "
        "hypercorn ASGI/h11/h2/wsproto state, bytes written, client parser view); non-trivial = every state (an "
        "application instance ran and at least one send was made); distinct outcomes = distinct canonical states")
ASSUMPTIONS = [
    "asyncio worker only (the message handling under test is worker independent)",
    "the client sends one complete request and nothing afterwards; no timers fire, no faults (C03 owns closed connections); "
    "ws/h?p carriers only: timers fire through the explicit operation 'tick', the client sends at most one over-sized "
    "message over an open WebSocket (after which only state-independent rejections and the wire clauses are demanded)",
    "websocket.accept naming a subprotocol the client did not advertise (scope['subprotocols']) is judged invalid: the "
    "server may only select an offered subprotocol (RFC 6455 4.2.2), any other value can only yield a handshake the "
    "client must fail",
    "messages whose validity the ASGI text leaves open (CR/LF/NUL or blank in header bytes, body contradicting the "
    "declared content-length, trailers/push before the response start, close/accept between "
    "websocket.http.response.start and its body) are not judged for raising, only for what reaches the wire",
    "states in which raising already disagreed with the reference are reported and not expanded",
    "client-side length errors are not counted once the application contradicted its own content-length",
]
BOUNDS_DOC = {"quick": "history depth 6 (h1) / 4 (h2, h2te) / 5 (ws/h1, ws/h2), full alphabet; depth 5 on ws/h?o (6 operations) "
                       "and ws/h?p (3 messages + tick + c_big)",
              "thorough": "history depth 8 (h1) / 6 (h2, h2te) / 7 (ws/h1, ws/h2), full alphabet; depth 7 on ws/h?o, ws/h?p"}
BUDGET = {"quick": 300, "thorough": 1200}

# ---------------------------------------------------------------------------------------------
# alphabets


def _start(status: int = 200, headers: Any = (), **kw: Any) -> dict:
    return {"type": "http.response.start", "status": status, "headers": list(headers), **kw}


def _body(data: bytes, more: bool) -> dict:
    return {"type": "http.response.body", "body": data, "more_body": more}


HTTP_OPS: Dict[str, dict] = {
    "s200": _start(200, [(b"x-a", b"1")]),
    "s200t": _start(200, [], trailers=True),
    "s204": _start(204),
    "s_cl3": _start(200, [(b"content-length", b"3")]),
    "b_ab_more": _body(b"ab", True),
    "b_empty_more": _body(b"", True),
    "b_end": _body(b"", False),
    "b_c_end": _body(b"c", False),
    "tr": {"type": "http.response.trailers", "headers": [(b"x-t", b"1")], "more_trailers": False},
    "tr_more": {"type": "http.response.trailers", "headers": [(b"x-t", b"1")], "more_trailers": True},
    "push": {"type": "http.response.push", "path": "/p", "headers": []},
    "push_nonstr": {"type": "http.response.push", "path": b"/p", "headers": []},
    "hint": {"type": "http.response.early_hint", "links": [b"</s.css>; rel=preload"]},
    "unknown": {"type": "http.response.bogus"},
    "s_n_str": _start(200, [("x-a", b"1")]),
    "s_v_str": _start(200, [(b"x-a", "1")]),
    "s_v_int": _start(200, [(b"x-n", 3)]),
    "s_pseudo": _start(200, [(b":status", b"201")]),
    "s_v_crlf": _start(200, [(b"x-a", b"1\r\nx-evil: 2")]),
    "s_v_lf": _start(200, [(b"x-a", b"1\nx-evil: 2")]),
    "s_v_cr": _start(200, [(b"x-a", b"1\rx-evil: 2")]),
    "s_v_nul": _start(200, [(b"x-a", b"a\x00b")]),
    "s_n_space": _start(200, [(b"x a", b"1")]),
    "s_sp_pseudo": _start(200, [(b" :status", b"500")]),
    "hint_crlf": {"type": "http.response.early_hint", "links": [b"</s.css>; rel=preload\r\nx-evil: 1"]},
    "s_n_crlf": _start(200, [(b"x-a: 1\r\nx-evil", b"2")]),
}

WS_OPS: Dict[str, dict] = {
    "accept": {"type": "websocket.accept"},
    "accept_hdr": {"type": "websocket.accept", "headers": [(b"x-a", b"1")]},
    "accept_pseudo": {"type": "websocket.accept", "headers": [(b":status", b"200")]},
    "accept_v_crlf": {"type": "websocket.accept", "headers": [(b"x-a", b"1\r\nx-evil: 2")]},
    "send_text": {"type": "websocket.send", "text": "hi"},
    "send_bytes": {"type": "websocket.send", "bytes": b"yo"},
    "send_nonstr": {"type": "websocket.send", "text": b"hi"},
    "close": {"type": "websocket.close", "code": 1000},
    "hstart": {"type": "websocket.http.response.start", "status": 401, "headers": [(b"x-a", b"1")]},
    "hstart204": {"type": "websocket.http.response.start", "status": 204, "headers": []},  # a body-less denial
    "hstart_pseudo": {"type": "websocket.http.response.start", "status": 401, "headers": [(b":status", b"200")]},
    "hstart_v_crlf": {"type": "websocket.http.response.start", "status": 401,
                      "headers": [(b"x-a", b"1\r\nx-evil: 2")]},
    "hbody_more": {"type": "websocket.http.response.body", "body": b"no", "more_body": True},
    "hbody_end": {"type": "websocket.http.response.body", "body": b"", "more_body": False},
    "unknown": {"type": "websocket.bogus"},
    "http_start": _start(200, []),  # a message of the other protocol
    # the accepted subprotocol is an application-supplied header VALUE (sec-websocket-protocol) that does not travel
    # in "headers": offered by the client ("o" carriers) / not offered / with CR LF inside
    "accept_sub": {"type": "websocket.accept", "subprotocol": "chat"},
    "accept_sub_other": {"type": "websocket.accept", "subprotocol": "mqtt"},
    "accept_sub_ctl": {"type": "websocket.accept", "subprotocol": "chat\r\nset-cookie: a=b"},
}
# Environment operations (WebSocket "p" carriers: websocket_ping_interval and a small websocket_max_message_size
# configured): the clock jumps to the next timer (the keep-alive ping task) / the client sends one message larger than
# websocket_max_message_size (the server closes with 1009 on its own) and stays silent afterwards.
ENV_OPS = ("tick", "c_big")
OFFERED = ("chat", "superchat")
PING_INTERVAL = 2.0
MAX_MESSAGE = 8
BIG_MESSAGE = b"0123456789abcdef"
# sub-alphabets of the variant carriers (the base carriers ws/h1, ws/h2 run the full alphabet)
OFFER_ALPHABET = ["accept", "accept_sub", "accept_sub_other", "accept_sub_ctl", "send_text", "close"]
PING_ALPHABET = ["accept", "send_text", "close", "tick", "c_big"]

# ws/h?o: the client offers subprotocols OFFERED; ws/h?p: keep-alive pings + environment operations
CARRIERS = ["h1", "h2", "h2te", "ws/h1", "ws/h2", "ws/h1o", "ws/h2o", "ws/h1p", "ws/h2p"]
DEPTH = {"quick": {"h1": 6, "h2": 4, "h2te": 4, "ws/h1": 5, "ws/h2": 5, "ws/h1o": 5, "ws/h2o": 5, "ws/h1p": 5, "ws/h2p": 5},
         "thorough": {"h1": 8, "h2": 6, "h2te": 6, "ws/h1": 7, "ws/h2": 7, "ws/h1o": 7, "ws/h2o": 7, "ws/h1p": 7, "ws/h2p": 7}}

SERVER_HEADERS = {b"date", b"server", b"connection", b"transfer-encoding", b"alt-svc", b"upgrade",
                  b"sec-websocket-accept", b"sec-websocket-extensions", b"sec-websocket-protocol"}


def is_ws(carrier: str) -> bool:
    return carrier.startswith("ws")


def ops_of(carrier: str) -> Dict[str, dict]:
    return WS_OPS if is_ws(carrier) else HTTP_OPS


def base_of(carrier: str) -> str:
    return carrier[:5] if is_ws(carrier) else carrier


def offered_of(carrier: str) -> tuple:
    return OFFERED if carrier.endswith("o") else ()


def alphabet(carrier: str) -> List[str]:
    """Operation names of a carrier: application messages (keys of ops_of) and environment operations."""
    if carrier.endswith("o"):
        return list(OFFER_ALPHABET)
    if carrier.endswith("p"):
        return list(PING_ALPHABET)
    return list(ops_of(carrier))


def scenarios(tier: str) -> List[Any]:
    # environment operations are not enabled in the initial state (no timer, WebSocket not open)
    return [(c, op) for c in CARRIERS for op in alphabet(c) if op not in ENV_OPS]


def bounds(tier: str, params: Any) -> dict:
    return {"M": 0, "S": 0, "R": 0}


# ---------------------------------------------------------------------------------------------
# world construction


class _StashApp(ScriptApp):
    """ScriptApp that remembers the object behind every application's send callable (the
    HTTPStream / WSStream, which the protocol may already have dropped from its table)."""

    async def __call__(self, scope: dict, receive: Any, send: Any) -> None:
        self.world.c12_streams.append(getattr(send, "__self__", None))
        await super().__call__(scope, receive, send)


class _DualClient(Client):
    """The engine's lenient h2 client (validate_inbound=False, so illegal header bytes can be
    *seen*) plus a strict mirror (inbound validation on) fed with the same bytes and commands."""

    def __init__(self, opts: dict) -> None:
        super().__init__(opts)
        self.strict: Optional[H2Client] = None
        if self.h2 is not None:
            self.strict = H2Client(True, True, opts.get("h2_settings"))

    def on_server_bytes(self, data: bytes, t: float) -> None:
        super().on_server_bytes(data, t)
        if self.strict is not None:
            self.strict.feed(data, t)

    def command(self, ev: tuple) -> bytes:
        out = super().command(ev)
        if self.strict is not None and ev[2] not in ("ws_open",):
            name, args = ev[2], tuple(ev[3:])
            if name == "ws_data":
                name, args = "datan", (args[0], args[1], False)
            self.strict.command(name, args)
        return out


def _build(carrier: str, history: List[str], snaps: list) -> dict:
    ops = ops_of(carrier)
    program: List[tuple] = [("recv",)]
    for i, name in enumerate(n for n in history if n not in ENV_OPS):
        program += [("gate", f"g{i}"), ("send", ops[name])]
    program.append(("gate", "never"))
    full, carrier = carrier, base_of(carrier)
    offer = [(b"sec-websocket-protocol", ", ".join(offered_of(full)).encode())] if offered_of(full) else []
    conn: Dict[str, Any] = {"carrier": "h2" if carrier == "h2te" else carrier}
    if carrier == "h1":
        client = [("data", 0, h1_request(b"GET", b"/x"))]
        conn["methods"] = [b"GET"]
    elif carrier in ("h2", "h2te"):
        conn.update(tls=True, alpn="h2", validate_inbound=False)
        extra = [(b"te", b"trailers")] if carrier == "h2te" else []
        client = [("cmd", 0, "preface"), ("cmd", 0, "headers", 1, h2_request_headers(b"GET", b"/x", extra=extra), True)]
    elif carrier == "ws/h1":
        client = [("data", 0, ws_h1_handshake(b"/x", extra=offer))]
        big = ("data", 0, ws_frame(OP_TEXT, BIG_MESSAGE))
    else:
        conn.update(tls=True, alpn="h2", validate_inbound=False)
        client = [("cmd", 0, "preface"), ("cmd", 0, "ws_open", 1),
                  ("cmd", 0, "headers", 1, ws_h2_headers(b"/x", extra=offer), False)]
        big = ("cmd", 0, "ws_data", 1, ws_frame(OP_TEXT, BIG_MESSAGE))
    apps = {"http:/x": program, "websocket:/x": program, "http:/p": [("gate", "never")]}
    script: List[tuple] = list(client) + [("call", lambda w: snaps.append(_snapshot(w, carrier)))]
    j = 0
    for name in history:
        if name == "tick":
            script.append(("tick",))
        elif name == "c_big":
            script.append(big)
        else:
            script.append(("release", f"g{j}"))
            j += 1
        script.append(("call", lambda w: snaps.append(_snapshot(w, carrier))))
    config: Dict[str, Any] = {"keep_alive_timeout": 5}
    if full.endswith("p"):
        config.update(websocket_ping_interval=PING_INTERVAL, websocket_max_message_size=MAX_MESSAGE)

    def app_factory(world: Any) -> Any:
        from hypercorn.app_wrappers import ASGIWrapper

        world.c12_streams = []
        return ASGIWrapper(_StashApp(world, apps))

    return {
        "level": "conn", "conns": {0: conn}, "client_factory": lambda w, k, opts: _DualClient(opts),
        "app_factory": app_factory, "config": config, "sources": [("script", script)],
        "midflight": False, "sigs": False,
    }


# ---------------------------------------------------------------------------------------------
# snapshots (taken at quiescence after every operation)


def _sha(obj: Any) -> str:
    return hashlib.sha1(repr(obj).encode("utf8", "backslashreplace")).hexdigest()[:20]


def _resp_digest(stream: Any) -> Any:
    r = getattr(stream, "response", None)
    if r is None:
        return None
    try:
        return (r.get("status"), bool(r.get("trailers", False)), repr(r.get("headers")))
    except Exception:
        return repr(r)[:200]


def _stream_state(stream: Any) -> Any:
    if stream is None:
        return None
    out: List[Any] = [type(stream).__name__, str(getattr(stream, "state", None)), getattr(stream, "closed", None),
                      _resp_digest(stream)]
    hs = getattr(stream, "handshake", None)
    if hs is not None:
        out.append(hs.accepted)
    wsc = getattr(stream, "connection", None)
    if wsc is not None:
        out.append(str(getattr(wsc, "state", None)))
    return tuple(out)


def _hyp_state(w: Any) -> Any:
    tcp = w.tcp_of_conn.get(0)
    tr = w.transports.get(0)
    parts: List[Any] = [None if tr is None else (tr._closing, tr._eof, bool(tr._conn_lost), len(tr._buffer))]
    try:
        p = tcp.protocol.protocol
    except AttributeError:
        p = None
    if p is None:
        parts.append("noproto")
    elif type(p).__name__ == "H11Protocol":
        c = p.connection
        parts.append(("h11", type(c).__name__, str(getattr(c, "our_state", None)), str(getattr(c, "their_state", None)),
                      _stream_state(p.stream), p.keep_alive_requests))
        inner = getattr(c, "h11_connection", None)
        if inner is not None:
            parts.append((str(inner.our_state), str(inner.their_state)))
    else:
        c = p.connection
        h2s = []
        for sid, st in sorted(c.streams.items()):
            h2s.append((sid, str(st.state_machine.state), st.outbound_flow_control_window))
        parts.append(("h2", str(c.state_machine.state), tuple(h2s), c.outbound_flow_control_window,
                      tuple(sorted((sid, _stream_state(s)) for sid, s in p.streams.items())),
                      tuple(sorted((sid, len(b.buffer), b._complete) for sid, b in p.stream_buffers.items())),
                      p.closed, p.keep_alive_requests, c.highest_outbound_stream_id))
    parts.append(tuple(_stream_state(s) for s in w.c12_streams))
    return tuple(parts)


def _short(msg: str) -> str:
    return re.sub(r"[^A-Za-z ]+", "", msg).strip()[:48].replace(" ", "-")


def _ctl_names(b: bytes) -> List[str]:
    return [n for c, n in ((0x0D, "CR"), (0x0A, "LF"), (0x00, "NUL")) if c in b]


def _scan_headers(where: str, headers: Any, out: List[tuple]) -> None:
    for n, v in headers or []:
        for part, data in (("name", bytes(n)), ("value", bytes(v))):
            for c in _ctl_names(data):
                out.append(("ctl-on-wire", f"{where}:{part}:{c}", f"{bytes(n)!r}: {bytes(v)!r}"))


def _ws_opcodes(data: bytes) -> List[int]:
    """Opcodes of the complete server-to-client (unmasked) WebSocket frames in `data`."""
    out: List[int] = []
    i = 0
    while len(data) - i >= 2:
        n = data[i + 1] & 0x7F
        hdr = 2 + (4 if data[i + 1] & 0x80 else 0)
        if n == 126:
            if len(data) - i < 4:
                break
            n = int.from_bytes(data[i + 2:i + 4], "big")
            hdr += 2
        elif n == 127:
            if len(data) - i < 10:
                break
            n = int.from_bytes(data[i + 2:i + 10], "big")
            hdr += 8
        if len(data) - i < hdr + n:
            break
        out.append(data[i] & 0x0F)
        i += hdr + n
    return out


def _after_close(where: str, data: bytes, out: List[tuple]) -> None:
    # RFC 6455 5.5.1: no frame follows one's own Close frame (the wsproto client silently drops what follows)
    ops = _ws_opcodes(data)
    if 8 in ops and ops.index(8) != len(ops) - 1:
        out.append(("wire-invalid", f"{where}frame-after-close", f"frame opcodes {ops}"))


def _wire_problems(rec: Any, carrier: str) -> List[tuple]:
    """(clause, cause, detail) for everything that is wrong with the bytes written so far.  Uses
    only the client side: raw bytes and the independent parsers."""
    out: List[tuple] = []
    cl = rec.client
    raw = bytes(rec.out)
    if cl.h1 is not None:
        p = cl.h1
        if p.error is not None:
            out.append(("wire-invalid", "h11-client:" + _short(p.error), p.error))
        finals = [r for r in p.responses if r["status"] is not None and r["status"] != 101]
        switched = [r for r in p.responses if r["status"] == 101]
        if len(finals) + len(switched) > 1:
            out.append(("wire-invalid", "second-response-head", [r["status"] for r in p.responses]))
        if p.leftover:
            out.append(("wire-invalid", "bytes-after-error", p.leftover[:60]))
        for r in p.responses:
            _scan_headers("h1-head", r["headers"], out)
            for s, h in r["informational"]:
                _scan_headers("h1-info", h, out)
        head_end = raw.find(b"\r\n\r\n")
        head = raw if head_end < 0 else raw[:head_end]
        if b"\x00" in head:
            out.append(("ctl-on-wire", "h1-raw-head:NUL", head[:80]))
        if cl.ws is not None and cl.ws.error is not None:
            out.append(("wire-invalid", "ws-client:" + _short(cl.ws.error), cl.ws.error))
        if cl.ws is not None and p.switched:
            _after_close("ws-", bytes(p.after_switch), out)
    else:
        for tag, h2c in (("h2-client", cl.h2), ("h2-strict-client", cl.strict)):
            if h2c.error is not None:
                out.append(("wire-invalid", f"{tag}:" + _short(h2c.error), h2c.error))
        for sid, st in sorted(cl.h2.streams.items()):
            if st["status"] is None and (st["body"] or st["ended"] or st["trailers"] is not None):
                out.append(("wire-invalid", "data-or-end-without-head", f"stream {sid}: {st['body']!r} ended={st['ended']}"))
            if st["ended"] > 1:
                out.append(("wire-invalid", "end-stream-twice", f"stream {sid}"))
            _scan_headers("h2-head", st["headers"], out)
            if st["trailers"] is not None:
                _scan_headers("h2-trailers", st["trailers"], out)
            for s, h in st["informational"]:
                _scan_headers("h2-info", h, out)
            for psid, h in st["pushes"]:
                _scan_headers("h2-push", h, out)
        for sid, wsp in sorted(cl.h2.ws.items()):
            if wsp.error is not None:
                out.append(("wire-invalid", "ws-client:" + _short(wsp.error), wsp.error))
            st = cl.h2.streams.get(sid)
            if st is not None and st["status"] == 200:
                _after_close("ws-", st["body"], out)
    return out


def _client_summary(rec: Any) -> Any:
    cl = rec.client
    if cl.h1 is not None:
        view: List[Any] = [tuple((r["status"], norm_headers(r["headers"]), r["body"], r["complete"]) for r in cl.h1.responses),
                           cl.h1.error, cl.h1.switched]
        if cl.ws is not None:
            view.append((tuple(cl.ws.messages), cl.ws.close, cl.ws.error))
        return tuple(view)
    view = []
    for sid, st in sorted(cl.h2.streams.items()):
        view.append((sid, st["status"], norm_headers(st["headers"]), st["body"], st["ended"], st["reset"],
                     None if st["trailers"] is None else norm_headers(st["trailers"]), len(st["informational"]),
                     len(st["pushes"])))
    for sid, wsp in sorted(cl.h2.ws.items()):
        view.append((sid, tuple(wsp.messages), wsp.close, wsp.error))
    return (tuple(view), cl.h2.error, cl.strict.error, cl.h2.goaway[:2] if cl.h2.goaway else None)


def _snapshot(w: Any, carrier: str) -> dict:
    rec = w.conns[0]
    main = w.instances[0] if w.instances else None
    return {
        "out_len": len(rec.out),
        "out_sha": hashlib.sha1(bytes(rec.out)).hexdigest()[:20],
        "hyp": _hyp_state(w),
        "wire": _wire_problems(rec, carrier),
        "client": _client_summary(rec),
        "sends": [] if main is None else [s[3] for s in main.sends],
        "instances": tuple((i.scope["type"], i.scope.get("path"), i.outcome, i.parked_gate) for i in w.instances),
        "now": w.now(),
        "closed": (rec.closed_at, rec.server_eof_at, rec.handler),
        # what the environment could do next (also part of the canonical state: the pending timer)
        "deadline": w.loop.next_deadline(),
        "data_ok": w.enabled(("data", 0, b"")),
    }


# ---------------------------------------------------------------------------------------------
# one history


def _new_model(carrier: str) -> Any:
    if is_ws(carrier):
        return WsRef(offered_of(carrier))
    return HttpRef("1.1" if carrier == "h1" else "2", te_trailers=carrier == "h2te")


def _headers_of(msg: dict) -> list:
    h = msg.get("headers")
    return list(h) if isinstance(h, (list, tuple)) else []


def _judge(carrier: str, history: List[str], snaps: List[dict], w: Any) -> Tuple[Any, List[dict], bool]:
    """Walks the reference automaton along the history using the per-step snapshots; returns
    (reference model, violations attributable to the LAST operation, expandable?)."""
    ops = ops_of(carrier)
    model = _new_model(carrier)
    viol: List[dict] = []
    expand = True
    n = len(history)
    if len(snaps) != n + 1:
        # some send never came back (or the request never reached the application)
        last = history[len(snaps) - 1] if 0 < len(snaps) <= n else "-"
        if 0 < len(snaps) <= n and history[len(snaps) - 1] in ENV_OPS:
            return model, viol, False  # an environment operation that was not enabled (not generated by run_history)
        if len(snaps) == n:  # the last operation is the one that hangs: report it here
            viol.append(V("send-never-returned", f"{carrier}:{last}", f"history={history}"))
        return model, viol, False
    supplied: set = set()  # header fields the application supplied in messages the server took
    j = -1  # index of the application's send
    for i, name in enumerate(history):
        before, after = snaps[i], snaps[i + 1]
        is_last = i == n - 1
        if name in ENV_OPS:
            model.env(name)
            if is_last:
                _wire_verdict(carrier, name, before, after, w, model, history, supplied, viol)
            continue
        msg = ops[name]
        j += 1
        outcome = after["sends"][j] if j < len(after["sends"]) else "missing"
        if outcome in ("pending", "missing", "cancelled"):
            if is_last:
                viol.append(V("send-never-returned", f"{carrier}:{name}:{outcome}", f"history={history}"))
            return model, viol, False
        raised = outcome != "ok"
        wire_changed = after["out_len"] != before["out_len"]
        verdict = model.allows(msg)
        state = model.state
        if verdict is False:
            if not raised:
                expand = False
                if is_last:
                    viol.append(V("invalid-accepted", f"{carrier}:{name}:{state}",
                                  f"history={history} msg={_brief(msg)} wire+{after['out_len'] - before['out_len']}"))
            if wire_changed and is_last:
                viol.append(V("rejected-wrote-bytes", f"{carrier}:{name}:{state}",
                              f"history={history} +{after['out_len'] - before['out_len']} bytes, send outcome {outcome}"))
            if not raised or wire_changed:
                return model, viol, False
        elif verdict is True:
            if raised:
                if is_last:
                    viol.append(V("valid-raised", f"{carrier}:{name}:{state}:{outcome}",
                                  f"history={history} msg={_brief(msg)}"))
                return model, viol, False
            model.advance(msg, wire_changed)
        else:
            if raised:
                model.raised(msg, wire_changed)
            else:
                model.advance(msg, wire_changed)
        if not raised:
            for hn, hv in _headers_of(msg):
                try:
                    supplied.add((bytes(hn).strip().lower(), bytes(hv).strip()))
                except Exception:
                    pass
        if is_last:
            _wire_verdict(carrier, name, before, after, w, model, history, supplied, viol)
    return model, viol, expand


def _wire_verdict(carrier: str, name: str, before: dict, after: dict, w: Any, model: Any, history: List[str],
                  supplied: set, viol: List[dict]) -> None:
    """Wire clauses introduced by the last operation `name` of the history."""
    old = {(c, k) for c, k, _ in before["wire"]}
    # a client-side body-length error needs a content-length, which only the application supplies
    exempt = any(n == b"content-length" for n, _ in supplied)
    for clause, cause, detail in after["wire"] + _semantic_wire(carrier, w, model, history, supplied):
        if (clause, cause) in old:
            continue
        if exempt and ("Length" in cause or "length" in cause or "InvalidBodyLength" in str(detail)):
            continue
        viol.append(V(clause, f"{carrier}:{cause}:after-{name}", f"history={history} {detail}"))


def _semantic_wire(carrier: str, w: Any, model: Any, history: List[str], supplied: set) -> List[tuple]:
    """Checks that need the history: header fields nobody supplied (h1 header injection) and
    trailers that no accepted message produced."""
    out: List[tuple] = []
    rec = w.conns[0]
    cl = rec.client
    if cl.h1 is not None:
        for r in cl.h1.responses:
            for n, v in r["headers"]:
                n = bytes(n).lower()
                if n in SERVER_HEADERS or (n, bytes(v).strip()) in supplied:
                    continue
                if n == b"content-length" and r["status"] in (400, 403, 404, 500):
                    continue
                out.append(("wire-invalid", "header-not-supplied:" + _short(n.decode("latin1")), f"{n!r}: {bytes(v)!r}"))
        heads = [r["headers"] for r in cl.h1.responses if r["status"] == 101]
    else:
        took_trailers = any(h not in ENV_OPS and ops_of(carrier)[h]["type"] == "http.response.trailers" for h in history)
        heads = [st["headers"] or [] for sid, st in sorted(cl.h2.streams.items()) if sid in cl.h2.ws and st["status"] == 200]
        for sid, st in sorted(cl.h2.streams.items()):
            if st["trailers"] is not None and not took_trailers:
                out.append(("wire-invalid", "trailers-nobody-sent", f"stream {sid}: {st['trailers']}"))
    if is_ws(carrier):
        # RFC 6455 4.2.2 / 4.1: the handshake response selects one of the subprotocols the client offered or none
        offered = {o.encode() for o in offered_of(carrier)}
        for hd in heads:
            for n, v in hd:
                if bytes(n).lower() == b"sec-websocket-protocol" and bytes(v).strip() not in offered:
                    out.append(("wire-invalid", "subprotocol-not-offered", f"{bytes(n)!r}: {bytes(v)!r}"))
    return out


def _brief(msg: dict) -> str:
    return repr({k: v for k, v in msg.items()})[:160]


def _run_world(carrier: str, history: List[str]) -> Tuple[Any, List[dict]]:
    snaps: List[dict] = []
    w = run_world("asyncio", _build(carrier, history, snaps), [])
    return w, snaps


_RUNS = [0]


def run_history(carrier: str, history: List[str]) -> Tuple[str, List[dict], List[str], Any]:
    # automatic collection is off in the pool workers and every world is cyclic garbage
    _RUNS[0] += 1
    if _RUNS[0] % 64 == 0:
        gc.collect()
    w, snaps = _run_world(carrier, history)
    viol: List[dict] = [V("harness-problem", p.split(":")[0], p) for p in w.problems]
    model, v2, expand = _judge(carrier, history, snaps, w)
    viol += v2
    last = snaps[-1] if snaps else {}
    canon = _sha((carrier, model.key(), model.state, last.get("hyp"), last.get("out_sha"), last.get("client"),
                  last.get("instances"), last.get("now"), last.get("closed"), len(snaps) == len(history) + 1, expand,
                  last.get("deadline"), last.get("data_ok"), "c_big" in history))
    enabled = alphabet(carrier) if expand and len(snaps) == len(history) + 1 else []
    if "tick" in enabled and last.get("deadline") is None:
        enabled.remove("tick")
    # the client speaks once, over an open WebSocket (frames before the handshake completes belong to C13)
    if "c_big" in enabled and ("c_big" in history or model.state != "connected" or not last.get("data_ok")):
        enabled.remove("c_big")
    return canon, viol, enabled, (w, snaps, model)


# ---------------------------------------------------------------------------------------------
# explorer entry points


def explore_item_custom(params: Any, tier: str, deadline: float) -> dict:
    carrier, first = params
    depth = DEPTH[tier][carrier]

    reported: set = set()

    def run(history: List[str]) -> Tuple[str, List[dict], List[str]]:
        canon, viol, enabled, _ = run_history(carrier, history)
        # one witness (the shortest: breadth-first order) per clause+key and scenario
        fresh = [v for v in viol if (v["clause"], v["key"]) not in reported]
        reported.update((v["clause"], v["key"]) for v in fresh)
        return canon, fresh, enabled

    c0 = run_history(carrier, [])[0]
    c1 = run_history(carrier, [first])[0]
    # A first operation that leaves the initial state unchanged has the futures of the initial
    # state, which the other scenarios of this carrier explore (one level deeper, even).
    sub_depth = 0 if c1 == c0 else depth - 1
    res = bfs(run, sub_depth, deadline, roots=[[first]])
    res["executions"] += 2
    # determinism: the root and every violating history are executed again and compared
    checks = [[first]] + [v["history"] for v in res["violations"][:20]]
    for h in checks:
        a = run_history(carrier, list(h))
        b = run_history(carrier, list(h))
        res["replay_checks"] += 1
        if a[0] != b[0] or [(x["clause"], x["key"]) for x in a[1]] != [(x["clause"], x["key"]) for x in b[1]]:
            res["replay_divergences"] += 1
            res["divergent"].append({"params": list(params), "history": list(h)})
    for v in res["violations"]:
        v["params"] = params
    # an emptied frontier means every longer history runs through a state already expanded
    res["depth_completed"] = res.get("depth_completed", 0) + 1 if res["capped"] else depth
    if not res["samples"]:
        res["samples"].append({"carrier": carrier, "history": [first]})
    return res


def replay_history(params: Any, history: List[str]) -> Tuple[List[dict], Any]:
    carrier = params[0]
    canon, viol, enabled, (w, snaps, model) = run_history(carrier, list(history))
    canon2, viol2, _, _ = run_history(carrier, list(history))
    if canon != canon2 or [(v["clause"], v["key"]) for v in viol] != [(v["clause"], v["key"]) for v in viol2]:
        viol = [V("harness-problem", "replay-divergence", "two runs of the same history differ")] + viol
    if os.environ.get("MC_VERBOSE"):
        describe(w)
        for i, s in enumerate(snaps):
            print(f"snapshot {i}: out_len={s['out_len']} sends={s['sends']} wire={s['wire']}\n    hyp={s['hyp']}")
    inst = w.instances[0] if w.instances else None
    obs = {
        "carrier": carrier, "history": list(history),
        "messages": [h if h in ENV_OPS else _brief(ops_of(carrier)[h]) for h in history],
        "send_outcomes": [] if inst is None else [s[3] for s in inst.sends],
        "out_len_per_step": [s["out_len"] for s in snaps],
        "reference_state": repr(model.key()),
        "wire": repr(bytes(w.conns[0].out))[:1500],
        "client": repr(_client_summary(w.conns[0]))[:1200],
        "canon": canon,
    }
    return viol, obs
