"""C05 - application failures are contained and never yield a falsely complete response.

A base application program (HTTP: recv, recv, start, chunk, chunk, end; WebSocket session: connect, accept,
send, recv, close; WebSocket denial response: connect, websocket.http.response.start 403, body chunk
more_body=True, final chunk) gets a failure injected at *every* program point, crossed with the failure kind
(raise / return early / raise CancelledError on asyncio / an exception group / a response start that send()
refuses), the response framing (content-length / chunked or DATA frames) and the context: HTTP/1.1 keep-alive
followed by a second request (later segment or pipelined) or *preceded* by one that was answered normally, two
concurrent HTTP/2 streams (the sibling is healthy and gated so that it overlaps), WebSocket over both carriers,
plus a second connection on the same worker (any time next to an HTTP/1 connection, afterwards next to an
HTTP/2 one).  Explorer A places the remaining client bytes / sibling gate releases around the crash.

Refused response starts: 'badstart' is refused by hypercorn's own header validation; the 'ref_*' kinds pass it and
are refused by the protocol library with nothing written (h11: transfer-encoding it cannot frame, non-numeric
content-length, status 1000; h2: a TE value, which H2Protocol swallows so that the application believes the
response started; an empty header name, which both libraries refuse, h2 only after corrupting its stream state,
and which hypercorn therefore has to refuse itself).  The exception reaches
the application inside send() and is not caught there: nothing had been started, exactly one 500 is owed.

Oracle
  no-500                 nothing had been started, yet the client does not parse exactly one complete 500 (HTTP/1: and
                         nothing after a 500 that announced connection: close)
  falsely-complete       a response was started but not finished by the app, and the client parses it as complete
  not-terminated         ... and it is not promptly terminated: h1 connection still open at the quiescent point after
                         the crash (no timer may be needed), h2 stream neither reset nor (wrongly) ended
                         (denial response between its start message and its first body message, whose head hypercorn
                         has not written yet: a complete 500 is accepted as well as a truncated 403)
  not-logged             application raised (its own exception or the one send() threw into it) but the error log has
                         no 'Error in ASGI Framework' exception record (or has more than one)
  sibling-broken         healthy sibling stream / following request on a reusable connection / next connection
                         did not complete normally
  + no internal error (handler exception, loop exception handler)
"""
from __future__ import annotations

from typing import Any, List

from mc.clients import OP_TEXT, h1_request, h2_request_headers, make_client, ws_frame, ws_h1_handshake, ws_h2_headers
from mc.explore import V
from mc.harness import internal_errors, std_execute

ID = "C05"
LEVEL = "model_checking"
TECHNIQUE = ("exhaustive crash-point x failure-kind (raise / return / cancel / exception group / response start refused by "
             "hypercorn or by the protocol library) x framing x context enumeration with stateless deviation-bounded "
             "exploration of the crash racing further client input, on the real task group / stream / protocol code")
RULE = ("scenario = engine x context(h1 seq, h1 pipelined, h1 second request of a keep-alive connection, h2 two streams, "
        "h2 upload going on, h2 full application queue, ws session over h1 / h2, ws denial response over h1 / h2) x "
        "framing x crash point x kind; Explorer A within (M,S); non-trivial = instance ran and a non-default choice was "
        "taken or the crash point is not the trivial 'after completion'; distinct by observation digest")
ASSUMPTIONS = [
    "HTTP/1.0 close-delimited bodies are excluded by the property (truncation is invisible by protocol design)",
    "for a WebSocket that was accepted, 'visibly incomplete' means a 1011 close frame or the connection being dropped",
]
BOUNDS_DOC = {"quick": "M<=1, S<=2; trio additionally M=0, S<=1, R<=1 (batch / wake order); programs of 4-6 steps, every "
                       "crash point; refused starts at the start message only; the second connection opens at any "
                       "moment next to an HTTP/1 connection, only after the failure and the other sources next to an "
                       "HTTP/2 one",
              "thorough": "M<=2, S<=3, trio R<=1; trio additionally M=0, S<=2, R<=2; same programs and contexts"}
BUDGET = {"quick": 300, "thorough": 1800}

HTTP_BASE = [
    ("recv",), ("recv_body",),
    ("send", "START"),
    ("send", {"type": "http.response.body", "body": b"ab", "more_body": True}),
    ("send", {"type": "http.response.body", "body": b"cd", "more_body": True}),
    ("send", {"type": "http.response.body", "body": b"", "more_body": False}),
]
WS_BASE = [
    ("recv",),
    ("send", {"type": "websocket.accept"}),
    ("send", {"type": "websocket.send", "text": "hi"}),
    ("recv",),
    ("send", {"type": "websocket.close", "code": 1000}),
]
HEALTHY = [("recv_body",), ("gate", "gb"), ("send", {"type": "http.response.start", "status": 200,
                                                     "headers": [(b"content-length", b"2")]}),
           ("send", {"type": "http.response.body", "body": b"ok", "more_body": False})]
HEALTHY_NOGATE = [op for op in HEALTHY if op[0] != "gate"]
# a WebSocket handshake answered with an HTTP response (ASGI websocket.http.response extension) in two body messages
WSD_BASE = [
    ("recv",),
    ("send", "DENY_START"),
    ("send", {"type": "websocket.http.response.body", "body": b"ab", "more_body": True}),
    ("send", {"type": "websocket.http.response.body", "body": b"cd", "more_body": False}),
]
KINDS = ["raise", "return", "cancel", "raise_group", "badstart", "ref_te", "ref_cl", "ref_status", "ref_name", "ref_h2te"]
BAD_START = {"type": "http.response.start", "status": 200, "headers": [(b"x-bad", b"a\r\nset-cookie: b")]}
# response starts that pass hypercorn's own header validation but that the protocol library refuses to serialise; the
# refusal happens before a single byte was written.  h11 (raises LocalProtocolError into the application's send()):
# a transfer coding it cannot frame, a content-length that is not a number, a status that is not three digits.
# h2 4.x refuses far less on the way out (connection-specific headers are silently dropped, a bad content-length /
# status goes out as it is): a TE value other than trailers (ProtocolError, which H2Protocol.stream_send swallows:
# the application is not told, kept as a response the application believes started).  ref_name, an empty header
# name: h11 refuses it, h2 raised IndexError into the application *after* recording the headers as sent, which made
# the 500 impossible and cost the client its whole connection; hypercorn's validation refuses it since 914af56 -
# kept on one HTTP/1 and the HTTP/2 context as a name that has to be refused before it reaches either library
REFUSED = {
    "ref_te": {"status": 200, "headers": [(b"transfer-encoding", b"gzip")]},
    "ref_cl": {"status": 200, "headers": [(b"content-length", b"5.0")]},
    "ref_status": {"status": 1000, "headers": []},
    "ref_name": {"status": 200, "headers": [(b"", b"x")]},
    "ref_h2te": {"status": 200, "headers": [(b"te", b"gzip")]},
}
# h2up: the client keeps uploading to the failed stream; h2full: the failing application is gated until more unread
# body messages than max_app_queue_size (10) are queued for it and the connection's reader waits for room;
# h1_2nd: the failing request is the second one of a keep-alive connection (the first was answered normally);
# wsd/*: the WebSocket handshake is answered with a denial response (WSD_BASE) instead of being accepted
CONTEXTS = ["h1_seq", "h1_pipe", "h1_2nd", "h2", "h2up", "h2full", "ws/h1", "ws/h2", "wsd/h1", "wsd/h2"]
H2_FAMILY = ("h2", "h2up", "h2full", "ws/h2", "wsd/h2")


def base_of(ctx: str) -> list:
    return WSD_BASE if ctx.startswith("wsd") else WS_BASE if ctx.startswith("ws/") else HTTP_BASE


def failing(base: list, k: int, kind: str, framing: str) -> list:
    prog = []
    for op in base[:k]:
        if op == ("send", "START"):
            hdrs = [(b"content-length", b"4")] if framing == "cl" else []
            op = ("send", {"type": "http.response.start", "status": 200, "headers": hdrs})
        elif op == ("send", "DENY_START"):
            hdrs = [(b"content-length", b"4")] if framing == "cl" else []
            if kind in REFUSED:  # accepted here (the head travels with the first body message), refused there
                hdrs = list(REFUSED[kind]["headers"])
            op = ("send", {"type": "websocket.http.response.start", "status": 403, "headers": hdrs})
        prog.append(op)
    if k < len(base):
        if kind == "badstart":
            # the failure *is* the response start: an invalid header makes send() raise into an application
            # that does not catch it
            prog.append(("send_strict", BAD_START))
        elif kind in REFUSED and base is WSD_BASE:
            prog.append(("send_strict", base[k][1]))
        elif kind in REFUSED:
            prog.append(("send_strict", {"type": "http.response.start", **REFUSED[kind]}))
        else:
            prog.append((kind,))
    return prog


def _wanted(engine: str, ctx: str, framing: str, k: int, kind: str, nbase: int) -> bool:
    if kind == "cancel" and engine == "trio":
        return False  # raising trio.Cancelled by hand is not something an application can do
    if k == nbase and kind != "raise":
        return False
    if kind in REFUSED:
        # the message that is refused is the response start (k == 2; for a denial response the first body message,
        # which carries the head: k == 2 as well); the framing dimension does not apply
        if k != 2 or framing == "chunked":
            return False
        if kind == "ref_h2te":
            return ctx == "h2"
        if kind == "ref_name":
            return ctx in ("h1_seq", "h2")
        return ctx in ("h1_seq", "h1_pipe", "h1_2nd") or (kind == "ref_te" and ctx == "wsd/h1")
    if kind == "badstart":
        return k == 2 and ctx in ("h1_seq", "h1_pipe", "h1_2nd", "h2")
    if ctx == "h1_2nd":  # the history dimension only: crash before reading / mid-body
        return kind in ("raise", "return") and k in (0, 3)
    if ctx.startswith("wsd"):
        return kind in ("raise", "return")
    if ctx == "h2up" and (kind != "raise" or k not in (0, 1) or framing != "cl"):
        return False
    if ctx == "h2full" and (kind not in ("raise", "return") or k not in (0, 1, 3) or framing != "cl"):
        return False
    if kind == "raise_group" and k not in (0, 2, 3):
        return False
    return True


def scenarios(tier: str) -> List[Any]:
    out = []
    for engine in ("asyncio", "trio"):
        for ctx in CONTEXTS:
            base = base_of(ctx)
            for framing in (("cl", "chunked") if not ctx.startswith("ws/") else ("-",)):
                for k in range(len(base) + 1):
                    for kind in KINDS:
                        if not _wanted(engine, ctx, framing, k, kind, len(base)):
                            continue
                        fr = "-" if kind in REFUSED else framing
                        out.append((engine, ctx, fr, k, kind))
                        if engine == "trio" and ctx != "h2full":
                            # trio's own scheduling freedom (batch order / wake order), environment at quiescence
                            out.append((engine, ctx, fr, k, kind, "rev"))
                        if kind == "raise" and framing in ("cl", "-") and ctx in ("h1_seq", "h2", "ws/h1", "ws/h2", "wsd/h1"):
                            # the shipped StatsdLogger (config.statsd_host): logging the failure awaits a datagram
                            # (asyncio: opening the endpoint yields once per worker; trio: every datagram is a
                            # checkpoint) before the 500 / the reset goes out, and the record itself comes from the
                            # real Logger.exception through a logging.Logger (mc.core.real_logger_class)
                            out.append((engine, ctx, fr, k, kind, "statsd"))
    return out


def bounds(tier: str, params: Any) -> dict:
    if params[5:] == ("rev",):
        return {"M": 0, "S": 1, "R": 1} if tier == "quick" else {"M": 0, "S": 2, "R": 2}
    if params[1] == "h2full":  # 20 client events: only the placement of the gate release / sibling matters
        return {"M": 0, "S": 1, "R": 0} if tier == "quick" else {"M": 1, "S": 2, "R": 1 if params[0] == "trio" else 0}
    if tier == "quick":
        return {"M": 1, "S": 2, "R": 0}
    return {"M": 2, "S": 3, "R": 1 if params[0] == "trio" else 0}


def _later(w: Any, ev: tuple) -> bool:
    """Guard of the 'later connection' next to a multiplexed one: the failing application instance is over and the
    client / gate sources have nothing left that could fire now."""
    if not any(i.scope.get("path") == "/a" and i.outcome != "running" for i in w.instances):
        return False
    d = w.driver
    return not any(name != "other" and d.pos[i] < len(evs) and w.enabled(evs[d.pos[i]])
                   for i, (name, evs) in enumerate(d.sources))


def build(params: Any) -> tuple:
    engine, ctx, framing, k, kind = params[:5]
    other = [("connect", 1, {"carrier": "h1", "methods": [b"GET"]}), ("data", 1, h1_request(b"GET", b"/c"))]
    if ctx in H2_FAMILY:
        # next to one HTTP/1 connection (everything sequential) the other connection may come and go at any moment;
        # next to a multiplexed one (sibling stream, gate, more client frames) it is a *later* connection: placing
        # its two events freely among those multiplied the executions by 30 for no new observation
        other = [("later",)] + other
    prog = failing(base_of(ctx), k, kind, framing)
    if ctx.startswith("h1"):
        a = h1_request(b"POST", b"/a", body=b"xy")
        b = h1_request(b"GET", b"/b")
        if ctx == "h1_2nd":
            client = [("data", 0, b), ("data", 0, a[:30]), ("data", 0, a[30:])]
            conn = {"carrier": "h1", "methods": [b"GET", b"POST"]}
        else:
            client = [("data", 0, a[:30]), ("data", 0, a[30:] + (b if ctx == "h1_pipe" else b""))]
            if ctx == "h1_seq":
                client.append(("data", 0, b))
            conn = {"carrier": "h1", "methods": [b"POST", b"GET"]}
        apps = {"http:/a": prog, "http:/b": HEALTHY_NOGATE, "http:/c": HEALTHY_NOGATE}
        app_src: list = []
    elif ctx == "h2":
        client = [("cmd", 0, "preface"), ("cmd", 0, "headers", 1, h2_request_headers(b"POST", b"/a"), False),
                  ("cmd", 0, "headers", 3, h2_request_headers(b"GET", b"/b"), True),
                  ("cmd", 0, "datan", 1, b"xy", True),
                  # ... and the client goes on living: a connection-level WINDOW_UPDATE and a SETTINGS change of the
                  # initial window walk over whatever bookkeeping the failed stream left behind
                  ("cmd", 0, "winup", 0, 1000), ("cmd", 0, "settings", {4: 70000})]
        conn = {"carrier": "h2", "tls": True, "alpn": "h2"}
        apps = {"http:/a": prog, "http:/b": HEALTHY, "http:/c": HEALTHY_NOGATE}
        app_src = [("release", "gb")]
    elif ctx == "h2up":
        # stream 1's application fails without reading its body; the client goes on uploading 80 kB to it (more than
        # the connection window), then uploads 20 kB on stream 3 whose application is healthy
        client = [("cmd", 0, "preface"), ("cmd", 0, "headers", 1, h2_request_headers(b"POST", b"/a"), False)]
        client += [("cmd", 0, "datan", 1, b"u" * 16000, False) for _ in range(5)]
        client += [("cmd", 0, "headers", 3, h2_request_headers(b"POST", b"/b"), False),
                   ("cmd", 0, "datan", 3, b"v" * 10000, False), ("cmd", 0, "datan", 3, b"v" * 10000, True)]
        conn = {"carrier": "h2", "tls": True, "alpn": "h2"}
        apps = {"http:/a": prog, "http:/b": HEALTHY_NOGATE, "http:/c": HEALTHY_NOGATE}
        app_src = []
    elif ctx == "h2full":
        client = [("cmd", 0, "preface"), ("cmd", 0, "headers", 1, h2_request_headers(b"POST", b"/a"), False)]
        client += [("cmd", 0, "datan", 1, b"u%d" % i, False) for i in range(14)]
        client += [("cmd", 0, "headers", 3, h2_request_headers(b"POST", b"/b"), False),
                   ("cmd", 0, "datan", 3, b"v" * 100, False), ("cmd", 0, "datan", 3, b"v" * 100, True)]
        conn = {"carrier": "h2", "tls": True, "alpn": "h2"}
        apps = {"http:/a": [("gate", "ga")] + prog, "http:/b": HEALTHY_NOGATE, "http:/c": HEALTHY_NOGATE}
        app_src = [("release", "ga")]
    elif ctx in ("ws/h1", "wsd/h1"):
        client = [("data", 0, ws_h1_handshake(b"/a"))]
        if ctx == "ws/h1":
            client += [("wait_status", 0), ("data", 0, ws_frame(OP_TEXT, b"yo"))]
        conn = {"carrier": "ws/h1"}
        apps = {"websocket": prog, "http:/c": HEALTHY_NOGATE}
        app_src = []
    else:
        client = [("cmd", 0, "preface"), ("cmd", 0, "ws_open", 1), ("cmd", 0, "headers", 1, ws_h2_headers(b"/a"), False),
                  ("cmd", 0, "headers", 3, h2_request_headers(b"GET", b"/b"), True)]
        if ctx == "ws/h2":
            client += [("wait_status", 0, 1), ("cmd", 0, "ws_data", 1, ws_frame(OP_TEXT, b"yo"))]
        conn = {"carrier": "ws/h2", "tls": True, "alpn": "h2"}
        apps = {"websocket": prog, "http:/b": HEALTHY, "http:/c": HEALTHY_NOGATE}
        app_src = [("release", "gb")]
    # ('wait_status', ...) is a guard: a conforming client only sends frames after it has seen the handshake answer
    # (and none at all once the handshake was denied)
    sources = [("client", client), ("app", app_src), ("other", other)]
    sc = {"level": "conn", "conns": {0: conn}, "client_factory": make_client, "apps": apps,
          "config": {"keep_alive_timeout": 5}, "sources": sources, "trio_rev": True, "guards": {"later": _later}}
    if params[5:] == ("statsd",):
        sc["logger"] = "statsd"
    return engine, sc


_START_TYPES = ("http.response.start", "websocket.accept", "websocket.http.response.start")
_BODY_TYPES = ("http.response.body", "websocket.http.response.body")


def oracle(w: Any, params: Any) -> List[dict]:
    engine, ctx, framing, k, kind = params[:5]
    out: List[dict] = []
    rec = w.conns[0]
    cl = rec.client
    tag = f"{ctx}:{framing}:k{k}:{kind}"
    is_ws = ctx.startswith("ws/")  # an accepted WebSocket session; a denied one (wsd/*) is an HTTP response
    is_wsd = ctx.startswith("wsd")
    base = base_of(ctx)
    idx = 1 if ctx == "h1_2nd" else 0  # position of the failing exchange on its HTTP/1 connection
    inst_a = next((i for i in w.instances if i.scope.get("path") == "/a"), None)
    if inst_a is None:
        return internal_errors(w)
    crashed = (inst_a.outcome in ("raised:AppCrash", "returned", "cancelled") or (inst_a.outcome or "").startswith("raised:")) and k < len(base)
    # what the app managed to send before failing
    sent = [s for s in inst_a.sends if s[3] == "ok"]
    started = any(s[2]["type"] in _START_TYPES for s in sent)
    finished = any((s[2]["type"] in _BODY_TYPES and not s[2].get("more_body", False)) or
                   s[2]["type"] == "websocket.close" for s in sent)
    lost = rec.client_eof or rec.client_reset or rec.lost_at is not None
    # --- the failing exchange as the client sees it
    if not is_ws:
        if cl.h2 is not None:
            st = cl.h2.streams.get(1)
            view = None if st is None else {"status": st["status"], "complete": bool(st["ended"]), "reset": st["reset"],
                                            "body": st["body"]}
        else:
            r = cl.h1.responses[idx] if len(cl.h1.responses) > idx else None
            view = None if r is None else {"status": r["status"], "complete": r["complete"], "reset": None, "body": r["body"]}
        if crashed and inst_a.outcome != "running" and not lost:
            if not started:
                if view is None or view["status"] != 500 or not view["complete"]:
                    out.append(V("no-500", tag, f"client saw {view}"))
                elif cl.h2 is None and r["must_close"] and len(cl.h1.responses) > idx + 1:
                    # exactly one: the 500 announced the end of the connection, nothing may follow it
                    out.append(V("no-500", f"{tag}:more-than-one", f"responses after a closing 500: "
                                                                  f"{[(x['status'], x['complete']) for x in cl.h1.responses]}"))
            elif not finished:
                # with content-length framing a response whose declared bytes were all written is complete on
                # the wire whatever happens next: nothing can be demanded then
                body_sent = sum(len(s[2].get("body", b"")) for s in sent if s[2]["type"] in _BODY_TYPES)
                all_declared = framing == "cl" and body_sent >= 4
                if all_declared:
                    out.extend(internal_errors(w))
                    return out
                # a denial response's head travels with its first body message: between the two the application has
                # started a response of which nothing is owed on the wire yet, a (complete) 500 is as truthful as a
                # truncated 403
                unsent_500 = is_wsd and body_sent == 0 and view is not None and view["status"] == 500
                if view is not None and view["complete"] and view["reset"] is None and not unsent_500:
                    out.append(V("falsely-complete", tag, f"client parsed a complete response: {view}"))
                if cl.h2 is not None:
                    if view is None or (view["reset"] is None and not view["complete"]) and rec.closed_at is None:
                        out.append(V("not-terminated", f"{ctx}:{framing}:{kind}:h2-stream-left-open",
                                     f"{tag}: stream 1 neither reset nor ended: {view}"))
                else:
                    if rec.closed_at is None:
                        out.append(V("not-terminated", f"{ctx}:{framing}:{kind}:h1-still-open",
                                     f"{tag}: connection still open after the aborted response"))
                    elif rec.closed_at > (inst_a.t_end or 0.0):
                        out.append(V("not-terminated", f"{ctx}:{framing}:{kind}:h1-closed-late",
                                     f"{tag}: closed at {rec.closed_at}, app ended {inst_a.t_end}"))
    else:
        if crashed and inst_a.outcome != "running" and not lost:
            wsp = cl.ws if cl.ws is not None else (cl.h2.ws.get(1) if cl.h2 is not None else None)
            if not started:
                if cl.h2 is not None:
                    st = cl.h2.streams.get(1)
                    status = None if st is None else st["status"]
                else:
                    status = cl.h1.responses[0]["status"] if cl.h1.responses else None
                if status != 500:
                    out.append(V("no-500", tag, f"handshake answered with {status}"))
            elif not finished:
                code = None if wsp is None or wsp.close is None else wsp.close[0]
                dropped = rec.closed_at is not None or (cl.h2 is not None and cl.h2.streams.get(1, {}).get("reset") is not None) \
                    or (cl.h2 is not None and cl.h2.streams.get(1, {}).get("ended"))
                if code == 1000:
                    out.append(V("falsely-complete", tag, "client saw a normal 1000 close"))
                if code is None and not dropped:
                    out.append(V("not-terminated", f"{ctx}:{kind}:ws-left-open", f"{tag}: no close frame, stream/connection still open"))
    # --- logging
    if (inst_a.outcome or "").startswith("raised:") and k < len(base):
        n = sum(1 for l in w.logrec if l[1] == "exception" and l[2] == "Error in ASGI Framework")
        if n != 1:
            out.append(V("not-logged", f"{ctx}:{n}", f"{tag}: {n} exception records: {w.logrec}"))
    # --- containment
    fired = [e for _, e in w.driver.fired]
    inst_b = next((i for i in w.instances if i.scope.get("path") == "/b"), None)
    if ctx in ("h2up", "h2full") and not lost and rec.closed_at is None and inst_a.outcome != "running":
        left = w.driver.sources[0][1][w.driver.pos[0]:]
        st3 = cl.h2.streams.get(3)
        if left:
            out.append(V("sibling-broken", f"{ctx}:client-blocked", f"{tag}: the client cannot send {len(left)} more frame(s) "
                                                                      f"(no flow-control credit returned): next {left[0][:4]}"))
        elif st3 is None or not st3["ended"] or st3["body"] != b"ok":
            out.append(V("sibling-broken", f"{ctx}:stream3", f"{tag}: sibling upload not answered: {st3}"))
    if ctx in ("h2", "ws/h2", "wsd/h2") and inst_b is not None and not lost:
        released = ("release", "gb") in fired
        st3 = cl.h2.streams.get(3)
        if released and rec.closed_at is None and (st3 is None or not st3["ended"] or st3["body"] != b"ok" or st3["status"] != 200):
            out.append(V("sibling-broken", f"{ctx}:stream3", f"{tag}: sibling stream {st3}"))
        if rec.closed_at is not None and released and (st3 is None or not st3["ended"]):
            out.append(V("sibling-broken", f"{ctx}:connection-closed", f"{tag}: connection closed at {rec.closed_at}, sibling {st3}"))
    if ctx == "h1_seq" and not lost:
        b_sent = sum(1 for e in fired if e[0] == "data" and e[1] == 0) == 3
        a_ok = k == len(base)
        if b_sent and a_ok:
            rs = cl.h1.responses
            if len(rs) < 2 or not rs[1]["complete"] or rs[1]["body"] != b"ok":
                out.append(V("sibling-broken", f"{ctx}:next-request", f"{tag}: responses {[(r['status'], r['complete']) for r in rs]}"))
    if ("data", 1, h1_request(b"GET", b"/c")) in fired:
        r1 = w.conns[1].client.h1.responses
        if not (r1 and r1[0]["complete"] and r1[0]["body"] == b"ok"):
            out.append(V("sibling-broken", f"{ctx}:next-connection", f"{tag}: {r1}"))
    if cl.error is not None and not crashed:
        out.append(V("client-parse-error", ctx, f"{tag}: {cl.error}"))
    out.extend(internal_errors(w))
    return out


execute = std_execute(build, oracle)


# wave h documentation (what was added to the enumeration; see DESIGN.md 11.0)
_WAVE_H = "+ every raise point of h1_seq/h2/ws/h1/ws/h2/wsd/h1 under hypercorn's own StatsdLogger (logging the failure awaits datagrams); the h2 context continues with a connection-level WINDOW_UPDATE and a SETTINGS(initial window) change after the failure"
RULE = RULE + " " + _WAVE_H
BOUNDS_DOC = {k: v + " " + _WAVE_H for k, v in BOUNDS_DOC.items()}
