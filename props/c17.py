"""C17 - the WSGI adapter conforms to PEP 3333.

What is executed: the REAL `hypercorn.app_wrappers.WSGIWrapper` (and `hypercorn.middleware.wsgi.
AsyncioWSGIMiddleware` / `TrioWSGIMiddleware`), with the WSGI callable really running in a worker thread.

Seams (`seam` in the case parameters)
  tg:asyncio / tg:trio   the wrapper is spawned through hypercorn's own `TaskGroup.spawn_app` (exactly what
                         HTTPStream does) on a real asyncio loop / real `trio.run`; the harness plays HTTPStream:
                         it `put`s ASGI request messages and collects what the wrapper `send`s
  mw:asyncio / mw:trio   the middleware classes called as plain ASGI applications on the real loops
  e2e:h1 / e2e:h2        end to end through the virtual-time engine (`TCPServer.run()` on `mc.aio.VLoop`, real h11/h2,
                         in-memory transport, independent client parser) with the lock-step worker thread of
                         DESIGN 2.7 (`mc/x_c17_lockstep.py`); asyncio only (trio threads cannot run under the
                         instrumented trio clock)
  tg:vloop / mw:vloop    (flow group only) hypercorn's asyncio `TaskGroup.spawn_app` / `AsyncioWSGIMiddleware` on a bare
                         `VLoop` with the lock-step worker thread: exactly one of {loop, WSGI thread} runs at any time,
                         so what the WSGI thread observes of the sends is reproducible even when the bridge is broken

What is enumerated (LEVEL exploration: exhaustive products of finite alphabets, no schedule axis)
  env    request targets (escapes, %2F, %25, non-ASCII UTF-8, doubled slash, escaped prefix) x root_path
         ("", matching, non-ASCII, non-matching, prefix that is not on a segment boundary) x query strings x request
         header sets (none / content headers / repeated / empty+latin-1+comma values) x HTTP version x scheme x
         client/server addresses x method x scope variant (all optional ASGI keys present / absent)
  app    WSGI application shapes: list, generator with eager start_response, generator with LAZY start_response,
         iterator object with close() (eager and lazy), start_response twice with exc_info - in the callable, or while
         the FIRST chunk is produced (closeable iterator / generator with eager start / generator whose two
         start_response calls are both lazy) -, raising before / after start_response, raising mid-iteration
         (generator / closeable iterator; with the chunking `none` that is on the first next(), after an eager
         start_response), raising after a lazy start_response before the first chunk, empty chunks then raising,
         raising on the first next(), never calling start_response (list / closeable iterator) x status x response
         header sets x chunkings (none, empty chunks, 70 kB)
  flow   the ASGI send the WSGI thread is bridged to does not complete at once.  Direct seams (4 real loops + 2
         lock-step): every send parks on a gate (real loops: 3 scheduler passes; lock-step: released one at a time,
         oldest first, only when nothing else can run) x {all succeed, send number 0..3 raises} x 12 shapes
         (instrumented iterables, >= 2 chunks, empty chunks, failing shapes) x 2 heads x 4 chunkings.  End to end:
         the peer is not reading when the request arrives and every chunk of the 70 kB chunkings is above the
         transport's high-water mark / the HTTP/2 window, so `drain()` really blocks x peer behaviour {reads one
         buffer-full at a time, starts reading for good, resets at once, reads once then resets}.  A tap on the
         send counts sends begun / completed / failed and the body bytes of completed sends; the application
         snapshots those counters every time it runs (next / stop / raise / close)
  body   wsgi_max_body_size L x body sizes {0, L-1, L, L+1, L+3} x delivery (1 message, 3 messages, stream style,
         limit crossed early with more messages pending, no `body` key) x shapes
  ws     WebSocket scopes
  loops  (middleware seams) HISTORIES of one middleware object over event loops: the middleware is constructed outside any
         running loop - with an idle loop current, as at import time, or with no current loop at all -, inside an earlier
         loop that has been closed before the request is served, or serves one request under a first loop and, that
         loop closed, another under a second loop (asyncio); constructed outside trio.run / serving under two
         successive trio.run (trio); x every application shape and chunking x 2 requests; each served request has
         its own recorder behind the one middleware object and is judged by the same oracle
  e2e    sub-alphabets of the above as real HTTP/1.1 and HTTP/2 byte streams

Oracle clauses (expected values from mc/x_c17_ref.py: PEP 3333 / RFC 3875 / ASGI spec, nothing from hypercorn)
  invocation-count, on-loop-thread           callable invoked exactly once, on a thread that is not the loop thread
  environ-*                                  method, SCRIPT_NAME/PATH_INFO split, query, protocol, scheme, headers,
                                             addresses, wsgi.* keys, native-string types, wsgi.input == request body
  response-*                                 status / headers / concatenated body seen by the client equal what the
                                             shape produced (lazy or eager; a head replaced with exc_info before the
                                             first chunk is the one that counts); for failing shapes only a prefix, or 5xx
  response-head-before-data                  a shape that calls start_response and fails before its iterable yielded
                                             anything: the status it set must not reach the client (PEP 3333: headers
                                             go out with the first body data or at exhaustion) - 5xx or nothing
  bridge-order                               (flow) each time the application thread runs, no send is in flight and the
                                             completed sends carried exactly the chunks yielded so far (so chunk k+1 is
                                             produced after send k completed, close() after the last one); after a send
                                             raised the only thing the application still sees is close()
  close-count, close-order                   close() of the returned iterable exactly once, after the last next()
  body-limit                                 > L -> 400, complete, callable not invoked; <= L -> invoked
  websocket-refusal                          never accepted, callable not invoked
  harness-problem                            watchdog / engine anomalies (never a property verdict)
"""
from __future__ import annotations

import asyncio
import os
import sys
import threading
import time
from typing import Any, Callable, Dict, List, Optional, Tuple

from mc import bootstrap  # noqa: F401
from mc import x_c17_ref as ref
from mc.core import digest
from mc.explore import ExecResult, V, _account, _blank_result

ID = "C17"
LEVEL = "exploration"
TECHNIQUE = ("bounded exhaustive enumeration (cartesian products of finite request / application-shape / send-behaviour / "
             "peer-behaviour alphabets) of executions of the real WSGIWrapper and WSGI middlewares with a real worker "
             "thread, on real asyncio and trio loops, on a bare virtual loop and end-to-end on the virtual-time engine "
             "with a lock-step executor (gated / failing ASGI sends, paused / slow / resetting peers so that drain() "
             "blocks); reference PEP 3333 environ builder, response model and thread-bridge ordering model as oracle")
RULE = ("case = seam x request spec x application shape x body limit x body delivery [x send behaviour | peer behaviour | "
        "loop history of the middleware object]; "
        "one execution per case; non-trivial = the WSGI callable was invoked or a refusal (400 / 404 / websocket close) "
        "was decided; distinct by digest of (environ snapshot, application event log, messages / parsed response seen "
        "by the client, logged errors, and - lock-step seams - the send counters the application thread saw)")
ASSUMPTIONS = [
    "no schedule axis: the worker thread runs concurrently with an otherwise idle loop (direct seams) or in "
    "lock-step with the virtual loop (e2e); C17 quantifies over inputs and programs only",
    "request targets are ASCII with valid UTF-8 percent escapes (the ASGI `path` is lossy for anything else)",
    "repeated request headers are compared after splitting on ',' and trimming blanks",
    "when the request path equals root_path both PATH_INFO '' and '/' are accepted",
    "for a failing application only 'what reached the client is a prefix of what the application produced, or a "
    "5xx' is demanded, not how the failure is signalled",
    "the legacy write() callable returned by start_response and start_response re-raising exc_info after output "
    "has begun are not covered",
    "'headers must not be sent until there is actual body data' is demanded for 'no chunk yielded yet'; whether an "
    "EMPTY first chunk may already commit the head (wsgiref does, the PEP text says non-empty) is not judged "
    "(C17_STRICT_NONEMPTY=1 switches the literal reading on for investigation)",
    "flow group: a send 'takes over' its message when it begins and completes later (a slow consumer that keeps "
    "arrival order); gates open oldest first; on the real-loop seams the send counters are only reproducible while "
    "the bridge is synchronous, so they are judged but kept out of the outcome digest",
    "flow group end to end: the slow peer reads a whole transport buffer at a time; one request per connection",
    "loops group: loops follow one another (never two running at once); a loop that served is shut down (default "
    "executor joined) and closed before the next one starts; the idle 'import time' loop is never run while a request is "
    "served (afterwards the harness runs it once to release any thread still bridged to it, then closes it)",
]
BOUNDS_DOC = {
    "quick": "env: two sub-products (12 targets x 5 roots x 3 queries x 4 header sets x 2 scope variants x GET/POST; "
             "3 target/root pairs x header sets x 3 versions x 2 schemes x 3 address kinds x 3 methods x 2 variants); "
             "app: full product of 19 shapes x 3 statuses x 4 header sets x 6 chunkings (854 programs x 2 requests); "
             "body: L in {0,4} x 5 sizes x up to 6 deliveries x 3 shapes; all on the 4 direct seams; flow: 12 shapes x "
             "2 heads x 4 chunkings x 5 send behaviours (all gated; send 0..3 raises) = 450 cases on each of the 4 "
             "real-loop seams and the 2 lock-step seams; loops: 19 shapes x 6 chunkings x 2 requests x 4 loop histories "
             "(mw:asyncio) / 2 (mw:trio); e2e sub-alphabets on h1 and h2, e2e flow: 12 shapes x 3 "
             "chunkings (two of them 70 kB per chunk) x 4 peer behaviours = 136 cases per carrier",
    "thorough": "env: the full product of every request axis (77 760 requests) on each of the 4 direct seams; "
                "app/body as quick plus L in {1,65536}; flow, loops and e2e as quick",
}
BUDGET = {"quick": 300, "thorough": 1100}

WATCHDOG_S = 60.0
# opt-in (not part of the check): read PEP 3333's "actual body data" literally - see x_c17_ref.Expected.no_head
ref.STRICT_NONEMPTY[0] = bool(os.environ.get("C17_STRICT_NONEMPTY"))
DIRECT_SEAMS = ("tg:asyncio", "tg:trio", "mw:asyncio", "mw:trio")

# ---------------------------------------------------------------------------------------------
# alphabets

PATHS = [b"/", b"/a/b", b"/app", b"/app/", b"/app/x%20y", b"/app/caf%C3%A9", b"/caf%C3%A9/x", b"/application",
         b"/app/a%2Fb", b"/app/100%25", b"/app//x", b"/%61pp/x"]
ROOTS = ["", "/app", "/café", "/other", "/a"]
QUERIES = [b"", b"x=1&y=%C3%A9+z", b"a=b=c&&d"]
HDRSETS: Dict[str, List[Tuple[bytes, bytes]]] = {
    "none": [],
    "content": [(b"Content-Type", b"text/plain; charset=utf-8"), (b"Accept", b"*/*")],
    "repeated": [(b"X-A", b"1"), (b"Accept", b"text/html"), (b"X-A", b"2"), (b"accept", b"text/plain"), (b"X-A", b"3")],
    "odd": [(b"X-Forwarded-For", b"1.2.3.4"), (b"X-Empty", b""), (b"X-Latin", b"caf\xe9"),
            (b"Accept-Language", b"en, fr;q=0.5"), (b"X-MiXeD-Case-9", b"V")],
}
VERSIONS = ["1.1", "1.0", "2"]
SCHEMES = ["http", "https"]
ADDRS: Dict[str, Tuple[Any, Any]] = {
    "ip4": (("10.1.2.3", 5555), ("192.0.2.7", 8443)),
    "none": (None, None),
    "unix": (None, ("/run/app.sock", None)),
}
METHODS = ["GET", "POST", "DELETE"]
VARIANTS = ["full", "minimal"]

KINDS = list(ref.OK_KINDS) + list(ref.ERROR_KINDS)
STATUSES = ["200 OK", "404 Not Found", "201 Created"]
RHDRSETS: Dict[str, List[Tuple[str, str]]] = {
    "none": [],
    "ct": [("Content-Type", "text/plain; charset=utf-8")],
    "cookies": [("Set-Cookie", "a=1"), ("X-Mixed-Case", "V"), ("Set-Cookie", "b=2")],
    "latin": [("X-Latin", "café"), ("Cache-Control", "no-cache, no-store")],
}
CHUNKSETS: Dict[str, Tuple[bytes, ...]] = {
    "none": (),
    "empty": (b"",),
    "one": (b"a",),
    "mixed": (b"ab", b"", b"cd"),
    "empty_first": (b"", b"x"),
    "big": (b"z" * 70000, b"tail"),
}
# chunk sets used by the flow groups only (every chunk of BIG2 alone is above the transport's 64 KiB high-water mark
# and above the initial HTTP/2 window)
FLOW_CHUNKSETS: Dict[str, Tuple[bytes, ...]] = {
    "three": (b"1", b"22", b"333"),
    "big2": (b"z" * 70000, b"y" * 70000, b"tail"),
}
ALL_CHUNKSETS: Dict[str, Tuple[bytes, ...]] = {**CHUNKSETS, **FLOW_CHUNKSETS}
# axes a shape does not look at are pinned so that no case is counted twice
KIND_IGNORES_CHUNKS = ("twice_excinfo", "raise_before_sr", "raise_after_sr", "raise_lazy_first", "raise_lazy_after_sr",
                       "raise_after_empties_gen")
KIND_IGNORES_STATUS = ("raise_before_sr", "raise_lazy_first", "no_sr_list", "no_sr_iter_close")

BASE_APP = ("list", "200 OK", "ct", "one")
E2E_EXTRA_HEADERS = (b"date", b"server", b"transfer-encoding", b"content-length", b"connection", b"alt-svc")


def pattern(n: int) -> bytes:
    return bytes(33 + (i * 7) % 90 for i in range(n))


def http_req(method: str = "GET", raw_path: bytes = b"/", query: bytes = b"", root: str = "", hdrs: str = "content",
             version: str = "1.1", scheme: str = "http", addr: str = "ip4", body_n: int = 0,
             variant: str = "full") -> tuple:
    return ("http", method, raw_path, query, root, hdrs, version, scheme, addr, body_n, variant)


def app_specs() -> List[tuple]:
    out = []
    seen = set()
    for kind in KINDS:
        for status in STATUSES:
            for rh in RHDRSETS:
                for ch in CHUNKSETS:
                    spec = (kind,
                            "200 OK" if kind in KIND_IGNORES_STATUS else status,
                            "ct" if kind in KIND_IGNORES_STATUS else rh,
                            "one" if kind in KIND_IGNORES_CHUNKS else ch)
                    if spec not in seen:
                        seen.add(spec)
                        out.append(spec)
    return out


def direct_cases(tier: str, group: str, seam: str) -> List[tuple]:
    cases: List[tuple] = []
    if group == "env":
        if tier == "thorough":
            for p in PATHS:
                for r in ROOTS:
                    for q in QUERIES:
                        for h in HDRSETS:
                            for ver in VERSIONS:
                                for sch in SCHEMES:
                                    for ad in ADDRS:
                                        for m in METHODS:
                                            for var in VARIANTS:
                                                n = 5 if m == "POST" else 0
                                                cases.append((seam, http_req(m, p, q, r, h, ver, sch, ad, n, var),
                                                              BASE_APP, 64, "s"))
        else:
            for p in PATHS:
                for r in ROOTS:
                    for q in QUERIES:
                        for h in HDRSETS:
                            for var in VARIANTS:
                                for m, n in (("GET", 0), ("POST", 5)):
                                    cases.append((seam, http_req(m, p, q, r, h, body_n=n, variant=var), BASE_APP, 64, "s"))
            for p, r in ((b"/app/caf%C3%A9", "/app"), (b"/a/b", ""), (b"/application", "/app")):
                for h in HDRSETS:
                    for ver in VERSIONS:
                        for sch in SCHEMES:
                            for ad in ADDRS:
                                for m in METHODS:
                                    for var in VARIANTS:
                                        n = 5 if m == "POST" else 0
                                        cases.append((seam, http_req(m, p, b"x=1", r, h, ver, sch, ad, n, var),
                                                      BASE_APP, 64, "s"))
    elif group == "app":
        reqs = [http_req("GET", b"/"), http_req("POST", b"/app/x", b"q=1", "/app", "repeated", body_n=3)]
        for rq in reqs:
            for spec in app_specs():
                cases.append((seam, rq, spec, 64, "1"))
    elif group == "body":
        limits = [0, 4] + ([1, 65536] if tier == "thorough" else [])
        for L in limits:
            for n in sorted({0, max(L - 1, 0), L, L + 1, L + 3}):
                splits = ["1", "nomore", "3", "s"] + (["early"] if n > L else []) + (["nokey"] if n == 0 else [])
                for split in splits:
                    for kind in ("list", "gen_lazy", "iter_close"):
                        cases.append((seam, http_req("POST", b"/upload", body_n=n), (kind, "200 OK", "ct", "mixed"), L, split))
    elif group == "flow":
        rq = http_req("GET", b"/")
        for kind in FLOW_KINDS:
            for status, rh in FLOW_HEADS:
                for ch in ("three", "mixed", "empty_first", "none"):
                    spec = (kind, status, rh, "one" if kind in KIND_IGNORES_CHUNKS else ch)
                    for mode in FLOW_MODES + (CANCEL_MODES if seam == "mw:trio" else ()):
                        cases.append((seam, rq, spec, 64, "1", mode))
    elif group == "loops":
        reqs = [http_req("GET", b"/"), http_req("POST", b"/app/x", b"q=1", "/app", "repeated", body_n=3)]
        for hist in LOOP_HISTORIES[seam]:
            for rq in reqs:
                for spec in app_specs():
                    if spec[1] == STATUSES[0] and spec[2] == "ct":
                        cases.append((seam, rq, spec, 64, "1", "L:" + hist))
    elif group == "ws":
        for p in (b"/", b"/app/ws"):
            for r in ("", "/app"):
                for ver in ("1.1", "2"):
                    rq = ("websocket", "GET", p, b"", r, "none", ver, "ws", "ip4", 0, "full")
                    cases.append((seam, rq, BASE_APP, 64, "1"))
    else:
        raise ValueError(group)
    return _dedupe(cases)


def e2e_cases(tier: str, group: str, seam: str) -> List[tuple]:
    cases: List[tuple] = []
    h2 = seam == "e2e:h2"
    ver, sch = ("2", "https") if h2 else ("1.1", "http")
    full = True  # the end-to-end sub-alphabets are small: both tiers run all of them
    if group == "env":
        paths = PATHS if full else [b"/", b"/app", b"/app/caf%C3%A9", b"/application", b"/app/a%2Fb", b"/%61pp/x"]
        roots = ROOTS if full else ["", "/app", "/other"]
        hdrs = list(HDRSETS) if full else ["content", "repeated", "odd"]
        for p in paths:
            for r in roots:
                for h in hdrs:
                    for m, n, split in (("GET", 0, "1"), ("POST", 5, "2")):
                        cases.append((seam, http_req(m, p, b"x=1&y=%C3%A9", r, h, ver, sch, "e2e", n), BASE_APP, 64, split))
        if not h2:
            for p in paths[:3]:
                cases.append((seam, http_req("GET", p, b"", "", "content", "1.0", sch, "e2e", 0), BASE_APP, 64, "1"))
    elif group == "app":
        rq = http_req("POST", b"/app/x", b"q=1", "/app", "repeated", ver, sch, "e2e", 3)
        statuses = STATUSES if full else STATUSES[:2]
        rhs = list(RHDRSETS) if full else ["ct", "cookies"]
        chs = list(CHUNKSETS) if full else ["none", "mixed", "empty_first", "big"]
        for spec in app_specs():
            if spec[1] in statuses and spec[2] in rhs and spec[3] in chs:
                cases.append((seam, rq, spec, 64, "1"))
    elif group == "flow":
        rq = http_req("GET", b"/app/x", b"q=1", "/app", "content", ver, sch, "e2e", 0)
        for kind in FLOW_KINDS:
            for ch in ("big2", "big", "mixed"):
                spec = (kind, "201 Created", "cookies", "one" if kind in KIND_IGNORES_CHUNKS else ch)
                for peer in E2E_PEERS:
                    cases.append((seam, rq, spec, 64, "1", peer))
    elif group == "body":
        for L in (0, 4):
            for n in sorted({0, max(L - 1, 0), L, L + 1, L + 3}):
                for split in ("1", "2"):
                    for kind in ("list", "iter_close_lazy") if full else ("list",):
                        cases.append((seam, http_req("POST", b"/upload", b"", "", "content", ver, sch, "e2e", n),
                                      (kind, "200 OK", "ct", "mixed"), L, split))
    return _dedupe(cases)


def _dedupe(cases: List[tuple]) -> List[tuple]:
    seen = set()
    out = []
    for c in cases:
        if c not in seen:
            seen.add(c)
            out.append(c)
    return out


_CASE_CACHE: Dict[tuple, List[tuple]] = {}


def cases_of(tier: str, group: str, seam: str) -> List[tuple]:
    key = (tier, group, seam)
    if key not in _CASE_CACHE:
        _CASE_CACHE[key] = (e2e_cases if seam.startswith("e2e") else direct_cases)(tier, group, seam)
    return _CASE_CACHE[key]


BATCH = 250
# flow groups: applications whose iterable is instrumented (plus the plain list), >= 2 chunks, every send gated
FLOW_KINDS = ("list", "gen_eager", "gen_lazy", "iter_close", "iter_close_lazy", "iterable_close", "excinfo_first_iter",
              "excinfo_first_gen", "excinfo_lazy_gen", "raise_mid_gen", "raise_mid_iter_close", "raise_after_empties_gen")
FLOW_HEADS = (("200 OK", "ct"), ("404 Not Found", "cookies"))
# gc<j> (trio middleware seam): the REQUEST IS CANCELLED while the application thread is parked in send number j (what a
# graceful_timeout expiring mid-response does): trio.Cancelled - a BaseException - is raised inside the thread; judged
# for close() only (exactly once, last): whatever ends the iteration, PEP 3333 wants the iterable closed
CANCEL_MODES = ("gc0", "gc1", "gc2")
FLOW_MODES = ("g", "gf0", "gf1", "gf2", "gf3")  # every send gated; gf<j>: send number j (0 = the first) raises
FLOW_SEAMS = DIRECT_SEAMS + ("tg:vloop", "mw:vloop")
# e2e flow group: what the peer does while the response is produced (it is not reading when the request arrives)
E2E_PEERS = ("slow", "stall", "reset", "slow-reset")
# loops group: where / under which loop the ONE middleware object is constructed and which loops it then serves under
LOOP_HISTORIES = {
    "mw:asyncio": ("outside", "outside-nocurrent", "earlier-closed", "two-loops"),
    "mw:trio": ("outside", "two-runs"),
}


def scenarios(tier: str) -> List[Any]:
    out = []
    for seam in DIRECT_SEAMS:
        for group in ("env", "app", "body", "ws"):
            n = len(cases_of(tier, group, seam))
            nb = max(1, (n + BATCH - 1) // BATCH)
            out.extend(("batch", group, seam, i, nb) for i in range(nb))
    for seam in FLOW_SEAMS:
        n = len(cases_of(tier, "flow", seam))
        nb = max(1, (n + BATCH - 1) // BATCH)
        out.extend(("batch", "flow", seam, i, nb) for i in range(nb))
    for seam in LOOP_HISTORIES:
        n = len(cases_of(tier, "loops", seam))
        nb = max(1, (n + BATCH - 1) // BATCH)
        out.extend(("batch", "loops", seam, i, nb) for i in range(nb))
    for seam in ("e2e:h1", "e2e:h2"):
        for group in ("env", "app", "body", "flow"):
            n = len(cases_of(tier, group, seam))
            nb = max(1, (n + 100 - 1) // 100)
            out.extend(("batch", group, seam, i, nb) for i in range(nb))
    return out


def bounds(tier: str, params: Any) -> dict:
    return {"M": 0, "S": 0, "R": 0}


# ---------------------------------------------------------------------------------------------
# request specification -> Req / ASGI messages / wire bytes


def req_of(seam: str, rq: tuple) -> ref.Req:
    kind, method, raw_path, query, root, hdrs, version, scheme, addr, body_n, variant = rq
    body = pattern(body_n)
    headers: List[Tuple[bytes, bytes]] = []
    e2e = seam.startswith("e2e")
    if e2e or hdrs != "none":
        headers.append((b"host" if seam == "e2e:h2" else b"Host", b"hypercorn"))
    headers += HDRSETS[hdrs]
    if body_n or method == "POST":
        headers.append((b"Content-Length", str(body_n).encode()))
    if seam == "e2e:h2":
        headers = [(n.lower(), v) for n, v in headers]
    if e2e:
        client, server = ("10.0.0.1", 40000), ("127.0.0.1", 8000)
    else:
        client, server = ADDRS[addr]
    return ref.Req(method, raw_path, query, root, tuple(headers), version, scheme, client, server, body)


def request_messages(body: bytes, split: str) -> List[dict]:
    if split == "nokey":
        return [{"type": "http.request"}]
    if split == "1":
        return [{"type": "http.request", "body": body, "more_body": False}]
    if split == "nomore":  # `more_body` is optional and defaults to False
        return [{"type": "http.request", "body": body}]
    if split == "s":
        return [{"type": "http.request", "body": body, "more_body": True},
                {"type": "http.request", "body": b"", "more_body": False}]
    if split == "3":
        a, b = len(body) // 3, 2 * len(body) // 3
        return [{"type": "http.request", "body": body[:a], "more_body": True},
                {"type": "http.request", "body": body[a:b], "more_body": True},
                {"type": "http.request", "body": body[b:], "more_body": False}]
    if split == "early":  # the first message alone is over the limit and more are announced
        return [{"type": "http.request", "body": body, "more_body": True},
                {"type": "http.request", "body": b"more", "more_body": True},
                {"type": "http.request", "body": b"", "more_body": False}]
    raise ValueError(split)


def ws_scope(req: ref.Req) -> dict:
    scope = ref.asgi_scope(req)
    scope.update({"type": "websocket", "scheme": "ws", "subprotocols": []})
    del scope["method"]
    return scope


# ---------------------------------------------------------------------------------------------
# the WSGI applications (one fresh callable + recorder per execution)


class AppError(Exception):
    pass


class Rec:
    def __init__(self) -> None:
        self.invocations = 0
        self.threads: List[int] = []
        self.snap: Any = None
        self.body_read: Any = None
        self.events: List[str] = []
        self.close_count = 0
        self.cleanup_count = 0
        self.flow: Optional["Flow"] = None  # flow groups: the tap on the ASGI send the application thread is bridged to
        self.marks: List[tuple] = []  # (event, begun, ended, failed, ended_body_len) at next / stop / raise / close


class Flow:
    """Counters of the ASGI `send` the WSGI thread is bridged to.  Written on the loop thread, read on the
    application thread (under the lock-step executor only one of the two runs at any time; on real loops the
    application thread is - if the bridge is synchronous - parked inside a send whenever the counters change)."""

    def __init__(self) -> None:
        self.begun = 0
        self.ended = 0
        self.failed = 0
        self.body_len = 0

    def snapshot(self) -> tuple:
        return (self.begun, self.ended, self.failed, self.body_len)

    def done(self, message: Any, error: Optional[BaseException]) -> None:
        self.ended += 1
        if error is not None:
            self.failed += 1
        elif isinstance(message, dict) and message.get("type") == "http.response.body":
            self.body_len += len(message.get("body", b""))


class SendFailed(Exception):
    """What the harness' ASGI send raises in the `gf<j>` flow modes."""


def make_app(spec: tuple, rec: Rec) -> Callable:
    kind, status, rh, ch = spec
    headers = list(RHDRSETS[rh])
    chunks = list(ALL_CHUNKSETS[ch])

    def note(ev: str) -> None:
        rec.events.append(ev)
        if rec.flow is not None:
            rec.marks.append((ev,) + rec.flow.snapshot())

    def replace_head(sr: Callable) -> None:
        try:
            raise ValueError("handled inside the application")
        except ValueError:
            start(sr, ref.EXCINFO_STATUS, list(ref.EXCINFO_HEADERS), sys.exc_info())

    def enter(environ: Any) -> None:
        rec.invocations += 1
        rec.threads.append(threading.get_ident())
        rec.events.append("call")
        if rec.invocations == 1:
            rec.snap = dict(environ) if isinstance(environ, dict) else environ
            try:
                rec.body_read = environ["wsgi.input"].read()
            except Exception as e:  # reported by the environ oracle
                rec.body_read = e

    def start(sr: Callable, *args: Any) -> Any:
        rec.events.append("sr")
        return sr(*args)

    class Iter:
        def __init__(self, sr: Optional[Callable] = None, raise_at: Optional[int] = None,
                     replace: Optional[Callable] = None) -> None:
            self.sr = sr
            self.raise_at = raise_at
            self.replace = replace
            self.i = 0

        def __iter__(self) -> "Iter":
            return self

        def __next__(self) -> bytes:
            if rec.close_count:
                rec.events.append("next-after-close")
            if self.sr is not None:
                sr, self.sr = self.sr, None
                start(sr, status, headers)
            if self.replace is not None:  # the first chunk cannot be produced: replace the (unsent) response
                sr, self.replace = self.replace, None
                replace_head(sr)
            if self.raise_at is not None and self.i == self.raise_at:
                note("raise")
                raise AppError("mid-iteration")
            if self.i >= len(self.chunks):
                note("stop")
                raise StopIteration
            self.i += 1
            note("next")
            return self.chunks[self.i - 1]

        def close(self) -> None:
            rec.close_count += 1
            note("close")

    Iter.chunks = chunks  # type: ignore[attr-defined]

    def gen(sr: Optional[Callable], upto: Optional[int] = None, fail_first: bool = False,
            replace: Optional[Callable] = None, fail_after_sr: bool = False, body: Optional[List[bytes]] = None) -> Any:
        try:
            if fail_first:
                note("raise")
                raise AppError("first next()")
            if sr is not None:
                start(sr, status, headers)
            if fail_after_sr:
                note("raise")
                raise AppError("after the lazy start_response, before the first chunk")
            if replace is not None:
                replace_head(replace)
            for i, c in enumerate(chunks if body is None else body):
                if upto is not None and i >= upto:
                    break
                note("next")
                yield c
            if upto is not None:
                note("raise")
                raise AppError("mid-iteration")
            note("stop")
        finally:
            rec.cleanup_count += 1

    def app(environ: Any, sr: Callable) -> Any:
        enter(environ)
        if kind == "list":
            start(sr, status, headers)
            return list(chunks)
        if kind == "gen_eager":
            start(sr, status, headers)
            return gen(None)
        if kind == "gen_lazy":
            return gen(sr)
        if kind == "iter_close":
            start(sr, status, headers)
            return Iter()
        if kind == "iter_close_lazy":
            return Iter(sr)
        if kind == "iterable_close":
            # an iterable (not an iterator) with close(): __iter__ hands out a different object, and PEP 3333
            # wants close() called on the object the application returned
            class Iterable:
                def __iter__(self) -> Any:
                    def it() -> Any:
                        for c in chunks:
                            note("next")
                            yield c
                        note("stop")
                    return it()

                def close(self) -> None:
                    rec.close_count += 1
                    note("close")

            start(sr, status, headers)
            return Iterable()
        if kind == "twice_excinfo":
            start(sr, status, headers)
            replace_head(sr)
            return list(ref.EXCINFO_CHUNKS)
        if kind == "excinfo_first_iter":
            start(sr, status, headers)
            it = Iter(replace=sr)
            it.chunks = list(ref.EXCINFO_CHUNKS) + chunks  # type: ignore[attr-defined]
            return it
        if kind == "excinfo_first_gen":
            start(sr, status, headers)
            return gen(None, replace=sr, body=list(ref.EXCINFO_CHUNKS) + chunks)
        if kind == "excinfo_lazy_gen":
            return gen(sr, replace=sr, body=list(ref.EXCINFO_CHUNKS) + chunks)
        if kind == "raise_lazy_after_sr":
            return gen(sr, fail_after_sr=True)
        if kind == "raise_after_empties_gen":
            start(sr, status, headers)
            return gen(None, upto=len(ref.EMPTIES), body=list(ref.EMPTIES) + [b"never"])
        if kind == "raise_before_sr":
            note("raise")
            raise AppError("before start_response")
        if kind == "raise_after_sr":
            start(sr, status, headers)
            note("raise")
            raise AppError("after start_response")
        if kind == "raise_mid_gen":
            start(sr, status, headers)
            return gen(None, upto=1)
        if kind == "raise_mid_iter_close":
            start(sr, status, headers)
            return Iter(raise_at=min(1, len(chunks)))
        if kind == "raise_lazy_first":
            return gen(None, fail_first=True)
        if kind == "no_sr_list":
            return list(chunks)
        if kind == "no_sr_iter_close":
            return Iter()
        raise ValueError(kind)

    return app


# ---------------------------------------------------------------------------------------------
# running one case


class Out:
    def __init__(self) -> None:
        self.sent: List[dict] = []
        self.ended = 0  # send(None) calls (task-group seam)
        self.logged: List[str] = []  # exception types given to config.log.exception
        self.raised: Optional[str] = None  # exception escaping the middleware / wrapper
        self.loop_thread: Optional[int] = None
        self.problems: List[str] = []
        self.view: Optional[ref.View] = None  # e2e: parsed by the independent client
        self.e2e: Any = None


def _copy_msg(m: Any) -> Any:
    if not isinstance(m, dict):
        return m
    c = dict(m)
    if isinstance(c.get("body"), (bytearray, memoryview)):
        c["body"] = bytes(c["body"])
    if "headers" in c:
        try:
            c["headers"] = [(bytes(n), bytes(v)) for n, v in c["headers"]]
        except Exception:
            pass
    return c


def _config(out: Out) -> Any:
    from hypercorn.config import Config

    class _Log:
        def __init__(self, config: Any) -> None:
            pass

        async def exception(self, message: str, *a: Any, **k: Any) -> None:
            e = sys.exc_info()[1]
            out.logged.append(type(e).__name__ if e is not None else "?")

        async def _other(self, *a: Any, **k: Any) -> None:
            pass

        access = critical = error = warning = info = debug = log = _other

    cfg = Config()
    cfg.logger_class = _Log  # type: ignore[assignment]
    return cfg


GATE_YIELDS = 3  # real loops: a gated send gives the loop back this many times before it completes


def _gated_send(out: Out, flow: "Flow", fail_at: Optional[int], gate: Callable, finished: Callable,
                cancel_at: Optional[int] = None, cancel: Optional[Callable] = None) -> Callable:
    """The ASGI send of the flow groups: a slow consumer.  A message is taken over when the send begins (sends that
    begin in order are processed in order) but the call only returns after `gate()`; send number `fail_at` is not
    taken over and raises SendFailed after its gate."""

    async def send(m: Any) -> None:
        if m is None:
            out.ended += 1
            finished()
            return
        idx = flow.begun
        flow.begun += 1
        fail = idx == fail_at
        if not fail:
            out.sent.append(_copy_msg(m))
        err: Optional[BaseException] = None
        try:
            if cancel is not None and idx == cancel_at:
                cancel()  # `gc<j>`: the request is cancelled while the application thread is parked in send number j
            await gate()
            if fail:
                err = SendFailed(f"send #{idx} {m.get('type')}")
                raise err
        except BaseException as e:  # (trio.Cancelled is a BaseException)
            err = err or e
            raise
        finally:
            flow.done(m, err)

    return send


def run_direct_vloop(how: str, scope: dict, messages: List[dict], app: Callable, L: int, flow: "Flow",
                     fail_at: Optional[int]) -> Out:
    """tg:vloop / mw:vloop - hypercorn's asyncio TaskGroup.spawn_app (resp. AsyncioWSGIMiddleware) on a bare virtual
    loop with the lock-step worker thread: every send parks on a gate, gates are opened one at a time, oldest
    first, and only when nothing else can run (the worker is then blocked in the bridge, or has run ahead)."""
    from hypercorn.app_wrappers import WSGIWrapper
    from hypercorn.asyncio.task_group import TaskGroup as ATaskGroup
    from hypercorn.middleware.wsgi import AsyncioWSGIMiddleware

    from mc import x_c17_lockstep

    out = Out()
    out.loop_thread = threading.get_ident()
    gates: List[Any] = []

    def on_idle(loop: Any) -> bool:
        while gates:
            fut = gates.pop(0)
            if not fut.done():
                fut.set_result(None)
                return True
        return False

    async def main(loop: Any) -> None:
        done = asyncio.Event()

        async def gate() -> None:
            fut = loop.create_future()
            gates.append(fut)
            await fut

        send = _gated_send(out, flow, fail_at, gate, done.set)
        if how == "tg":
            async with ATaskGroup(loop) as tg:
                put = await tg.spawn_app(WSGIWrapper(app, L), _config(out), scope, send)
                for m in messages:
                    await put(m)
                await done.wait()
        else:
            q: asyncio.Queue = asyncio.Queue()
            for m in messages:
                q.put_nowait(m)
            try:
                await AsyncioWSGIMiddleware(app, L)(scope, q.get, send)
            except Exception as e:
                out.raised = type(e).__name__

    out.problems += x_c17_lockstep.run_on_vloop(main, on_idle)
    return out


def run_direct(seam: str, scope: dict, messages: List[dict], app: Callable, L: int, flow: Optional["Flow"] = None,
               fail_at: Optional[int] = None, cancel_at: Optional[int] = None) -> Out:
    from hypercorn.app_wrappers import WSGIWrapper

    how, engine = seam.split(":")
    if engine == "vloop":
        assert flow is not None
        return run_direct_vloop(how, scope, messages, app, L, flow, fail_at)
    out = Out()
    if engine == "asyncio":
        from hypercorn.asyncio.task_group import TaskGroup as ATaskGroup
        from hypercorn.middleware.wsgi import AsyncioWSGIMiddleware

        async def amain() -> None:
            loop = asyncio.get_running_loop()
            out.loop_thread = threading.get_ident()
            done = asyncio.Event()

            async def send(m: Any) -> None:
                if m is None:
                    out.ended += 1
                    done.set()
                else:
                    out.sent.append(_copy_msg(m))

            async def gate() -> None:
                for _ in range(GATE_YIELDS):
                    await asyncio.sleep(0)

            if flow is not None:
                send = _gated_send(out, flow, fail_at, gate, done.set)  # type: ignore[assignment]

            if how == "tg":
                async with ATaskGroup(loop) as tg:
                    put = await tg.spawn_app(WSGIWrapper(app, L), _config(out), scope, send)
                    for m in messages:
                        await put(m)
                    try:
                        await asyncio.wait_for(done.wait(), WATCHDOG_S)
                    except asyncio.TimeoutError:
                        out.problems.append("watchdog: the wrapper did not finish")
                        raise
            else:
                q: asyncio.Queue = asyncio.Queue()
                for m in messages:
                    q.put_nowait(m)
                try:
                    await asyncio.wait_for(AsyncioWSGIMiddleware(app, L)(scope, q.get, send), WATCHDOG_S)
                except asyncio.TimeoutError:
                    out.problems.append("watchdog: the middleware did not finish")
                except Exception as e:
                    out.raised = type(e).__name__

        loop = asyncio.new_event_loop()
        try:
            try:
                loop.run_until_complete(amain())
            except (asyncio.TimeoutError, BaseExceptionGroup) as e:
                if not out.problems:
                    out.problems.append(f"task group failed: {type(e).__name__}")
            loop.run_until_complete(loop.shutdown_default_executor())
        finally:
            loop.close()
    else:
        import trio
        from hypercorn.middleware.wsgi import TrioWSGIMiddleware
        from hypercorn.trio.task_group import TaskGroup as TTaskGroup

        async def tmain() -> None:
            out.loop_thread = threading.get_ident()
            done = trio.Event()

            async def send(m: Any) -> None:
                if m is None:
                    out.ended += 1
                    done.set()
                else:
                    out.sent.append(_copy_msg(m))

            async def gate() -> None:
                for _ in range(GATE_YIELDS):
                    await trio.sleep(0)

            req_scope = trio.CancelScope()  # `gc<j>` (mw:trio only): cancelled from inside send number j
            if flow is not None:
                send = _gated_send(out, flow, fail_at, gate, done.set, cancel_at, req_scope.cancel)  # type: ignore[assignment]

            if how == "tg":
                async with TTaskGroup() as tg:
                    put = await tg.spawn_app(WSGIWrapper(app, L), _config(out), scope, send)
                    for m in messages:
                        await put(m)
                    with trio.move_on_after(WATCHDOG_S) as cs:
                        await done.wait()
                    if cs.cancelled_caught:
                        out.problems.append("watchdog: the wrapper did not finish")
                        tg._nursery.cancel_scope.cancel()
            else:
                tx, rx = trio.open_memory_channel(len(messages) + 1)
                for m in messages:
                    tx.send_nowait(m)
                with trio.move_on_after(WATCHDOG_S) as cs:
                    try:
                        with req_scope:
                            await TrioWSGIMiddleware(app, L)(scope, rx.receive, send)
                    except Exception as e:
                        out.raised = type(e).__name__
                if cs.cancelled_caught:
                    out.problems.append("watchdog: the middleware did not finish")

        try:
            trio.run(tmain)
        except BaseExceptionGroup as e:
            out.problems.append(f"task group failed: {type(e).__name__}")
    return out


class _loop_policy_state:
    """The process-wide 'current event loop' slot is put back as it was (histories set it on purpose)."""

    def __enter__(self) -> None:
        import warnings

        self.local = asyncio.get_event_loop_policy()._local  # type: ignore[attr-defined]
        self.saved = (getattr(self.local, "_loop", None), getattr(self.local, "_set_called", False))
        self.warn = warnings.catch_warnings()
        self.warn.__enter__()
        warnings.simplefilter("ignore", DeprecationWarning)

    def __exit__(self, *a: Any) -> None:
        self.local._loop, self.local._set_called = self.saved
        self.warn.__exit__(*a)


def run_loop_history(seam: str, hist: str, make_scope: Callable[[], dict], messages: List[dict], spec: tuple,
                     L: int) -> List[Tuple[Rec, Out]]:
    """mw:asyncio / mw:trio - ONE middleware object (wrapping one WSGI callable) is constructed where `hist` says and
    then serves one request per loop; every served request gets a fresh recorder behind the same callable."""
    served: List[Tuple[Rec, Out]] = []
    current: List[Optional[Callable]] = [None]

    def wsgi_app(environ: Any, start_response: Callable) -> Any:
        return current[0](environ, start_response)  # type: ignore[misc]

    def begin() -> Out:
        rec, out = Rec(), Out()
        out.loop_thread = threading.get_ident()
        current[0] = make_app(spec, rec)
        served.append((rec, out))
        return out

    def not_constructed(e: BaseException, n: int) -> List[Tuple[Rec, Out]]:
        for _ in range(n):  # the requests this object was going to serve get nothing
            begin().raised = "construction:" + type(e).__name__
        return served

    if seam == "mw:asyncio":
        from hypercorn.middleware.wsgi import AsyncioWSGIMiddleware

        def construct() -> Any:
            return AsyncioWSGIMiddleware(wsgi_app, L)

        async def serve(mw: Any) -> None:
            out = begin()
            live = [True]
            q: asyncio.Queue = asyncio.Queue()
            for m in messages:
                q.put_nowait(dict(m))

            async def send(m: Any) -> None:
                if live[0]:
                    out.sent.append(_copy_msg(m))

            try:
                await asyncio.wait_for(mw(make_scope(), q.get, send), WATCHDOG_S)
            except asyncio.TimeoutError:
                out.problems.append("watchdog: the middleware did not finish")
            except Exception as e:
                out.raised = type(e).__name__
            live[0] = False

        def finish(loop: Any, ran: bool = True) -> None:
            try:
                # (an idle loop that was never meant to run: run it now so that a thread still bridged to it ends)
                loop.run_until_complete(asyncio.wait_for(loop.shutdown_default_executor(), 10.0))
            except Exception:
                pass
            loop.close()

        with _loop_policy_state():
            if hist in ("outside", "outside-nocurrent"):
                idle = None
                if hist == "outside":
                    idle = asyncio.new_event_loop()  # the loop that is current, and idle, at "import time"
                    asyncio.set_event_loop(idle)
                else:
                    asyncio.set_event_loop(None)
                try:
                    try:
                        mw = construct()
                    except Exception as e:
                        return not_constructed(e, 1)
                    b = asyncio.new_event_loop()
                    try:
                        b.run_until_complete(serve(mw))
                    finally:
                        finish(b)
                finally:
                    if idle is not None:
                        finish(idle)
            elif hist in ("earlier-closed", "two-loops"):
                box: List[Any] = []

                async def first() -> None:
                    box.append(construct())
                    if hist == "two-loops":
                        await serve(box[0])

                a = asyncio.new_event_loop()
                try:
                    try:
                        a.run_until_complete(first())
                    except Exception as e:
                        return not_constructed(e, 2 if hist == "two-loops" else 1)
                finally:
                    finish(a)
                b = asyncio.new_event_loop()
                try:
                    b.run_until_complete(serve(box[0]))
                finally:
                    finish(b)
            else:
                raise ValueError(hist)
        return served

    import trio
    from hypercorn.middleware.wsgi import TrioWSGIMiddleware

    async def tserve(mw: Any) -> None:
        out = begin()
        tx, rx = trio.open_memory_channel(len(messages) + 1)
        for m in messages:
            tx.send_nowait(dict(m))

        async def send(m: Any) -> None:
            out.sent.append(_copy_msg(m))

        with trio.move_on_after(WATCHDOG_S) as cs:
            try:
                await mw(make_scope(), rx.receive, send)
            except Exception as e:
                out.raised = type(e).__name__
        if cs.cancelled_caught:
            out.problems.append("watchdog: the middleware did not finish")

    try:
        tmw = TrioWSGIMiddleware(wsgi_app, L)
    except Exception as e:
        return not_constructed(e, 2 if hist == "two-runs" else 1)
    for _ in range(2 if hist == "two-runs" else 1):
        try:
            trio.run(tserve, tmw)
        except BaseExceptionGroup as e:
            served[-1][1].problems.append(f"task group failed: {type(e).__name__}")
    return served


_LOCKSTEP = [False]


SLOW_STEPS = 24


class Probe:
    """A tap on the ASGI `send` the WSGIWrapper is handed by hypercorn's task group (e2e flow group): counts
    sends begun / completed / failed and the body bytes of the completed ones; everything is passed through."""

    def __init__(self, inner: Any, flow: "Flow") -> None:
        self.inner = inner
        self.flow = flow

    async def __call__(self, scope: Any, receive: Any, send: Any, sync_spawn: Any, call_soon: Any) -> None:
        flow = self.flow

        async def tapped(m: Any) -> None:
            flow.begun += 1
            err: Optional[Exception] = None
            try:
                await send(m)
            except Exception as e:
                err = e
                raise
            finally:
                flow.done(m, err)

        await self.inner(scope, receive, tapped, sync_spawn, call_soon)


def _peer_step(world: Any) -> None:
    """A slow peer: it reads what the server's transport has buffered and stops reading again at once (so the
    next block bigger than the high-water mark blocks the next drain), and its own pending HTTP/2 frames
    (WINDOW_UPDATE, acks) reach the server."""
    tr = world.transports.get(0)
    rec = world.conns.get(0)
    if tr is None or rec is None or tr._conn_lost:
        return
    cl = rec.client
    if cl is not None and cl.h2 is not None and world.enabled(("cmd", 0, "flush")):
        data = cl.command(("cmd", 0, "flush"))
        if data:
            tr.env_feed(data)

    def read_once() -> None:
        if tr.peer_paused and tr._buffer and not tr._conn_lost:
            tr.peer_paused = False
            try:
                tr._write_ready()
            finally:
                tr.peer_paused = True

    world.loop.inject(read_once, context=tr._ctx)


def run_e2e(seam: str, req: ref.Req, app: Callable, L: int, split: str, flow: Optional["Flow"] = None,
            peer: Optional[str] = None) -> Out:
    from hypercorn.app_wrappers import WSGIWrapper

    from mc import x_c17_lockstep
    from mc.clients import make_client
    from mc.harness import run_world

    if not _LOCKSTEP[0]:
        x_c17_lockstep.install()
        _LOCKSTEP[0] = True
    out = Out()
    out.loop_thread = threading.get_ident()
    target = req.raw_path + (b"?" + req.query if req.query else b"")
    if seam == "e2e:h1":
        head = b"%s %s HTTP/%s\r\n" % (req.method.encode(), target, req.version.encode())
        head += b"".join(n + b": " + v + b"\r\n" for n, v in req.headers) + b"\r\n"
        wire = head + req.body
        if split == "2" and req.body:
            cut = len(head) + len(req.body) // 2
            client = [("data", 0, wire[:cut]), ("data", 0, wire[cut:])]
        else:
            client = [("data", 0, wire)]
        conn: Dict[str, Any] = {"carrier": "h1", "methods": [req.method.encode()]}
    else:
        hs = [(b":method", req.method.encode()), (b":path", target), (b":scheme", b"https"), (b":authority", b"hypercorn")]
        hs += [(n, v) for n, v in req.headers if n != b"host"]
        client = [("cmd", 0, "preface"), ("cmd", 0, "headers", 1, hs, not req.body)]
        if req.body:
            if split == "2" and len(req.body) > 1:
                half = len(req.body) // 2
                client += [("cmd", 0, "datan", 1, req.body[:half], False), ("cmd", 0, "datan", 1, req.body[half:], True)]
            else:
                client.append(("cmd", 0, "datan", 1, req.body, True))
        conn = {"carrier": "h2", "tls": True, "alpn": "h2"}
    if peer is not None:
        # the peer is not reading when the response is produced: "stall" - it starts reading for good once the
        # server cannot go on; "slow" - it reads what is buffered, one buffer-full at a time; "reset" - it goes away
        # once the server cannot go on; "slow-reset" - it reads one buffer-full first
        tail = {"slow": [("call", _peer_step)] * SLOW_STEPS + [("resume", 0)], "stall": [("resume", 0)],
                "reset": [("reset", 0)], "slow-reset": [("call", _peer_step), ("reset", 0)]}[peer]
        client = [("pause", 0)] + client + tail
    if seam == "e2e:h2":
        # deliver the client's WINDOW_UPDATEs / acks whenever some are pending
        client += [("cmd", 0, "flush")] * (6 if peer is None else 16)
    wrapper = WSGIWrapper(app, L)
    sc = {
        "level": "conn", "conns": {0: conn}, "client_factory": make_client,
        "app_factory": lambda world: wrapper if flow is None else Probe(wrapper, flow),
        "config": {"root_path": req.root_path, "keep_alive_timeout": 5},
        "sources": [("client", client)], "midflight": False, "sigs": False,
    }
    w = run_world("asyncio", sc, [])
    rec = w.conns[0]
    cl = rec.client
    errors: List[str] = []
    view = ref.View(False, None, None, b"", False, errors)
    if seam == "e2e:h1":
        if cl.h1.error:
            errors.append("client-parser:" + cl.h1.error.split(":")[0])
        if len(cl.h1.responses) > 1:
            errors.append("more-than-one-response")
        if cl.h1.responses:
            r = cl.h1.responses[0]
            view = ref.View(True, r["status"], list(r["headers"]), bytes(r["body"]), bool(r["complete"]), errors)
    else:
        if cl.h2.error:
            errors.append("client-parser:" + cl.h2.error.split(":")[0])
        st = cl.h2.streams.get(1)
        if st is not None and st["status"] is not None:
            view = ref.View(True, st["status"], list(st["headers"] or []), bytes(st["body"]), bool(st["ended"]), errors)
    out.view = view
    out.logged = [l[3] or "?" for l in w.logrec if l[1] == "exception"]
    out.problems = list(w.problems)
    # Exceptions escaping the connection handler are C04's business (e.g. h2 DATA arriving after the 400 was
    # sent kills the connection with a KeyError); here only what the client got is judged.
    out.e2e = (rec.handler, [repr(c.get("exception"))[:80] for c in w.exc_contexts], bytes(rec.out[:200]))
    return out


# ---------------------------------------------------------------------------------------------
# oracle


def judge(case: tuple, rec: Rec, out: Out) -> Tuple[List[dict], Any, bool]:
    seam, rq, spec, L, split = case[:5]
    req = req_of(seam, rq)
    kind = spec[0]
    variant = rq[10]
    sclass = "e2e" if seam.startswith("e2e") else "direct"
    viol: List[dict] = []

    def flag(clause: str, key: str, detail: Any = "") -> None:
        viol.append(V(clause, key, f"{detail} | case={case!r}"))

    for p in out.problems:
        flag("harness-problem", p.split(":")[0], p)
    view = out.view if out.view is not None else ref.asgi_view(out.sent)

    # ---- WebSocket: refused, callable untouched
    if rq[0] == "websocket":
        types = [m.get("type") for m in out.sent]
        if rec.invocations:
            flag("websocket-refusal", "callable-invoked", types)
        if "websocket.accept" in types or "websocket.send" in types:
            flag("websocket-refusal", "accepted", types)
        refused = "websocket.close" in types or any(
            m.get("type") == "websocket.http.response.start" and m.get("status", 0) >= 400 for m in out.sent)
        if not refused and out.raised is None and not out.logged:
            flag("websocket-refusal", "no-refusal-sent", types)
        return viol, (tuple(types), out.raised, tuple(out.logged)), refused

    over = len(req.body) > L
    matched = ref.split_path(req) is not None or variant == "minimal"
    # ---- exactly once, off the loop
    want_calls = 0 if over else (1 if matched else None)
    if want_calls is not None and rec.invocations != want_calls:
        if over:
            flag("body-limit", "over-limit:callable-invoked", f"{len(req.body)} > {L}")
        else:
            flag("invocation-count", f"{sclass}:{kind}:{rec.invocations}-want-1",
                 f"view={_short(view)} logged={out.logged} raised={out.raised}")
    if rec.invocations > 1:
        flag("invocation-count", f"{sclass}:{kind}:{rec.invocations}-want-1", "")
    if any(t == out.loop_thread for t in rec.threads):
        flag("on-loop-thread", "callable-ran-on-event-loop-thread", "")

    # ---- body limit
    if over:
        if not (view.started and view.status == 400):
            flag("body-limit", f"over-limit:status-{view.status}", f"{len(req.body)} > {L}: {_short(view)}")
        elif not view.complete:
            flag("body-limit", "over-limit:400-not-completed", _short(view))
        for e in view.errors:
            flag("response-message-sequence", f"{sclass}:over-limit:{e}", _short(view))
    elif view.started and view.status == 400 and not rec.invocations:
        flag("body-limit", "within-limit:rejected-400", f"{len(req.body)} <= {L}")

    # ---- environ
    if rec.invocations:
        for clause, key, detail in ref.check_environ(req, rec.snap, rec.body_read, variant):
            flag(clause, key, detail)

    # ---- response, close()
    if rec.invocations == 1 and not over:
        exp = ref.expected_response(kind, spec[1], RHDRSETS[spec[2]], ALL_CHUNKSETS[spec[3]])
        cancelled_mode = len(case) > 5 and isinstance(case[5], str) and case[5].startswith("gc")
        if cancelled_mode:
            pass
        elif rec.flow is not None:
            # the thread bridge: what the application thread saw of the sends each time it ran
            seen = set()
            for clause, key, detail in ref.check_flow(exp.produced, rec.marks):
                if key not in seen:
                    seen.add(key)
                    flag(clause, f"{sclass}:{kind}:{key}", f"{detail} marks={rec.marks} logged={out.logged} raised={out.raised}")
            if rec.flow.failed or (sclass == "e2e" and "reset" in case[5]):
                # the harness made a send fail / the peer went away: the response cannot be complete
                exp = exp._replace(ok=False)
        if not exp.ok and sclass == "e2e":
            # a truncated response (connection closed before the declared end) is how a failure shows on the wire
            view = view._replace(errors=[e for e in view.errors if not e.startswith("client-parser:")])
        extra_ok = (lambda n: n in E2E_EXTRA_HEADERS) if sclass == "e2e" else None
        for clause, key, detail in ([] if cancelled_mode else ref.check_response(exp, view, extra_ok)):
            flag(clause, f"{sclass}:{kind}:{key}",
                 f"{detail} logged={out.logged} raised={out.raised} events={rec.events}")
        if exp.closeable:
            if rec.close_count != 1:
                flag("close-count", f"{sclass}:{kind}:{rec.close_count}-want-1" + (":cancelled" if cancelled_mode else ""),
                     f"events={rec.events} logged={out.logged}")
            elif rec.events[-1] != "close" or "next-after-close" in rec.events:
                flag("close-order", f"{sclass}:{kind}:close-not-last", f"events={rec.events}")
        elif rec.close_count:
            flag("close-count", f"{sclass}:{kind}:{rec.close_count}-want-0", f"events={rec.events}")
        if rec.cleanup_count > 1:
            flag("close-count", f"{sclass}:{kind}:generator-cleanup-{rec.cleanup_count}", f"events={rec.events}")
    elif not rec.invocations and not over:
        for e in view.errors:
            flag("response-message-sequence", f"{sclass}:not-invoked:{e}", _short(view))

    obs = (ref.environ_digest_view(rec.snap, rec.body_read) if rec.invocations else None, tuple(rec.events),
           rec.close_count, rec.cleanup_count, view.started, view.status, tuple(view.headers or ()) if sclass == "direct"
           else tuple(h for h in (view.headers or ()) if h[0] != b"date"), view.body, view.complete, tuple(view.errors),
           tuple(out.logged), out.raised, out.ended,
           # real loops + real threads: the counters are reproducible only as long as the bridge is synchronous (once it
           # is not, the two threads race: the verdict stands, its witness values vary) - they stay out of the digest
           len(rec.marks) if seam in DIRECT_SEAMS else tuple(rec.marks))
    nontrivial = bool(rec.invocations) or view.started
    return viol, obs, nontrivial


def _short(view: ref.View) -> str:
    return (f"started={view.started} status={view.status} headers={view.headers!r} body={view.body[:30]!r}"
            f"({len(view.body)}B) complete={view.complete} errors={view.errors}")


def execute(params: Any, prefix: List[int]) -> ExecResult:
    case = tuple(params)
    seam, rq, spec, L, split = case[:5]
    mode = case[5] if len(case) > 5 else None  # flow groups: send behaviour (direct) / peer behaviour (e2e)
    rq, spec = tuple(rq), tuple(spec)
    case = (seam, rq, spec, L, split) + ((mode,) if mode is not None else ())
    if mode is not None and mode.startswith("L:"):
        return _execute_loops(case)
    rec = Rec()
    if mode is not None:
        rec.flow = Flow()
    app = make_app(spec, rec)
    req = req_of(seam, rq)
    if seam.startswith("e2e"):
        out = run_e2e(seam, req, app, L, split, rec.flow, mode)
    else:
        scope = ws_scope(req) if rq[0] == "websocket" else ref.asgi_scope(req, rq[10])
        msgs = [{"type": "websocket.connect"}] if rq[0] == "websocket" else request_messages(req.body, split)
        fail_at = int(mode[2:]) if mode is not None and mode.startswith("gf") else None
        cancel_at = int(mode[2:]) if mode is not None and mode.startswith("gc") else None
        out = run_direct(seam, scope, msgs, app, L, rec.flow, fail_at, cancel_at)
    viol, obs, nontrivial = judge(case, rec, out)
    sample = {"case": repr(case)[:300], "invocations": rec.invocations, "events": rec.events[:12],
              "environ": {k: repr(v)[:60] for k, v in sorted(rec.snap.items())} if isinstance(rec.snap, dict) else None,
              "sent": [repr(m)[:160] for m in out.sent[:6]], "view": _short(out.view) if out.view else None,
              "logged": out.logged, "raised": out.raised, "flow_marks": [list(m) for m in rec.marks[:12]]}
    if os.environ.get("MC_VERBOSE"):
        print("case:", case)
        print("request spec:", req._replace(body=req.body[:40]))
        if rec.flow is not None:
            print("flow marks (event, sends begun, completed, failed, body bytes of completed sends):", rec.marks)
        print("app events:", rec.events, " invocations:", rec.invocations, " close:", rec.close_count,
              " cleanup:", rec.cleanup_count, " app thread != loop thread:", [t != out.loop_thread for t in rec.threads])
        if isinstance(rec.snap, dict):
            for k in sorted(rec.snap):
                print(f"   environ[{k!r}] = {rec.snap[k]!r}")
            print("   wsgi.input.read() ->", repr(rec.body_read)[:80])
        for m in out.sent:
            print("   sent:", repr(m)[:200])
        print("   send(None) calls:", out.ended, " logged:", out.logged, " raised:", out.raised)
        if out.view is not None:
            print("   client view:", _short(out.view), " e2e:", out.e2e)
    return ExecResult([], viol, digest(obs), nontrivial, (), sample)


def _execute_loops(case: tuple) -> ExecResult:
    seam, rq, spec, L, split, mode = case
    req = req_of(seam, rq)
    served = run_loop_history(seam, mode[2:], lambda: ref.asgi_scope(req, rq[10]), request_messages(req.body, split), spec, L)
    viol: List[dict] = []
    obs: List[Any] = []
    nontrivial = False
    for k, (rec, out) in enumerate(served):
        v, o, nt = judge(case, rec, out)
        for x in v:
            x["detail"] = f"request #{k + 1} of {len(served)} served by this middleware object: " + x["detail"]
        viol += v
        obs.append(o)
        nontrivial = nontrivial or nt
    sample = {"case": repr(case)[:300], "served": len(served), "invocations": [r.invocations for r, _ in served],
              "events": [r.events[:12] for r, _ in served], "sent": [[repr(m)[:120] for m in o.sent[:4]] for _, o in served],
              "raised": [o.raised for _, o in served]}
    if os.environ.get("MC_VERBOSE"):
        print("case:", case)
        for k, (rec, out) in enumerate(served):
            print(f"request #{k + 1}: app events:", rec.events, " invocations:", rec.invocations, " close:", rec.close_count,
                  " app thread != loop thread:", [t != out.loop_thread for t in rec.threads])
            for m in out.sent:
                print("   sent:", repr(m)[:200])
            print("   raised:", out.raised, " problems:", out.problems)
    return ExecResult([], viol, digest(tuple(obs)), nontrivial, (), sample)


_REPORTED: set = set()  # per worker process: each (clause, key) is handed to the framework once, with its first witness


def explore_item_custom(params: Any, tier: str, deadline: float) -> dict:
    _, group, seam, i, nb = params
    res = _blank_result()
    first = True
    for idx, case in enumerate(cases_of(tier, group, seam)):
        if idx % nb != i:
            continue
        if time.time() > deadline:
            res["capped"] = True
            res["cap_pending"] = 1
            break
        r = execute(case, [])
        # the framework keeps at most 400 violations per scenario / 2000 per run: a defect that shows in every
        # case (e.g. a wrong environ value) must not crowd out the others
        fresh = [v for v in r.violations if (v["clause"], v["key"]) not in _REPORTED]
        _REPORTED.update((v["clause"], v["key"]) for v in fresh)
        r.violations = fresh
        _account(res, r, case, [], first)
        if first or fresh:
            r2 = execute(case, [])
            res["replay_checks"] += 1
            if r2.digest != r.digest:
                res["replay_divergences"] += 1
                res["divergent"].append(repr(case))
            first = False
    return res


# wave h documentation (what was added to the enumeration; see DESIGN.md 11.0)
_WAVE_H = '+ flow modes gc0..gc2 on the trio middleware seam: the request is cancelled while the WSGI thread is parked in send number j (judged for close() exactly once, last)'
RULE = RULE + " " + _WAVE_H
BOUNDS_DOC = {k: v + " " + _WAVE_H for k, v in BOUNDS_DOC.items()}
