"""C16 - protocol behaviour does not depend on the worker class.

Differential check: scenarios of C03 (closure races), C06 (pipelines) and C07 (idle / dead connection
histories) are executed on the asyncio engine and on the trio engine with the *same* choice
sequence, every environment event being injected at quiescence only (M = 0: "same timing" is not
defined across two different schedulers for mid-flight injections, so those are excluded by
construction, not by tolerance).  Explorer A enumerates the orders of the sources (S bound) and the
clock placement; the normalised observations must be equal.

Oracle
  schedule-shape-differs   the two workers offer different sets of enabled environment events at some
                           quiescent point (e.g. one has a timer armed / a connection open where the other has not)
  app-messages-differ      an application instance was delivered a different message sequence
  client-events-differ     the client parsed different protocol events (status, headers minus date, body, stream end)
  close-differs            the server closed on one worker and not on the other, or at a different virtual instant
"""
from __future__ import annotations

from typing import Tuple, Any, List

from mc.core import HarnessError, digest
from mc.explore import ExecResult, V
from mc.harness import client_view, norm_msg, run_world
from props import c03, c05, c06, c07, c08, c14, c15

ID = "C16"
LEVEL = "model_checking"
TECHNIQUE = ("differential stateless exploration: the same environment choice sequence replayed on the asyncio worker "
             "(virtual-time loop) and the trio worker (instrumented trio run), normalised observations compared")
RULE = ("scenario = a C03/C06/C07 scenario with events injected at quiescence only; Explorer A enumerates source orders "
        "within S; one evaluation = one pair of executions; non-trivial = an application instance ran and a non-default "
        "choice was taken; distinct by digest of the asyncio observation")
ASSUMPTIONS = [
    "scenarios with config.read_timeout set are compared like any other: clock jumps and lapses are environment events, "
    "so a deadline armed on one worker only (a read deadline running while the reader is parked inside the protocol) "
    "shows as schedule-shape-differs, its consequences as close-differs / client-events-differ",
    "mid-flight injections, transport pause/resume (asyncio buffers where trio blocks) and trio's own batch-order "
    "choices are outside the comparison",
    "what an application is sent after it has finished, the handler's exit status and log texts are not compared",
]
BOUNDS_DOC = {"quick": "M=0, S<=2; includes the read_timeout scenarios of C06 (segmentation rt), C07 (histories *_rt) and C08 (release rtimeout, window 0), "
                       "the keep_alive_timeout = 0 scenarios of C07 and the single-connection graceful_timeout = 0 scenarios of C15",
              "thorough": "M=0, S<=3; read_timeout scenarios as quick"}
BUDGET = {"quick": 300, "thorough": 1800}

SETS = {
    "c03": (c03, 0),
    "c05": (c05, 0),
    "c06": (c06, 0),
    "c07": (c07, 1),
    "c08": (c08, 0),
    "c15": (c15, 0),
    "c14": (c14, 0),  # only its 'state' world: two connections whose applications read and write scope["state"]
}


def scenarios(tier: str) -> List[Any]:
    out = []
    for name, (mod, pos) in SETS.items():
        for p in mod.scenarios(tier):
            if p[pos] != "asyncio":
                continue
            if name == "c06" and (p[4] not in ("whole", "rt") and not (isinstance(p[4], tuple) and p[4][0] == "bound")):
                continue
            if name == "c06" and tier == "quick" and len(p[1]) > 2:
                continue
            if name == "c14" and p[1] != "state":
                continue
            if name == "c05" and p[4] == "cancel":
                continue  # raising the runtime's own cancellation exception is not comparable across runtimes
            if name == "c15" and (len(p[2]) != 1 or p[3] != "none"):
                continue  # one connection on the real worker_serve(): shutdown behaviour as the client sees it
            # (C15's graceful_timeout = 0 variants are kept: what differs there is KF-C16-cancelled-request-cleanup again,
            # the cancellation merely happens at the trigger instead of 3 s later - same keys on purpose)
            if name == "c07" and len(p) > 4:
                continue
            if name == "c07" and p[2] == "h2_abort_paused":
                continue  # transport pause (see c08 below); how much of an abandoned body precedes the reset is timing
            if name == "c08" and (p[2] != "win0" or p[3] > 4):
                continue  # transport pause is modelled differently (asyncio buffers, trio blocks): excluded
            out.append((name, p))
    return out


def bounds(tier: str, params: Any) -> dict:
    return {"M": 0, "S": 2 if tier == "quick" else 3, "R": 0}


def _with_engine(name: str, p: tuple, engine: str) -> tuple:
    mod, pos = SETS[name]
    q = list(p)
    q[pos] = engine
    return tuple(q)


def _build(name: str, p: tuple, engine: str) -> tuple:
    mod, _ = SETS[name]
    eng, sc = mod.build(_with_engine(name, p, engine))
    sc = dict(sc)
    sc["midflight"] = False
    sc["trio_rev"] = False
    # HTTP/2 by prior knowledge instead of TLS+ALPN: what the runtimes' TLS layers do on a client EOF (asyncio's
    # closes the transport at once) is not hypercorn's protocol behaviour and is kept out of the comparison
    conns = {}
    for k, opts in sc.get("conns", {}).items():
        o = dict(opts)
        if o.get("tls"):
            o.pop("tls")
            o.pop("alpn", None)
        conns[k] = o
    sc["conns"] = conns
    return eng, sc


def _obs(w: Any) -> tuple:
    insts = []
    for i in w.instances:
        msgs = [norm_msg(m) for m in i.received]
        # what is still queued counts only while the application is still there to read it
        if i.outcome == "running":
            msgs += [norm_msg(m) for m in i.drained]
        # (i.log: what ('log_state',) steps saw in scope["state"] - the C14 state world)
        insts.append((i.scope["type"], i.scope.get("path"), tuple(msgs), tuple(repr(sorted(x[2].items())) for x in i.log if x[1] == "state")))
    clients = tuple((k, ("refused",) if rec.refused else client_view(rec)) for k, rec in sorted(w.conns.items()))
    closes = tuple((k, rec.closed_at) for k, rec in sorted(w.conns.items()))
    return (tuple(insts), clients, closes)


def _is_h2_stream(x: Any) -> bool:
    return isinstance(x, tuple) and len(x) == 8 and isinstance(x[0], int) and isinstance(x[3], bytes) and x[4] in (0, 1)


def _level_aborted(a: Any, b: Any) -> Tuple[Any, Any]:
    """How much of an ABORTED HTTP/2 response body (stream reset by the server, never ended) reached the client before
    the reset is a matter of when the connection's send task had its turn, not of protocol behaviour: for such a
    stream the two views must agree on everything else and one body must be a prefix of the other."""
    if _is_h2_stream(a) and _is_h2_stream(b):
        if a[4] == 0 and b[4] == 0 and a[5] is not None and a[5] == b[5] and (a[3].startswith(b[3]) or b[3].startswith(a[3])):
            common = a[3] if len(a[3]) <= len(b[3]) else b[3]
            return a[:3] + (common,) + a[4:], b[:3] + (common,) + b[4:]
        return a, b
    if isinstance(a, tuple) and isinstance(b, tuple) and len(a) == len(b):
        pairs = [_level_aborted(x, y) for x, y in zip(a, b)]
        return tuple(x for x, _ in pairs), tuple(y for _, y in pairs)
    return a, b


def execute(params: Any, prefix: List[int]) -> ExecResult:
    name, p = params
    ea, sa = _build(name, p, "asyncio")
    wa = run_world(ea, sa, prefix)
    choices = wa.chooser.choices
    viol: List[dict] = []
    tag = f"{name}:{_short(name, p)}"
    et, st = _build(name, p, "trio")
    try:
        wt = run_world(et, st, choices)
    except HarnessError as e:
        wt = None
        viol.append(V("schedule-shape-differs", tag, f"trio could not follow the asyncio schedule: {e}"))
    if wt is not None:
        shape_a = [(x.n, x.kind) for x in wa.chooser.trace]
        shape_t = [(x.n, x.kind) for x in wt.chooser.trace]
        if shape_a != shape_t:
            viol.append(V("schedule-shape-differs", tag, f"asyncio {shape_a} events {[e for _, e in wa.driver.fired][-3:]} / "
                                                          f"trio {shape_t} events {[e for _, e in wt.driver.fired][-3:]}"))
        else:
            oa, ot = _obs(wa), _obs(wt)
            if oa[0] != ot[0]:
                viol.append(V("app-messages-differ", tag, f"asyncio {_diff(oa[0], ot[0])}"))
            ca, ct = _level_aborted(oa[1], ot[1])
            if ca != ct:
                viol.append(V("client-events-differ", tag, f"{_diff(ca, ct)}"))
            # (once the peer is gone - reset or failed write - "when the server closes" has no observer)
            gone = any(r.client_reset or r.lost_at is not None for r in list(wa.conns.values()) + list(wt.conns.values()))
            if oa[2] != ot[2] and not gone:
                viol.append(V("close-differs", tag, f"asyncio {oa[2]} trio {ot[2]}"))
    sample = {"params": repr(params)[:300], "choices": choices[:30], "events": [repr(e)[:60] for _, e in wa.driver.fired][:10]}
    return ExecResult(wa.chooser.trace, viol, digest(_obs(wa)), bool(wa.instances) and any(choices), wa.sigs, sample)


def _short(name: str, p: tuple) -> str:
    if name == "c03":
        return f"{p[1]}:{p[2]}:{p[3]}"
    if name == "c06":
        return f"{p[3]}:{'+'.join(p[1])}:max{p[2]}"
    if name == "c05":
        return f"{p[1]}:{p[2]}:k{p[3]}:{p[4]}"
    if name == "c15":
        return f"{p[1]}:{'+'.join(p[2])}"
    if name == "c14":
        return f"{p[1]}:{p[2]}:{p[3]}"
    if name == "c08":
        return f"{p[1]}:{p[2]}:n{p[3]}:{p[4]}"
    return f"{p[0]}:{p[2]}:{p[3]}"


def _diff(a: Any, b: Any) -> str:
    if isinstance(a, tuple) and isinstance(b, tuple) and len(a) == len(b):
        for x, y in zip(a, b):
            if x != y:
                return f"asyncio={repr(x)[:220]} trio={repr(y)[:220]}"
    return f"asyncio={repr(a)[:220]} trio={repr(b)[:220]}"


# wave h documentation (what was added to the enumeration; see DESIGN.md 11.0)
_WAVE_H = ("+ C14's 'state' world (two connections whose applications read and write scope[\"state\"]; what they saw is part of the "
           "compared observation); the body of an ABORTED HTTP/2 response (reset by the server, never ended) is compared as a prefix")
RULE = RULE + " " + _WAVE_H
BOUNDS_DOC = {k: v + " " + _WAVE_H for k, v in BOUNDS_DOC.items()}
