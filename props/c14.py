"""C14 - lifespan protocol ordering, failure handling and state isolation.

The real `worker_serve()` of both workers runs on the fake listener under virtual time.  A scenario
is a lifespan application script (startup behaviour x shutdown behaviour) crossed with client
activity: a connection attempt + request before startup has completed, one while serving (gated so
it can be in flight at shutdown), one after the shutdown trigger; clock ticks reach
startup_timeout / shutdown_timeout / graceful_timeout.  Explorer A interleaves the gate of the
lifespan application (startup.complete is sent only after it), connection attempts, the trigger and
the ticks.  A second family checks state isolation with two connections whose applications mutate
scope["state"].

Variants (5th element of the parameters) move along two further axes, on a leaner client activity
(the request while serving, gated, the trigger and the ticks; for the startup axis also the early
connection attempt):
  timeout values   graceful_timeout = 0, shutdown_timeout = 0, both, startup_timeout = 0 and 0.5: a timeout of 0
                   has elapsed at the instant it starts (requests still in progress at the trigger are cancelled in
                   that instant, lifespan.shutdown is delivered once, worker_serve returns by t0 + graceful + shutdown;
                   a startup that has not completed at t = 0 fails with the timeout error)
  program shape    the lifespan application runs inside 1, 2 or 3 nested task groups / nurseries: what it raises
                   (the error of sending startup.failed, a plain crash, both from sibling tasks, shutdown.failed)
                   reaches the server wrapped in ExceptionGroups of that depth.  startup.failed aborts at any depth;
                   a crash at any depth is "lifespan unsupported".

Oracle (reference lifespan automaton; a logical clock orders events inside one virtual instant)
  served-before-startup     an http/websocket application instance was created before lifespan.startup
                            was delivered, or before startup.complete / the application's failure to support lifespan
  startup-not-first         the lifespan application did not receive lifespan.startup as its first message
  startup-failure-ignored   startup.failed / startup timeout did not make worker_serve raise the documented error,
                            or a request scope was created anyway
  startup-hang              worker_serve still waiting although startup_timeout has been reached (no timer armed)
  shutdown-count            lifespan.shutdown delivered != 1 times to an application that completed startup
  shutdown-early            lifespan.shutdown delivered while a connection open at the trigger was still being
                            served and graceful_timeout had not elapsed
  shutdown-hang             shutdown never completes although shutdown_timeout has been reached
  state-shared              connection scopes do not carry their own copy of the lifespan state
  serve-crashed             worker_serve raised something other than LifespanFailureError / LifespanTimeoutError
"""
from __future__ import annotations

from typing import Any, List

from mc.clients import h1_request, make_client
from mc.core import AppCrash, ScriptApp
from mc.explore import V
from mc.harness import internal_errors, std_execute

ID = "C14"
LEVEL = "model_checking"
TECHNIQUE = ("stateless deviation-bounded exploration of lifespan scripts x connection attempts x trigger x timers on "
             "the real worker_serve()/Lifespan (asyncio and trio) under virtual time; reference lifespan automaton; the "
             "timeouts also at their boundary 0 and the lifespan application also inside nested task groups (its errors "
             "reach the server wrapped in exception groups of depth 1-3)")
RULE = ("scenario = engine x startup script x shutdown script x client activity [x variant: timeout values | nesting depth]; lifespan gate, connects, trigger and "
        "ticks interleaved within (M,S); non-trivial = instance ran and non-default choice taken; distinct by digest")
ASSUMPTIONS = [
    "an application that returns from the lifespan scope without completing startup is outside the property: only "
    "safety (no crash, nothing served before it returned) is checked on that branch",
    "connection attempts before the listener accepts are refused (asyncio: not listening) or queued (trio: the master "
    "process already listens); either is fine as long as nothing is served before startup completed",
    "a timeout of 0 has elapsed when it starts: graceful_timeout = 0 cancels what is in progress at the trigger instant, "
    "startup_timeout / shutdown_timeout = 0 may fail a lifespan application that would have answered in the same "
    "instant (either outcome is accepted; a failed startup must still serve nothing, worker_serve must still return)",
    "nested task groups are modelled by an ASGI wrapper (props/c14.py Nested) that re-raises what the scripted lifespan "
    "application raised inside ExceptionGroups of the given depth, optionally next to a crashed sibling; real nested "
    "nurseries would add scheduling points but deliver the same exception tree",
    "whether lifespan.shutdown.failed makes worker_serve raise is not demanded (only that nothing but the documented "
    "lifespan errors - bare or as the leaves of a group - ever leaves worker_serve)",
]
BOUNDS_DOC = {"quick": "M=0, S<=2; 12 startup x 7 shutdown scripts at startup/shutdown/graceful timeouts 7/2/3, plus %d "
                       "variant scenarios per engine: graceful_timeout 0, shutdown_timeout 0, both 0, startup_timeout 0 / 0.5, "
                       "and lifespan failures / crashes wrapped in exception groups of depth 1-3",
              "thorough": "M<=1, S<=3, trio R<=1; the same scripts, every shutdown script under every zero-timeout variant"}
BUDGET = {"quick": 300, "thorough": 1800}

START_T, SHUT_T, GRACE = 7.0, 2.0, 3.0
SC = {"type": "lifespan.startup.complete"}
SF = {"type": "lifespan.startup.failed", "message": "nope"}
DC = {"type": "lifespan.shutdown.complete"}
DF = {"type": "lifespan.shutdown.failed", "message": "nope"}

STARTUPS = {
    "complete": [("recv",), ("set_state", "boot", 1), ("send", SC)],
    "gated": [("recv",), ("gate", "ls"), ("set_state", "boot", 1), ("send", SC)],
    "failed": [("recv",), ("gate", "ls"), ("send_strict", SF)],
    "failed_nomsg": [("recv",), ("gate", "ls"), ("send_strict", {"type": "lifespan.startup.failed"})],
    "failed_unwind": [("recv",), ("gate", "ls"), ("send_finally", SF, 0.5)],  # cleans up (awaits) while the failure propagates
    "failed_swallow": [("recv",), ("gate", "ls"), ("send", SF), ("sleep", 0.5), ("return",)],  # catches what send() raised
    "raise_before": [("raise",)],
    "raise_after_recv": [("recv",), ("gate", "ls"), ("raise",)],
    "hang": [("recv",), ("gate", "never")],
    "return_early": [("recv",), ("return",)],
    "return_at_once": [("return",)],
    "unknown_msg": [("recv",), ("send_strict", {"type": "lifespan.bogus"})],
    # an application that tries a message the server does not know, catches the refusal and carries on normally:
    # the refused message must leave nothing behind (it serves, and is told to shut down exactly once)
    "bogus_caught": [("recv",), ("send", {"type": "lifespan.startup.progress"}), ("gate", "ls"), ("set_state", "boot", 1),
                     ("send", SC)],
}
SHUTDOWNS = {
    "complete": [("recv",), ("log_state",), ("send", DC)],
    "failed": [("recv",), ("send_strict", DF)],
    "failed_nomsg": [("recv",), ("send_strict", {"type": "lifespan.shutdown.failed"})],
    "failed_unwind": [("recv",), ("send_finally", DF, 0.5)],
    "raise": [("recv",), ("raise",)],
    "hang": [("recv",), ("gate", "never2")],
    "return": [("recv",), ("return",)],
}
OK = [("recv_body",), ("send", {"type": "http.response.start", "status": 200, "headers": [(b"content-length", b"2")]}),
      ("send", {"type": "http.response.body", "body": b"ok", "more_body": False})]
SERVES = ("complete", "gated", "bogus_caught")  # startups after which the server is expected to serve with lifespan support

# ---- variants (5th element of the parameters): (config overrides, nesting depth of the lifespan application, a sibling
# task crashing in the outermost group as well?, sources of client activity kept)
_T_SRC = ("life", "during", "ctl", "app", "clock")
_K_SRC = ("life", "during", "ctl", "clock")  # the request while serving is never released: it does not finish by itself
_S_SRC = ("early", "life", "during", "ctl", "app", "clock")
VARIANTS = {
    "g0": ({"graceful_timeout": 0}, 0, False, _T_SRC),
    "g0-stuck": ({"graceful_timeout": 0}, 0, False, _K_SRC),
    "s0": ({"shutdown_timeout": 0}, 0, False, _T_SRC),
    "g0s0": ({"graceful_timeout": 0, "shutdown_timeout": 0}, 0, False, _T_SRC),
    "g0s0-stuck": ({"graceful_timeout": 0, "shutdown_timeout": 0}, 0, False, _K_SRC),
    "st0": ({"startup_timeout": 0}, 0, False, _S_SRC),
    "st.5": ({"startup_timeout": 0.5}, 0, False, _S_SRC),
    "nest1": ({}, 1, False, _S_SRC),
    "nest2": ({}, 2, False, _S_SRC),
    "nest3": ({}, 3, False, _S_SRC),
    "nest2sib": ({}, 2, True, _S_SRC),
    "nest3sib": ({}, 3, True, _S_SRC),
}
# (startup script, shutdown script, variant) in both tiers / in the thorough tier only
VARIANT_SCENARIOS = (
    [("complete", sd, v) for v in ("g0", "g0-stuck", "s0", "g0s0", "g0s0-stuck") for sd in ("complete", "hang")] +
    [(su, "complete", "st0") for su in ("hang", "complete", "gated")] +
    [("hang", "complete", "st.5")] +
    [("failed", "complete", v) for v in ("nest1", "nest2", "nest3", "nest2sib", "nest3sib")] +
    [("failed_nomsg", "complete", "nest2"), ("failed_unwind", "complete", "nest3")] +
    [("raise_after_recv", "complete", v) for v in ("nest1", "nest2", "nest3")] +
    [("complete", "failed", "nest2")]
)
VARIANT_SCENARIOS_THOROUGH = (
    [("gated", "complete", "st.5"), ("complete", "complete", "st.5")] +
    [(su, sd, v) for v in ("g0", "g0-stuck", "s0", "g0s0", "g0s0-stuck") for su in SERVES for sd in SHUTDOWNS if (su, sd, v) not in VARIANT_SCENARIOS] +
    [(su, "complete", v) for su in ("failed_nomsg", "failed_unwind", "raise_after_recv", "raise_before", "unknown_msg")
     for v in ("nest1", "nest2", "nest3", "nest2sib") if (su, "complete", v) not in VARIANT_SCENARIOS] +
    [("complete", sd, v) for sd in ("failed", "failed_unwind", "raise") for v in ("nest1", "nest2", "nest3")
     if ("complete", sd, v) not in VARIANT_SCENARIOS]
)
BOUNDS_DOC["quick"] %= len(VARIANT_SCENARIOS)


class Nested:
    """The scripted application as a framework runs it that keeps the lifespan handler inside `depth` nested task
    groups / nurseries: whatever the handler raises reaches the server wrapped in that many ExceptionGroups (with
    `sibling`, another task of the outermost group has crashed as well).  Cancellation passes through untouched."""

    def __init__(self, inner: Any, depth: int, sibling: bool) -> None:
        self.inner, self.depth, self.sibling = inner, depth, sibling

    async def __call__(self, scope: dict, receive: Any, send: Any) -> None:
        if scope["type"] != "lifespan":
            return await self.inner(scope, receive, send)
        try:
            await self.inner(scope, receive, send)
        except Exception as error:
            wrapped: Exception = error
            for level in range(self.depth, 0, -1):
                members = [wrapped]
                if self.sibling and level == 1:
                    members = [AppCrash(), wrapped]
                wrapped = ExceptionGroup(f"task group at level {level}", members)
            raise wrapped


def _leaves(error: BaseException) -> List[str]:
    if isinstance(error, BaseExceptionGroup):
        return [name for sub in error.exceptions for name in _leaves(sub)]
    return [type(error).__name__]


def _variant(params: Any) -> tuple:
    return VARIANTS[params[4]] if len(params) > 4 else ({}, 0, False, None)


def scenarios(tier: str) -> List[Any]:
    out = []
    for engine in ("asyncio", "trio"):
        for su in STARTUPS:
            sds = list(SHUTDOWNS) if su in SERVES else ["complete"]
            for sd in sds:
                out.append((engine, "life", su, sd))
        out.append((engine, "state", "complete", "complete"))
        for su, sd, v in VARIANT_SCENARIOS + (VARIANT_SCENARIOS_THOROUGH if tier != "quick" else []):
            out.append((engine, "life", su, sd, v))
    return out


def bounds(tier: str, params: Any) -> dict:
    if tier == "quick":
        return {"M": 0, "S": 2, "R": 0}
    return {"M": 1, "S": 3, "R": 1 if params[0] == "trio" else 0}


def build(params: Any) -> tuple:
    engine, fam, su, sd = params[:4]
    cfg_extra, depth, sibling, keep = _variant(params)
    life = STARTUPS[su] + (SHUTDOWNS[sd] if su in SERVES else [])
    cfg = {"keep_alive_timeout": 50, "graceful_timeout": GRACE, "shutdown_timeout": SHUT_T, "startup_timeout": START_T,
           **cfg_extra}
    if fam == "state":
        apps = {"lifespan": life,
                "http:/a": [("recv_body",), ("log_state",), ("set_state", "x", "from-a"), ("gate", "ga"), ("log_state",)] + OK[1:],
                "http:/b": [("recv_body",), ("log_state",), ("set_state", "boot", "clobbered"), ("log_state",)] + OK[1:]}
        sources = [
            ("c0", [("connect", 0, {"carrier": "h1", "methods": [b"GET"]}), ("data", 0, h1_request(b"GET", b"/a"))]),
            ("c1", [("connect", 1, {"carrier": "h1", "methods": [b"GET"]}), ("data", 1, h1_request(b"GET", b"/b"))]),
            ("app", [("release", "ga")]),
            ("ctl", [("both_done",), ("shutdown",)]),
            ("clock", [("after_shutdown",), ("tick",), ("tick",)]),
        ]
    else:
        apps = {"lifespan": life, "http:/during": [("recv_body",), ("gate", "gd")] + OK[1:], "http": OK}
        sources = [
            ("early", [("connect", 0, {"carrier": "h1", "methods": [b"GET"]}), ("data", 0, h1_request(b"GET", b"/early"))]),
            ("life", [("release", "ls")]),
            ("during", [("started",), ("connect", 1, {"carrier": "h1", "methods": [b"GET"]}), ("data", 1, h1_request(b"GET", b"/during"))]),
            ("ctl", [("started",), ("shutdown",)]),
            ("app", [("release", "gd")]),
            ("late", [("after_shutdown",), ("connect", 2, {"carrier": "h1", "methods": [b"GET"]}), ("data", 2, h1_request(b"GET", b"/late"))]),
            ("clock", [("tick",)] * 4),
        ]
        if keep is not None:
            sources = [src for src in sources if src[0] in keep]
    guards = {
        "started": lambda w, ev=None: any(l[2].startswith("Running on") for l in w.logrec),
        "after_shutdown": lambda w, ev=None: w.shutdown_at is not None,
        "both_done": lambda w, ev=None: sum(1 for i in w.instances if i.type == "http" and len(i.sends) >= 1) >= 2,
    }
    sc = {"level": "serve", "client_factory": make_client, "apps": apps, "config": cfg, "sources": sources,
          "trio_rev": True, "guards": guards}
    if depth:
        sc["app_factory"] = lambda world: _asgi(Nested(ScriptApp(world, apps), depth, sibling))
    return engine, sc


def _asgi(app: Any) -> Any:
    from hypercorn.app_wrappers import ASGIWrapper

    return ASGIWrapper(app)


def oracle(w: Any, params: Any) -> List[dict]:
    engine, fam, su, sd = params[:4]
    out: List[dict] = []
    tag = f"{su}:{sd}" + (f":{params[4]}" if len(params) > 4 else "")
    # the timeouts of THIS scenario (a timeout of 0 has elapsed at the instant it starts)
    cfg = w.scenario["config"]
    start_t, shut_t, grace = cfg["startup_timeout"], cfg["shutdown_timeout"], cfg["graceful_timeout"]
    life = next((i for i in w.instances if i.type == "lifespan"), None)
    reqs = [i for i in w.instances if i.type in ("http", "websocket")]
    if life is None:
        if reqs:
            out.append(V("served-before-startup", f"{tag}:no-lifespan-scope", "request served although the lifespan app was never started"))
        return out + internal_errors(w)
    # --- ordering: lifespan.startup first; nothing served before startup is decided
    if life.received and life.received[0]["type"] != "lifespan.startup":
        out.append(V("startup-not-first", tag, f"first lifespan message {life.received[0]['type']}"))
    decided = None  # logical time at which serving may begin
    for rec, seqs in zip(life.sends, life.send_seq):
        if rec[2]["type"] == "lifespan.startup.complete" and rec[3] == "ok":
            decided = seqs[0]
            break
    if decided is None and (life.outcome == "returned" or (life.outcome or "").startswith("raised:")) \
            and "LifespanFailureError" not in (life.outcome or ""):
        decided = life.seq_end if hasattr(life, "seq_end") else 0  # lifespan unsupported: serving may begin once the app is gone
    first_req = min((i.seq_start for i in reqs), default=None)
    if first_req is not None:
        if decided is None:
            out.append(V("served-before-startup", f"{tag}:undecided", f"a request scope was created but startup never completed ({life.outcome})"))
        elif first_req < decided:
            out.append(V("served-before-startup", f"{tag}:early", f"request scope at logical time {first_req}, startup decided at {decided}"))
        if (life.recv_seq and first_req < life.recv_seq[0]) or (not life.recv_seq and life.outcome == "running"):
            out.append(V("served-before-startup", f"{tag}:before-startup-message", "request scope created before lifespan.startup was delivered"))
    # --- startup failure / timeout
    ticks_left = w.driver.pos[-1] < len(w.driver.sources[-1][1])
    if fam == "life":
        rel_fired = ("release", "ls") in [e for _, e in w.driver.fired]
        if su.startswith("failed") and rel_fired:
            sent = any(r[2]["type"] == "lifespan.startup.failed" and r[3] != "pending" for r in life.sends)
            if sent and life.outcome != "running" and (w.serve_result is None or not w.serve_result.startswith("exc:")):
                out.append(V("startup-failure-ignored", f"{tag}:result", f"worker_serve: {w.serve_result}"))
            if reqs:
                out.append(V("startup-failure-ignored", f"{tag}:served", "a request scope was created after startup.failed"))
        if su == "hang":
            if w.serve_result is None and ticks_left:
                out.append(V("startup-hang", tag, f"now {w.final_time}: no timer armed and worker_serve still waiting for startup"))
            if w.serve_result is not None and (not w.serve_result.startswith("exc:") or abs(w.serve_done_at - start_t) > 1e-9):
                out.append(V("startup-failure-ignored", f"{tag}:timeout", f"worker_serve: {w.serve_result} at {w.serve_done_at}"))
            if reqs:
                out.append(V("startup-failure-ignored", f"{tag}:served", "a request scope was created although startup never completed"))
        if su == "unknown_msg" and reqs and life.outcome == "running":
            out.append(V("served-before-startup", f"{tag}:undecided", "served while the lifespan app is still undecided"))
    # --- whatever the lifespan application does, worker_serve only ever fails with the documented lifespan errors
    if w.serve_result is not None and w.serve_result.startswith("exc:"):
        kind = w.serve_result.split(":")[1]
        names = set(kind[kind.index("[") + 1:-1].split(",")) if "[" in kind else {kind}
        task = getattr(w, "serve_task", None)  # (the asyncio engine records the group's own name only: name its leaves)
        if "[" not in kind and task is not None and task.done() and not task.cancelled() \
                and isinstance(task.exception(), BaseExceptionGroup):
            names = set(_leaves(task.exception()))
            kind += "[" + ",".join(sorted(names)) + "]"
        if not names <= {"LifespanFailureError", "LifespanTimeoutError"}:
            out.append(V("serve-crashed", f"{tag}:{kind}", f"worker_serve raised {w.serve_result}"))
    # --- shutdown
    if su in SERVES and w.shutdown_at is not None and decided is not None:
        t0 = w.shutdown_at
        n = sum(1 for m in life.delivered() if m["type"] == "lifespan.shutdown")
        settled = w.serve_result is not None or not ticks_left
        if n > 1 or (n == 0 and settled):
            out.append(V("shutdown-count", f"{tag}:{n}", f"{n} lifespan.shutdown messages; worker_serve {w.serve_result}"))
        for (t, what, m) in life.log:
            if what == "recv" and m["type"] == "lifespan.shutdown" and t < t0 + grace - 1e-9:
                # connections accepted before the trigger whose handler had not finished by the instant of the
                # delivery (a strictly later completion, or none at all; same-instant order is not judged)
                busy = [k for k, rec in w.conns.items() if not rec.refused and rec.opened_at <= t0 and
                        any(i.scope.get("client") and i.scope["client"][1] == 40000 + k for i in reqs) and
                        (rec.handler_done_at is None and rec.closed_at is None or
                         (rec.handler_done_at is not None and rec.handler_done_at > t))]
                if busy:
                    out.append(V("shutdown-early", tag, f"lifespan.shutdown at {t} (t0={t0}) while connections {busy} were still open"))
        # the same by the logical clock (orders events inside one virtual instant): a request instance that was
        # running when lifespan.shutdown was delivered and only ended afterwards, inside the grace period
        for m, sq, (t, what, _) in zip(life.received, life.recv_seq, [l for l in life.log if l[1] == "recv"]):
            if m["type"] != "lifespan.shutdown" or t >= t0 + grace - 1e-9:
                continue
            over = [i.scope.get("path") for i in reqs if i.seq_start < sq and (i.seq_end is None or i.seq_end > sq)
                    and i.outcome != "running"]
            if over:
                out.append(V("shutdown-early", f"{tag}:request-still-running",
                             f"lifespan.shutdown delivered at {t} (t0={t0}) before request(s) {over} had finished"))
        # connections are given until the graceful timeout: a request in progress at the trigger is not cancelled earlier
        for i in reqs:
            if i.outcome == "cancelled" and i.t_end is not None and i.t_end < t0 + grace - 1e-9 and i.t_start <= t0 \
                    and not any(r.client_reset or r.client_eof or r.lost_at is not None for r in w.conns.values()):
                out.append(V("shutdown-early", f"{tag}:request-cancelled-before-grace",
                             f"request {i.scope.get('path')} cancelled at {i.t_end}, trigger at {t0}, graceful_timeout {grace}"))
        if w.serve_result is None and ticks_left and fam == "life":
            out.append(V("shutdown-hang", tag, f"now {w.final_time}, t0={t0}: no timer armed and worker_serve has not returned"))
        if w.serve_result is not None and w.serve_done_at > t0 + grace + shut_t + 1e-9:
            out.append(V("shutdown-hang", f"{tag}:late", f"worker_serve returned at {w.serve_done_at}, t0={t0}"))
    # --- state isolation
    if fam == "state":
        a = next((i for i in reqs if i.scope.get("path") == "/a"), None)
        b = next((i for i in reqs if i.scope.get("path") == "/b"), None)
        for inst, name in ((a, "a"), (b, "b")):
            if inst is None:
                continue
            states = [d for (_, what, d) in inst.log if what == "state"]
            if states and states[0] != {"boot": 1}:
                out.append(V("state-shared", f"{name}:initial", f"connection scope state started as {states[0]}, lifespan state is {{'boot': 1}}"))
        if a is not None and b is not None:
            sa = [d for (_, what, d) in a.log if what == "state"]
            sb = [d for (_, what, d) in b.log if what == "state"]
            if any("x" in d for d in sb):
                out.append(V("state-shared", "a-visible-in-b", f"b saw {sb}"))
            if len(sa) > 1 and sa[-1].get("boot") != 1:
                out.append(V("state-shared", "b-visible-in-a", f"a saw {sa}"))
        ls = [d for (_, what, d) in life.log if what == "state"]
        if ls and ls[-1] != {"boot": 1}:
            out.append(V("state-shared", "connection-visible-in-lifespan", f"lifespan scope state at shutdown: {ls[-1]}"))
    out.extend(internal_errors(w))
    return out


execute = std_execute(build, oracle)


# wave h documentation (what was added to the enumeration; see DESIGN.md 11.0)
_WAVE_H = "+ startup 'bogus_caught' (an unknown lifespan message is refused, the application catches that and carries on) x every shutdown program"
RULE = RULE + " " + _WAVE_H
BOUNDS_DOC = {k: v + " " + _WAVE_H for k, v in BOUNDS_DOC.items()}
