"""C07 - idle connections time out, busy ones do not, dead ones are released.

Explorer A over session histories x placement of clock events (pauses shorter than any deadline and
jumps to the next deadline) x peer loss (EOF / reset / failed write) / shutdown at every position.
The oracle is a reference idle automaton computed from *observable* instants in virtual time:
connection open, application-instance creation (= request head complete), client-parsed end of
response, return of a WebSocket application, server close, handler completion.

WebSocket sessions: a WebSocket request is in progress until its application has returned and the
socket is open from the accept until the application closes it or returns.  Histories in which the
APPLICATION ends the session (rejects the handshake with 403, denies it with websocket.http.response,
complete or truncated, returns undecided, or accepts, closes and returns) and the client then stays
silent - no echoed Close frame, no EOF - over HTTP/1.1 and over HTTP/2 extended CONNECT: afterwards
nothing is in progress, so the connection is closed by the server (HTTP/1.1: at any time, it cannot be
reused) or idles out after keep_alive_timeout (HTTP/2), at once at shutdown; after peer loss the
handler finishes.

Clauses
  idle-never-closed     final quiescence, peer alive, nothing in progress, yet no timer armed and not closed
  idle-close-late/early server closed an idle reusable connection at t != idle_start + T (exact virtual instants)
  closed-while-busy     server closed between head completion and end of response / while a WebSocket is open
                        (accepted, neither closed by its application nor returned)
  not-closed-at-shutdown idle connection not closed at once when shutdown had begun
  handler-not-finished  peer gone or server closed, every application returned, but handler/transport/tasks remain
  handler-lingers       ... finished, but only after virtual time passed (a timer was needed)
"""
from __future__ import annotations

from typing import Any, List, Optional

from mc.clients import (OP_TEXT, h1_request, h2_request_headers, make_client, ws_frame, ws_h1_handshake,
                        ws_h2_headers)
from mc.explore import V
from mc.harness import internal_errors, std_execute

ID = "C07"
LEVEL = "model_checking"
TECHNIQUE = ("stateless deviation-bounded exploration of the real connection handler under a virtual clock; "
             "reference idle-timer automaton over observed virtual instants, keep_alive_timeout at 4 / 0.5 and at its boundary 0; a read_timeout axis on histories whose "
             "reader is parked inside the protocol while a request is in progress")
RULE = ("scenario = engine x session history (HTTP/1.1 keep-alive and pipelines, HTTP/2 streams, error responses, "
        "WebSocket sessions ended by either side over HTTP/1.1 and HTTP/2) x keep_alive_timeout x (clock placement | peer-loss kind | shutdown); "
        "clock pauses/ticks, gate releases and the fault are separate sources interleaved at every position within "
        "bounds; non-trivial = instance ran and a non-default choice was taken; distinct by observation digest")
ASSUMPTIONS = [
    "time enters only through which timers fired before each event (virtual clock; exact instants compared)",
    "a timer firing at the very instant a request head arrives may legitimately win (not judged)",
    "environment model bound to real sockets by ./check selftest",
    "keep_alive_timeout = 0 means 'at once' (the statement: closed once idle for keep_alive_timeout): the idle deadline of "
    "a fresh connection coincides with its opening, so most executions close it before any byte is read; a request is "
    "served at T = 0 only when its head arrives mid-flight ahead of the timer (asyncio) - busy intervals at T = 0 are "
    "covered by those executions only",
    "read_timeout axis (histories *_rt, read_timeout 6 > keep_alive_timeout): chosen so that the reader waits for bytes "
    "only while the connection is idle (the shorter idle timer decides) and is parked inside the protocol whenever a "
    "request is in progress; histories on which a busy connection's reader waits for bytes - where the read deadline "
    "may legitimately close it - are not generated under read_timeout",
]
BOUNDS_DOC = {"quick": "M<=1, S<=2, R=0 plus trio M=0,S<=2,R<=2; T in {4}, and T = 0 on 16 of the histories (ZERO_HISTORIES); %d session histories (3 of them with read_timeout 6) x (clock | 4 loss/shutdown kinds)",
              "thorough": "M<=2, S<=3, trio R<=1; T in {0.5, 4}, and T = 0 on every history without a read_timeout"}
BUDGET = {"quick": 300, "thorough": 1800}

OK200 = {"type": "http.response.start", "status": 200, "headers": [(b"content-length", b"2")]}
BODY = {"type": "http.response.body", "body": b"ok", "more_body": False}
RESPOND = [("recv_body",), ("send", OK200), ("send", BODY), ("recv_until_disconnect",)]
GATED = [("recv_body",), ("gate", "g1"), ("send", OK200), ("send", BODY), ("recv_until_disconnect",)]
NOSEND = [("recv_body",), ("gate", "g1"), ("return",)]

# WebSocket sessions the APPLICATION ends before it returns; the client stays silent afterwards (it neither echoes the
# Close frame nor closes), so releasing the connection is entirely up to the server
WS_ACCEPT = {"type": "websocket.accept"}
WS_REJECT = [("recv",), ("send", {"type": "websocket.close"}), ("return",)]  # 403
WS_DENY = [("recv",), ("send", {"type": "websocket.http.response.start", "status": 401, "headers": [(b"content-length", b"2")]}),
           ("send", {"type": "websocket.http.response.body", "body": b"no"}), ("return",)]
WS_DENY_PARTIAL = [("recv",), ("send", {"type": "websocket.http.response.start", "status": 401, "headers": []}),
                   ("send", {"type": "websocket.http.response.body", "body": b"n", "more_body": True}), ("return",)]
WS_APP_CLOSE = [("recv",), ("send", WS_ACCEPT), ("gate", "g1"), ("send", {"type": "websocket.send", "text": "bye"}),
                ("send", {"type": "websocket.close", "code": 1000}), ("return",)]
WS_EXIT = [("recv",), ("return",)]  # returns with the handshake undecided: 500
WS_H1 = ({"carrier": "ws/h1"}, [("data", 0, ws_h1_handshake(b"/w"))])
WS_H2 = ({"carrier": "ws/h2", "tls": True, "alpn": "h2"},
         [("cmd", 0, "preface"), ("cmd", 0, "ws_open", 1), ("cmd", 0, "headers", 1, ws_h2_headers(b"/w"), False)])

BIGPOST = h1_request(b"POST", b"/a", chunked=[b"c%d" % i for i in range(14)])
GET = h1_request(b"GET", b"/a")
GET2 = h1_request(b"GET", b"/b")

HISTORIES = {
    # name: (conn opts, client events, apps, config extra)
    "none": ({"carrier": "h1"}, [], {"http": RESPOND}, {}),
    "partial": ({"carrier": "h1"}, [("data", 0, GET[:9])], {"http": RESPOND}, {}),
    "one": ({"carrier": "h1"}, [("data", 0, GET)], {"http": RESPOND}, {}),
    "two": ({"carrier": "h1"}, [("data", 0, GET), ("data", 0, GET2)], {"http": RESPOND}, {}),
    "pipe": ({"carrier": "h1"}, [("data", 0, GET + GET2)], {"http": RESPOND}, {}),
    "one_partial": ({"carrier": "h1"}, [("data", 0, GET + GET2[:9])], {"http": RESPOND}, {}),
    "one_then_partial": ({"carrier": "h1"}, [("data", 0, GET), ("data", 0, GET2[:9])], {"http": RESPOND}, {}),
    "gated_partial": ({"carrier": "h1"}, [("data", 0, GET + GET2[:9])], {"http": GATED}, {}),
    # more request-body messages than the application queue holds (10), for an application that answers
    # and returns without ever reading them
    "unread_big": ({"carrier": "h1", "methods": [b"POST"]},
                   [("data", 0, BIGPOST[:70]), ("data", 0, BIGPOST[70:])],
                   {"http": [("send", OK200), ("send", BODY)]}, {}),
    "unread_big_h2": ({"carrier": "h2", "tls": True, "alpn": "h2"},
                      [("cmd", 0, "preface"), ("cmd", 0, "headers", 1, h2_request_headers(b"POST", b"/a"), False)] +
                      [("cmd", 0, "datan", 1, b"c%d" % i, i == 13) for i in range(14)],
                      {"http": [("send", OK200), ("send", BODY)]}, {}),
    "gated": ({"carrier": "h1"}, [("data", 0, GET)], {"http": GATED}, {}),
    "pipe_gated": ({"carrier": "h1"}, [("data", 0, GET + GET2)], {"http:/a": GATED, "http:/b": RESPOND}, {}),
    # the mirror image: the first answers at once, the second (already buffered when the first completes) is gated
    "pipe_gated2": ({"carrier": "h1"}, [("data", 0, GET + GET2)], {"http:/a": RESPOND, "http:/b": GATED}, {}),
    "pipe_nosend": ({"carrier": "h1"}, [("data", 0, GET + GET2)], {"http:/a": NOSEND, "http:/b": RESPOND}, {}),
    # read_timeout axis (config.read_timeout = 6 > every keep_alive_timeout used here; all other histories: None).
    # Histories on which the reader is PARKED inside the protocol for as long as the gate is closed - a pipelined
    # (partial) request behind the unfinished response, a request body larger than the application queue (10) in
    # front of an application that has not started reading - and waits for bytes only while the connection is idle:
    # no read deadline runs while parked, so the busy connection is never closed however long the gate stays
    # closed, and once idle the idle timer (shorter) is what closes it.
    "pipe_gated_rt": ({"carrier": "h1"}, [("data", 0, GET + GET2)], {"http:/a": GATED, "http:/b": RESPOND}, {"read_timeout": 6}),
    "gated_partial_rt": ({"carrier": "h1"}, [("data", 0, GET + GET2[:9])], {"http": GATED}, {"read_timeout": 6}),
    "body_gated_rt": ({"carrier": "h1"}, [("data", 0, BIGPOST)],
                      {"http": [("gate", "g1"), ("recv_body",), ("send", OK200), ("send", BODY), ("recv_until_disconnect",)]},
                      {"read_timeout": 6}),
    "badhost": ({"carrier": "h1"}, [("data", 0, h1_request(b"GET", b"/a", host=b"other"))], {"http": RESPOND},
                {"server_names": ["hypercorn"]}),
    "malformed": ({"carrier": "h1"}, [("data", 0, b"GET / HTTP/1.1\r\nbad header\r\n\r\n")], {"http": RESPOND}, {}),
    "badws": ({"carrier": "h1"},
              [("data", 0, h1_request(b"GET", b"/w", [(b"Upgrade", b"websocket"), (b"Connection", b"Upgrade")]))],
              {"websocket": [("recv",), ("send", {"type": "websocket.accept"}), ("recv_until_disconnect",)]}, {}),
    "ws": ({"carrier": "ws/h1"}, [("data", 0, ws_h1_handshake(b"/w")), ("data", 0, ws_frame(OP_TEXT, b"yo"))],
           {"websocket": [("recv",), ("send", {"type": "websocket.accept"}), ("recv_until_disconnect",)]}, {}),
    "badhost_h2": ({"carrier": "h2", "tls": True, "alpn": "h2"},
                   [("cmd", 0, "preface"),
                    ("cmd", 0, "headers", 1, h2_request_headers(b"GET", b"/a", authority=b"other"), True)],
                   {"http": RESPOND}, {"server_names": ["hypercorn"]}),
    # the application ends the WebSocket itself and returns, over HTTP/1.1 (the upgraded connection cannot be reused:
    # the server closes it) and over HTTP/2 extended CONNECT (the connection has no open stream left: it idles out)
    "ws_reject": (*WS_H1, {"websocket": WS_REJECT}, {}),
    "ws_deny": (*WS_H1, {"websocket": WS_DENY}, {}),
    "ws_deny_partial": (*WS_H1, {"websocket": WS_DENY_PARTIAL}, {}),
    "ws_app_close": (*WS_H1, {"websocket": WS_APP_CLOSE}, {}),
    "ws_exit": (*WS_H1, {"websocket": WS_EXIT}, {}),
    "ws_h2_reject": (*WS_H2, {"websocket": WS_REJECT}, {}),
    "ws_h2_deny": (*WS_H2, {"websocket": WS_DENY}, {}),
    "ws_h2_app_close": (*WS_H2, {"websocket": WS_APP_CLOSE}, {}),
    "ws_h2_exit": (*WS_H2, {"websocket": WS_EXIT}, {}),
    # HTTP/2 by prior knowledge (cleartext preface): no stream is ever opened / one request is served
    "h2pk_none": ({"carrier": "h2pk"}, [("cmd", 0, "preface")], {"http": RESPOND}, {}),
    "h2pk_one": ({"carrier": "h2pk"},
                 [("cmd", 0, "preface"), ("cmd", 0, "headers", 1, h2_request_headers(b"GET", b"/a", scheme=b"http"), True)],
                 {"http": RESPOND}, {}),
    # requests the HTTP/2 layer refuses itself: plain CONNECT (400) and a non-ASCII :path (RST_STREAM)
    "h2_refused": ({"carrier": "h2", "tls": True, "alpn": "h2"},
                   [("cmd", 0, "preface"),
                    ("cmd", 0, "headers", 1, [(b":method", b"CONNECT"), (b":authority", b"hypercorn")], True),
                    ("cmd", 0, "headers", 3, h2_request_headers(b"GET", b"/caf\xc3\xa9"), True)],
                   {"http": RESPOND}, {}),
    "h2_none": ({"carrier": "h2", "tls": True, "alpn": "h2"}, [("cmd", 0, "preface")], {"http": RESPOND}, {}),
    "h2_one": ({"carrier": "h2", "tls": True, "alpn": "h2"},
               [("cmd", 0, "preface"), ("cmd", 0, "headers", 1, h2_request_headers(b"GET", b"/a"), True)],
               {"http": RESPOND}, {}),
    "h2_gated": ({"carrier": "h2", "tls": True, "alpn": "h2"},
                 [("cmd", 0, "preface"), ("cmd", 0, "headers", 1, h2_request_headers(b"GET", b"/a"), True),
                  ("cmd", 0, "headers", 3, h2_request_headers(b"GET", b"/b"), True)],
                 {"http:/a": GATED, "http:/b": RESPOND}, {}),
    # the client resets its only stream (application still running / response already complete)
    "h2_rst": ({"carrier": "h2", "tls": True, "alpn": "h2"},
               [("cmd", 0, "preface"), ("cmd", 0, "headers", 1, h2_request_headers(b"GET", b"/a"), True),
                ("cmd", 0, "rst", 1, 8)],
               {"http": GATED}, {}),
    "h2_rst_post": ({"carrier": "h2", "tls": True, "alpn": "h2"},
                    [("cmd", 0, "preface"), ("cmd", 0, "headers", 1, h2_request_headers(b"POST", b"/a"), False),
                     ("cmd", 0, "datan", 1, b"abc", False), ("cmd", 0, "rst", 1, 8)],
                    {"http": RESPOND}, {}),
    # the peer has stopped reading; the application writes a window-full (the transport fills up: the last write
    # waits) and then abandons its response - the server's RST_STREAM waits behind that write - and a new request
    # arrives during the wait, before the peer reads again
    "h2_abort_paused": ({"carrier": "h2", "tls": True, "alpn": "h2"},
                        [("cmd", 0, "preface"), ("cmd", 0, "headers", 1, h2_request_headers(b"GET", b"/a"), True),
                         ("pause", 0),
                         ("cmd", 0, "headers", 3, h2_request_headers(b"GET", b"/slow"), True),
                         ("resume", 0)],
                        {"http:/a": [("recv_body",), ("gate", "g1"), ("send", {"type": "http.response.start", "status": 200, "headers": []}),
                                     ("send", {"type": "http.response.body", "body": b"B" * 65535, "more_body": True}), ("return",)],
                         "http:/slow": [("recv_body",), ("gate", "never"), ("send", OK200), ("send", BODY)]}, {}),
}
FAULTS = ["eof", "reset", "wfail", "terminate"]
# keep_alive_timeout = 0 ("closed once it has been idle for keep_alive_timeout": at the instant it becomes idle, never
# while busy), on these histories in the quick tier / on every history without its own read_timeout in the thorough tier
T_ZERO = 0
ZERO_HISTORIES = {True: ("none", "partial", "one", "two", "one_then_partial", "gated", "pipe_gated", "malformed", "ws",
                         "ws_app_close", "ws_h2_app_close", "h2pk_none", "h2_none", "h2_one", "h2_gated", "h2_rst"),
                  False: tuple(n for n in HISTORIES if not n.endswith("_rt"))}
BOUNDS_DOC["quick"] %= len(HISTORIES)


def scenarios(tier: str) -> List[Any]:
    out = []
    ts = [4.0] if tier == "quick" else [4.0, 0.5]
    for engine in ("asyncio", "trio"):
        for name in HISTORIES:
            for t in ts + ([T_ZERO] if name in ZERO_HISTORIES[tier == "quick"] else []):
                out.append(("idle", engine, name, t))
            for fault in FAULTS:
                out.append(("dead", engine, name, fault))
            if engine == "trio":
                out.append(("idle", engine, name, 4.0, "rev"))
                if name in ZERO_HISTORIES[True]:
                    out.append(("idle", engine, name, T_ZERO, "rev"))
                for fault in FAULTS:
                    out.append(("dead", engine, name, fault, "rev"))
    return out


def bounds(tier: str, params: Any) -> dict:
    if len(params) > 4:  # trio's own scheduling freedom, environment events at quiescence only
        return {"M": 0, "S": 2, "R": 2}
    if tier == "quick":
        return {"M": 1, "S": 2, "R": 0}
    return {"M": 2, "S": 3, "R": 1 if params[1] == "trio" else 0}


def build(params: Any) -> tuple:
    kind, engine, name, x = params[:4]
    conn, client, apps, cfg = HISTORIES[name]
    conn = dict(conn)
    if conn["carrier"] == "h1":
        conn["methods"] = [b"GET", b"GET"]
    t = x if kind == "idle" else 4.0
    sources = [("client", list(client)), ("app", [("release", "g1")])]
    if kind == "idle" and t == 0:
        # keep_alive_timeout = 0: no pause is shorter than the idle deadline; a lapse of 1 is possible only while no timer
        # is armed at all (a request in progress, a WebSocket open - or an idle connection that was wrongly left alone)
        sources.append(("clock", [("pause_dt", 1.0), ("tick",), ("pause_dt", 1.0)] + [("tick",)] * 6))
    elif kind == "idle":
        sources.append(("clock", [("pause_dt", t / 2), ("tick",), ("pause_dt", t / 2)] + [("tick",)] * 6))
    else:
        fault = {"eof": ("eof", 0), "reset": ("reset", 0), "wfail": ("wfail", 0), "terminate": ("terminate",)}[x]
        sources.append(("fault", [fault]))
        sources.append(("clock", [("tick",)] * 6))
    sc = {"level": "conn", "conns": {0: conn}, "client_factory": make_client, "apps": apps,
          "config": {"keep_alive_timeout": t, **cfg}, "sources": sources, "trio_rev": True}
    if any(e[0] == "pause" for e in client):
        # while the peer is not reading, "end of response" is not observable by the client: time only passes once it
        # has resumed (the clock source waits), so the client-side instants the oracle uses stay meaningful
        # (likewise the peer is only lost once it reads again: a peer that half-closes and never reads keeps the
        # server flushing for ever, which is back-pressure - C08 - not an idle connection)
        for j, (name_, evs) in enumerate(sources):
            if name_ in ("clock", "fault"):
                sources[j] = (name_, [("resumed",)] + evs)
        sc["guards"] = {"resumed": _resumed}
    return engine, sc


def _resumed(w: Any, ev: Any = None) -> bool:
    return any(e[0] == "resume" for _, e in w.driver.fired)


def _responses(w: Any) -> List[dict]:
    """Client-observed responses/streams in a uniform shape: complete?, t_end, announced close?, instance idx."""
    rec = w.conns[0]
    cl = rec.client
    out = []
    if cl.h2 is not None:
        # a stream the client reset itself is over at that instant, whatever the server had sent by then
        client_rst = {e[3]: t for t, e in w.driver.fired if e[0] == "cmd" and e[2] == "rst"}
        seen = set()
        for sid, st in sorted(cl.h2.streams.items()):
            seen.add(sid)
            done = bool(st["ended"]) or st["reset"] is not None
            t_end = st["t_end"]
            if not done and sid in client_rst:
                done, t_end = True, client_rst[sid]
            out.append({"complete": done, "t_end": t_end, "close": False, "status": st["status"]})
        for sid, t in sorted(client_rst.items()):
            if sid not in seen:
                out.append({"complete": True, "t_end": t, "close": False, "status": None})
    elif cl.h1 is not None:
        for r in cl.h1.responses:
            if r["status"] == 101:
                continue
            hdrs = [(n.lower(), v.lower()) for n, v in r["headers"]]
            close = (b"connection", b"close") in hdrs or r.get("version") == b"1.0"
            out.append({"complete": r["complete"], "t_end": r["t_end"], "close": close, "status": r["status"]})
    return out


def oracle(w: Any, params: Any) -> List[dict]:
    kind, engine, name, x = params[:4]
    out: List[dict] = []
    rec = w.conns[0]
    t_keep = w.scenario["config"]["keep_alive_timeout"]
    carrier = w.scenario["conns"][0]["carrier"]
    fired = w.driver.fired
    loss = [(t, e[0]) for t, e in fired if e[0] in ("eof", "reset")]
    if rec.lost_at is not None:
        loss.append((rec.lost_at, "wfail"))
    t_loss = min((t for t, _ in loss), default=None)
    t_term = next((t for t, e in fired if e[0] == "terminate"), None)
    resps = _responses(w)
    insts = [i for i in w.instances if i.type in ("http", "websocket")]
    # A WebSocket request is in progress from its head until its application has returned; the WebSocket itself is
    # open from the accepted handshake until the application closes it or returns.  Once every WebSocket application
    # has returned nothing is in progress any more (the client staying silent does not keep the connection busy).
    ws_insts = [i for i in insts if i.type == "websocket"]
    ws_running = any(i.outcome == "running" for i in ws_insts)
    ws_done = [i.t_end for i in ws_insts if i.outcome != "running" and i.t_end is not None]
    # WebSocket frames that arrive before the application has decided the handshake make the stream answer 400 by
    # itself: the stream-generated error response of KF-C07-stream-error-no-close (never followed by a close; its
    # witness histories are badhost / badws).  It is reported under its own key suffix so that the known-findings entry
    # can name it (no application here answers 400, so the status identifies it).
    ws_refused = bool(ws_insts) and any(r["complete"] and r["status"] == 400 for r in resps)
    http_insts = [i for i in insts if i.type == "http"]
    # requests in progress: instances whose response the client has not seen complete
    n_complete_app = sum(1 for r in resps if r["complete"] and r["status"] not in (400, 404) or
                         (r["complete"] and r["status"] in (400, 404) and False))
    in_progress = len(http_insts) > sum(1 for r in resps if r["complete"] and _from_app(r, name))
    tc = rec.closed_at
    tag = f"{carrier}:{name}" + (":badws-frame-before-accept" if ws_refused else "")
    cl_h1 = rec.client.h2 is None

    # ---- idle clauses (only while the peer is alive)
    if t_loss is None or (tc is not None and tc < t_loss):
        ends = [rec.opened_at] + [r["t_end"] for r in resps if r["complete"] and r["t_end"] is not None]
        if tc is None:
            if not in_progress and not ws_running and kind == "idle":
                # spare ticks remain in the clock source, so an armed timer would have fired
                out.append(V("idle-never-closed", tag, f"open since {rec.opened_at}, last activity {max(ends)}, now {w.final_time}"))
            if t_term is not None and not in_progress and not ws_running:
                out.append(V("not-closed-at-shutdown", tag, f"terminate at {t_term}, now {w.final_time}"))
        else:
            started_before = [i for i in http_insts if i.t_start < tc or (i.t_start == tc and False)]
            done_before = [r for r in resps if r["complete"] and _from_app(r, name) and r["t_end"] <= tc]
            busy = len(started_before) > len(done_before)
            ws_busy = any(a is not None and a < tc and (o is None or tc < o) for a, o in map(_ws_open_interval, ws_insts))
            crashed = any(i.outcome in ("raised:AppCrash",) or (i.outcome == "returned" and not any(
                s[2].get("type") == "http.response.body" for s in i.sends)) for i in http_insts)
            if (busy or ws_busy) and not crashed and t_term is None:
                out.append(V("closed-while-busy", tag, f"closed at {tc}; started {[i.t_start for i in started_before]}"))
            elif not busy and not ws_busy and not crashed:
                last = max(e for e in ends if e <= tc)
                announced = any(r["close"] for r in resps if r["complete"] and r["t_end"] == last) or any(
                    r["status"] in (400, 404, 500) for r in resps if r["complete"] and r["t_end"] == last)
                # an HTTP/1.1 connection that carried a WebSocket request cannot be reused: once that application has
                # returned the server may close whenever it likes (it must close by idle expiry: idle-never-closed)
                announced = announced or (cl_h1 and any(t <= tc for t in ws_done))
                # over HTTP/2 the stream of a finished WebSocket is gone once its application has returned, which may
                # be later than the end of stream the client saw: lateness is judged from the later instant, earliness
                # from the earlier one
                last_seen = last
                last = max([last] + [t for t in ws_done if t <= tc])
                same_instant_head = any(i.t_start == tc for i in insts)
                if not announced and not same_instant_head:
                    want = last + t_keep
                    if t_term is not None and t_term < want:
                        want = max(last, t_term)
                    # an application still running for a stream its client has reset is not "a request in
                    # progress" for the client, yet its late sends may re-arm the timer: lateness is judged from
                    # the last such activity (demanding less than the statement might)
                    orphan = [t for i in http_insts for (_, t1, _, _) in i.sends for t in [t1] if t is not None and t <= tc] \
                        if any(e[0] == "cmd" and e[2] == "rst" for _, e in fired) else []
                    late_from = max([last] + orphan) + t_keep
                    if t_term is not None and t_term < late_from:
                        late_from = max(last, t_term) if not orphan else max(max(orphan), t_term)
                    if tc > max(want, late_from) + 1e-9:
                        out.append(V("idle-close-late", tag, f"closed at {tc}, idle since {last}, T={t_keep}, want {want}"))
                    elif tc < want - (last - last_seen) - 1e-9:
                        out.append(V("idle-close-early", tag, f"closed at {tc}, idle since {last}, T={t_keep}, want {want}"))

    # ---- dead clauses
    gone = t_loss is not None or tc is not None
    if gone and all(i.outcome != "running" for i in w.instances):
        t_gone = min(x for x in (t_loss, tc) if x is not None)
        t_apps = max([i.t_end for i in w.instances if i.t_end is not None], default=0.0)
        conn_tasks = [t for t in w.live_tasks]
        if rec.handler is None or rec.closed_at is None or conn_tasks:
            where = ";".join(sorted({str(t[1]).split(">")[-1].split(":")[0] for t in conn_tasks}))
            out.append(V("handler-not-finished", f"{tag}:{_cause(loss, tc, t_term)}:{where}",
                         f"handler={rec.handler} closed_at={rec.closed_at} live={conn_tasks}"))
        elif rec.handler_done_at is not None and rec.handler_done_at > max(t_gone, t_apps) + 1e-9:
            out.append(V("handler-lingers", f"{tag}:{_cause(loss, tc, t_term)}",
                         f"gone at {t_gone}, apps done {t_apps}, handler done {rec.handler_done_at}"))
    out.extend(internal_errors(w))
    return out


def _ws_open_interval(i: Any) -> tuple:
    """(accepted at, over at) of a WebSocket instance: open from the accept until the application's own
    websocket.close or its return, whichever is first (None: never accepted / still open)."""
    acc = next((s[1] for s in i.sends if s[2].get("type") == "websocket.accept" and s[3] == "ok"), None)
    over = [s[1] for s in i.sends if s[2].get("type") == "websocket.close" and s[3] == "ok" and s[1] is not None]
    if i.outcome != "running" and i.t_end is not None:
        over.append(i.t_end)
    return acc, (min(over) if over else None)


def _from_app(r: dict, name: str) -> bool:
    """Whether a response was produced by an application instance (not generated by the server before one)."""
    if name in ("badhost", "malformed", "badws", "badhost_h2", "h2_refused"):
        return False
    return True


def _cause(loss: list, tc: Optional[float], t_term: Optional[float]) -> str:
    if loss:
        return sorted(loss)[0][1]
    if t_term is not None:
        return "terminate"
    return "server-close"


execute = std_execute(build, oracle)
