"""C09 - HTTP/2 flow control is respected; multiplexed delivery is live and ordered.

One h2 connection, 1..3 streams whose applications write gated chunkings; the client starts with a
small initial window / frame size and hands out credit through explicit events (WINDOW_UPDATE on a
stream or the connection, SETTINGS changing INITIAL_WINDOW_SIZE, PRIORITY, RST_STREAM).  Credit
events, gate releases and request arrival are separate sources, so Explorer A enumerates their
interleavings (this drives the has_data / priority-tree wake-up protocol of the send task through
every order within the bounds).

Single-path (M=0) families on top of the grid: responses that end with TRAILERS (te: trailers; with and
without body bytes, next to an ordinary stream, at window 0 and 65 535) and config.h2_max_concurrent_streams =
N in {2, 3} with a client that holds exactly N gated streams open at once (or N-1 plus a PRIORITY frame naming an
idle stream): everything the client was told it may do.

Oracle
  client-rejects-frame   the independent h2 client state machine raises on server output
                         (flow-control window or max-frame-size overrun, bad stream state)
  data-mismatch          a non-reset stream's DATA is not a prefix of / equal to the app's chunks in order
  end-stream             END_STREAM count != 1 on a stream whose application completed and all data was delivered,
                         or END_STREAM before the last byte
  stalled-with-credit    at a quiescent point a stream has bytes the application already submitted, positive
                         stream and connection windows at the client, and yet nothing is being sent
  sibling-blocked        a stream with credit did not complete because another is stalled or reset
  send-not-released      an application still waits in send() although all it has submitted reached the client
                         (a body piece, or the trailers once every body byte is there)
  not-delivered          the initial windows cover every response, the client resets nothing and spoke its preface
                         first, yet at the end of the execution a requested stream lacks data or its one END_STREAM
  never-yields/livelock  the server spins instead of going quiescent (watchdog / step cap)
"""
from __future__ import annotations

from typing import Any, Dict, List

import h2.settings

from mc.clients import h2_request_headers, make_client
from mc.explore import V
from mc.harness import internal_errors, std_execute

ID = "C09"
LEVEL = "model_checking"
TECHNIQUE = ("stateless deviation-bounded exploration of credit/reset/priority events against gated application "
             "writes on the real H2Protocol send task; independent h2 client state machine as flow-control oracle")
RULE = ("scenario = engine x initial window x frame size x stream set (chunkings, with / without trailers) x credit script "
        "[x h2_max_concurrent_streams N with N concurrent streams]; sources client, "
        "credit, app are interleaved by Explorer A within (M,S) bounds; non-trivial = instance ran and non-default "
        "choice taken; distinct by digest of per-stream client events and send outcomes")
ASSUMPTIONS = [
    "the h2 library's client role is the reference for window / frame-size accounting",
    "promptness is judged at quiescent points only (nothing runnable, no due timer)",
    "not-delivered is demanded only where no credit is needed at all (every response fits the initial stream window "
    "and all of them the 65 535 B connection window), for streams whose HEADERS were sent by a client that sent its "
    "preface first",
    "trailers streams: END_STREAM is due once the application has handed over http.response.trailers (it travels on "
    "their HEADERS frame); whether the trailers' fields arrive is C02's",
]
BOUNDS_DOC = {"quick": "M<=1, S<=2; windows {0,1,7,65535}; <=3 streams; trailers (5 sets) and max-concurrent-streams N in {2,3} "
                       "(3 sets): M=0, S<=1 (thorough: M<=1, S<=2)", "thorough": "M<=2, S<=3, trio R<=1"}
BUDGET = {"quick": 300, "thorough": 1800}

IWS = h2.settings.SettingCodes.INITIAL_WINDOW_SIZE
MFS = h2.settings.SettingCodes.MAX_FRAME_SIZE

CHUNKINGS = {
    "one": [b"x"],
    "three": [b"0123456789", b"abcdefghij", b"ABCDEFGHIJ"],
    "big": [bytes([65 + (i % 26)]) * 9000 for i in range(3)],  # 27 000 B > one frame
    "empty": [],  # no body bytes at all: END_STREAM needs no window
    "exact": [b"e" * 65535],  # exactly the default stream/connection window
    "huge": [bytes([97 + (i % 26)]) * 35000 for i in range(2)],  # 70 000 B > connection window
    # responses that END WITH TRAILERS (request carries te: trailers, http.response.start has trailers: True): the
    # END_STREAM travels on the trailers' HEADERS frame, which needs no window; with no body bytes at all (gRPC
    # style "headers, no messages, trailers") nothing but the trailers ever wakes the send task for the stream
    "tr_empty": [],
    "tr_three": [b"0123456789", b"abcdefghij", b"ABCDEFGHIJ"],
}
TRAILERS = {"type": "http.response.trailers", "headers": [(b"x-t", b"1")], "more_trailers": False}


def has_trailers(name: str) -> bool:
    return name.startswith("tr_")


def app_prog(name: str, sid: int) -> list:
    chunks = CHUNKINGS[name]
    start = {"type": "http.response.start", "status": 200, "headers": []}
    if has_trailers(name):
        start["trailers"] = True
    prog: list = [("recv_body",), ("send", start)]
    for i, ch in enumerate(chunks):
        if i == 1:
            prog.append(("gate", f"g{sid}"))
        prog.append(("send", {"type": "http.response.body", "body": ch, "more_body": True}))
    prog.append(("send", {"type": "http.response.body", "body": b"", "more_body": False}))
    if has_trailers(name):
        prog.append(("send", TRAILERS))
    return prog


# credit scripts: list of client events (k=0); executed in order by the 'credit' source
def credit_script(name: str, sids: List[int]) -> list:
    big = 2 ** 20
    if name == "none":
        return []
    if name == "stream_then_conn":
        return [("cmd", 0, "winup", s, big) for s in sids] + [("cmd", 0, "winup", 0, big)]
    if name == "conn_then_stream":
        return [("cmd", 0, "winup", 0, big)] + [("cmd", 0, "winup", s, big) for s in reversed(sids)]
    if name == "trickle":
        return [("cmd", 0, "winup", sids[0], 1), ("cmd", 0, "winup", sids[0], 5), ("cmd", 0, "winup", 0, big)] + \
               [("cmd", 0, "winup", s, big) for s in sids]
    if name == "settings_up":
        return [("cmd", 0, "settings", {IWS: 100000}), ("cmd", 0, "winup", 0, big)]
    if name == "settings_down_up":
        return [("cmd", 0, "settings", {IWS: 3}), ("cmd", 0, "settings", {IWS: 200000}), ("cmd", 0, "winup", 0, big)]
    if name == "conn_only":
        return [("cmd", 0, "winup", 0, big)]
    if name == "rst_first":
        return [("cmd", 0, "rst", sids[0], 8)] + [("cmd", 0, "winup", s, big) for s in sids[1:]] + [("cmd", 0, "winup", 0, big)]
    if name == "rst_prio":  # the client cancels a stream and re-prioritises it afterwards (RFC 9113 5.3.4 allows that)
        return [("cmd", 0, "rst", sids[0], 8), ("cmd", 0, "prio", sids[0], 0, 50, False)] + \
               [("cmd", 0, "winup", s, big) for s in sids[1:]] + [("cmd", 0, "winup", 0, big)]
    if name == "prio_idle":  # PRIORITY frames naming streams that are never opened (placeholders, RFC 7540 5.3.4)
        return [("cmd", 0, "prio", 11, 0, 10, False)]
    if name == "prio":
        out = []
        if len(sids) > 1:
            out.append(("cmd", 0, "prio", sids[-1], sids[0], 200, True))
        out.append(("cmd", 0, "prio", 9, 0, 10, False))  # PRIORITY for a stream that does not exist yet
        return out + [("cmd", 0, "winup", 0, big)] + [("cmd", 0, "winup", s, big) for s in sids]
    raise ValueError(name)


STREAMSETS = [("one",), ("three",), ("big",), ("three", "one"), ("big", "three"), ("huge",), ("big", "big", "one")]
CREDITS = ["none", "stream_then_conn", "conn_then_stream", "trickle", "settings_up", "settings_down_up", "rst_first", "prio"]


# Single-path (M=0) families on top of the grid:
# trailers: (window, stream set, credit script); window 0 + no credit: a body-less response with trailers needs no window
TRAILER_SETS = [(65535, ("tr_empty",), "none"), (65535, ("tr_three",), "none"), (65535, ("tr_empty", "three"), "none"),
                (0, ("tr_empty",), "none"), (0, ("tr_three", "tr_empty"), "stream_then_conn")]
# config.h2_max_concurrent_streams = N (6th element ("maxc", N)) and a client that holds exactly N streams open at
# once (every application parked on its gate), or N-1 plus a PRIORITY frame for an idle stream: what the client was
# told it may do; every stream must be delivered
MAXC_SETS = [(2, ("three", "three"), "none"), (3, ("three", "three", "three"), "none"), (3, ("three", "three"), "prio_idle")]

BIGWIN = 2 ** 20  # stream windows far larger than the connection window: only stream-0 credit matters
UPLOAD_FRAMES = 300  # 1 data byte + 255 padding each: 257 flow-controlled bytes per frame, 77 100 in total


def scenarios(tier: str) -> List[Any]:
    out = []
    for engine in ("asyncio", "trio"):
        out.append((engine, "upload", 255, (), "padded"))
        out.append((engine, "upload", 0, (), "plain"))
        out.append((engine, "upload", 0, (), "late"))  # the response completes at once, the client keeps uploading
    for engine in ("asyncio", "trio"):
        out.append((engine, 0, 16384, ("empty",), "none"))
        out.append((engine, 0, 16384, ("empty", "three"), "none"))
        out.append((engine, 65535, 16384, ("exact",), "none"))
    for engine in ("asyncio", "trio"):
        for win in (0, 65535):
            for ss in (("three",), ("three", "one"), ("big", "three")):
                out.append((engine, win, 16384, ss, "rst_prio"))
    for engine in ("asyncio", "trio"):
        for ss in (("huge",), ("huge", "three")):
            for cr in ("conn_only", "none"):
                out.append((engine, BIGWIN, 16384, ss, cr))
    for engine in ("asyncio", "trio"):
        for win, ss, cr in TRAILER_SETS:
            out.append((engine, win, 16384, ss, cr))
        for n, ss, cr in MAXC_SETS:
            out.append((engine, 65535, 16384, ss, cr, ("maxc", n)))
    for engine in ("asyncio", "trio"):
        for win in ((0, 7, 65535) if tier == "quick" else (0, 1, 7, 65535)):
            for mfs in (16384, 20000):
                for ss in STREAMSETS:
                    for cr in CREDITS:
                        if tier == "quick":
                            if mfs == 20000 and not (win == 65535 and "big" in ss):
                                continue
                            if engine == "trio" and (win != 0 or len(ss) > 2 or cr in ("settings_down_up", "trickle", "prio")):
                                continue
                            if len(ss) == 3 and cr not in ("stream_then_conn", "rst_first", "prio"):
                                continue
                        if win == 65535 and cr in ("trickle", "settings_down_up") and "huge" not in ss and tier == "quick":
                            continue
                        out.append((engine, win, mfs, ss, cr))
    return out


def bounds(tier: str, params: Any) -> dict:
    if params[1] == "upload":
        return {"M": 0, "S": 0, "R": 0}
    if len(params) > 5 or any(has_trailers(n) for n in params[3]):
        return {"M": 0, "S": 1, "R": 0} if tier == "quick" else {"M": 1, "S": 2, "R": 0}
    if tier == "quick":
        return {"M": 1, "S": 2, "R": 0}
    return {"M": 2, "S": 3, "R": 1 if params[0] == "trio" else 0}


def sids_of(ss: tuple) -> List[int]:
    return [1 + 2 * i for i in range(len(ss))]


def build_upload(params: Any) -> tuple:
    engine, _, pad, _, mode = params
    n = UPLOAD_FRAMES if pad else 70
    size = 1 if pad else 1000
    client = [("cmd", 0, "preface"), ("cmd", 0, "headers", 1, h2_request_headers(b"POST", b"/up"), False)]
    if mode == "late":
        # /up is answered on its head alone (the stream is forgotten by the server), the client legally goes on
        # uploading 70 000 B on it; the credit for those bytes must still come back or stream 3 can never upload
        client.append(("wait_status", 0, 1))
    for i in range(n):
        client.append(("cmd", 0, "datap", 1, bytes([48 + i % 10]) * size, pad, i == n - 1))
    apps = {"http": [("recv_body",), ("send", {"type": "http.response.start", "status": 200, "headers": []}),
                     ("send", {"type": "http.response.body", "body": b"done", "more_body": False})]}
    if mode == "late":
        apps["http:/up"] = apps["http"][1:]
        client.append(("cmd", 0, "headers", 3, h2_request_headers(b"POST", b"/second"), False))
        for i in range(5):
            client.append(("cmd", 0, "datap", 3, b"s" * 1000, 0, i == 4))
    conn = {"carrier": "h2", "tls": True, "alpn": "h2", "auto_ack": True}
    sc = {"level": "conn", "conns": {0: conn}, "client_factory": make_client, "apps": apps,
          "config": {"keep_alive_timeout": 5}, "sources": [("client", client)], "midflight": False, "sigs": False}
    return engine, sc


def oracle_upload(w: Any, params: Any) -> List[dict]:
    engine, _, pad, _, mode = params
    out: List[dict] = []
    n = UPLOAD_FRAMES if pad else 70
    size = 1 if pad else 1000
    want = b"".join(bytes([48 + i % 10]) * size for i in range(n))
    rec = w.conns[0]
    if mode == "late":
        sent = sum(1 for _, e in w.driver.fired if e[0] == "cmd" and e[2] == "datap")
        second = next((i for i in w.instances if i.scope.get("path") == "/second"), None)
        got2 = b"" if second is None else b"".join(m.get("body", b"") for m in second.delivered() if m["type"] == "http.request")
        st3 = rec.client.h2.streams.get(3)
        if rec.client.h2.error is not None:
            out.append(V("client-rejects-frame", "upload:late", rec.client.h2.error))
        if sent < n + 5:
            out.append(V("upload-stalled", "upload:late", f"client could send only {sent} of {n + 5} DATA frames: the credit for "
                                                          f"data on the already answered stream never came back"))
        elif got2 != b"s" * 5000 or st3 is None or not st3["ended"]:
            out.append(V("sibling-blocked", "upload:late", f"second upload: app got {len(got2)} of 5000 bytes, stream 3 {st3 and st3['ended']}"))
        out.extend(internal_errors(w))
        return out
    inst = w.instances[0] if w.instances else None
    got = b"" if inst is None else b"".join(m.get("body", b"") for m in inst.delivered() if m["type"] == "http.request")
    sent = sum(1 for _, e in w.driver.fired if e[0] == "cmd" and e[2] == "datap")
    if rec.client.h2.error is not None:
        out.append(V("client-rejects-frame", f"upload:pad{pad}", rec.client.h2.error))
    if sent < n:
        out.append(V("upload-stalled", f"upload:pad{pad}",
                     f"client could send only {sent} of {n} DATA frames: the server returned too little credit "
                     f"(app received {len(got)} bytes)"))
    elif got != want:
        out.append(V("data-mismatch", f"upload:pad{pad}", f"app received {len(got)} of {len(want)} bytes"))
    out.extend(internal_errors(w))
    return out


def build(params: Any) -> tuple:
    if params[1] == "upload":
        return build_upload(params)
    engine, win, mfs, ss, cr = params[:5]
    sids = sids_of(ss)
    client = [("cmd", 0, "preface")]
    apps = {}
    for name, sid in zip(ss, sids):
        extra = [(b"te", b"trailers")] if has_trailers(name) else []
        client.append(("cmd", 0, "headers", sid, h2_request_headers(b"GET", b"/s%d" % sid, extra=extra), True))
        apps["http:/s%d" % sid] = app_prog(name, sid)
    sources = [("client", client), ("credit", credit_script(cr, sids)),
               ("app", [("release", f"g{s}") for n, s in zip(ss, sids) if len(CHUNKINGS[n]) > 1])]  # gates that exist
    conn = {"carrier": "h2", "tls": True, "alpn": "h2", "auto_ack": False,
            "h2_settings": {IWS: win, MFS: mfs}}
    sc = {"level": "conn", "conns": {0: conn}, "client_factory": make_client, "apps": apps,
          "config": {"keep_alive_timeout": 5}, "sources": sources, "trio_rev": True, "monitor": monitor}
    if params[5:] and params[5][0] == "maxc":
        sc["config"]["h2_max_concurrent_streams"] = params[5][1]
    return engine, sc


def _submitted(inst: Any) -> int:
    """Body bytes the application has handed to send() (completed or still pending)."""
    return sum(len(s[2].get("body", b"")) for s in inst.sends if s[2]["type"] == "http.response.body")


def _stalled(w: Any) -> List[str]:
    rec = w.conns[0]
    cl = rec.client.h2
    if cl is None or cl.error is not None or rec.closed_at is not None or not cl.started:
        return []
    out = []
    for inst in w.instances:
        if inst.type != "http":
            continue
        sid = int(inst.scope["path"][2:])
        st = cl.streams.get(sid)
        if st is None or st["reset"] is not None or st["headers"] is None:
            continue
        if _client_reset(w, sid):
            continue
        got = len(st["body"])
        sub = _submitted(inst)
        if sub > got:
            try:
                swin = cl.conn.remote_flow_control_window(sid)
            except Exception:
                continue
            cwin = cl.conn.inbound_flow_control_window
            if swin > 0 and cwin > 0 and not cl.pending:
                out.append(f"stream {sid}: submitted {sub}, delivered {got}, stream window {swin}, connection window {cwin}")
    return out


def _client_reset(w: Any, sid: int) -> bool:
    return any(e[0] == "cmd" and e[2] == "rst" and e[3] == sid for _, e in w.driver.fired)


def monitor(w: Any) -> None:
    for msg in _stalled(w):
        if not any(p.startswith("stalled") for p in w.problems):
            w.problems.append("stalled-with-credit: " + msg)


def oracle(w: Any, params: Any) -> List[dict]:
    if params[1] == "upload":
        return oracle_upload(w, params)
    engine, win, mfs, ss, cr = params[:5]
    out: List[dict] = []
    rec = w.conns[0]
    cl = rec.client.h2
    tag = f"win{win}:mfs{mfs}:{cr}" + "".join(f":{k}{v}" for k, v in params[5:6])
    # the initial windows (stream: win, connection: always 65 535) alone cover every byte of every response and the client resets nothing: whatever the
    # order of events, at the end of the execution (no source can continue: a gate release that is still disabled
    # means its application never got that far) everything the applications were asked for must have arrived
    roomy = min(win, 65535) >= sum(len(b"".join(CHUNKINGS[n])) for n in ss) and not cr.startswith("rst") and cr != "settings_down_up"
    if cl.error is not None:
        out.append(V("client-rejects-frame", f"{tag}:{cl.error.split(':')[0]}", cl.error))
    sids = sids_of(ss)
    by_sid = {int(i.scope["path"][2:]): i for i in w.instances if i.type == "http"}
    for name, sid in zip(ss, sids):
        st = cl.streams.get(sid)
        inst = by_sid.get(sid)
        if st is None or inst is None:
            continue
        want = b"".join(CHUNKINGS[name])
        if not want.startswith(st["body"]):
            out.append(V("data-mismatch", f"{tag}:{name}", f"stream {sid}: got {st['body'][:40]!r}... len {len(st['body'])}"))
        if st["ended"] > 1:
            out.append(V("end-stream", f"{tag}:{name}:twice", f"stream {sid}: {st['ended']} END_STREAM"))
        if st["ended"] and st["body"] != want and st["reset"] is None:
            out.append(V("end-stream", f"{tag}:{name}:early", f"stream {sid}: ended after {len(st['body'])} of {len(want)} bytes"))
        # the application has handed over its final message and every body byte has been delivered: the (zero
        # length) END_STREAM needs no flow-control credit and must be there once the server is quiescent
        last_type = "http.response.trailers" if has_trailers(name) else "http.response.body"
        done = any(s[2]["type"] == last_type and not s[2].get("more_body", False) for s in inst.sends)
        if done and st["body"] == want and st["ended"] != 1 and st["reset"] is None and rec.closed_at is None \
                and not _client_reset(w, sid) and st["headers"] is not None:
            out.append(V("end-stream", f"{tag}:{name}:missing", f"stream {sid}: all {len(want)} bytes delivered, app returned, no END_STREAM"))
        # a send() still waiting although every byte handed over so far (its own included) has reached the client:
        # nothing is buffered any more, so nothing is left to wait for
        if inst.sends and inst.sends[-1][3] == "pending" and inst.sends[-1][2]["type"] == "http.response.body" \
                and inst.sends[-1][2].get("more_body", False) and st["reset"] is None and not _client_reset(w, sid) \
                and rec.closed_at is None and len(st["body"]) == _submitted(inst) and not cl.pending:
            out.append(V("send-not-released", f"{tag}:{name}", f"stream {sid}: all {_submitted(inst)} submitted bytes delivered, "
                                                               f"yet the application is still waiting in send()"))
        if inst.sends and inst.sends[-1][3] == "pending" and inst.sends[-1][2]["type"] == "http.response.trailers" \
                and st["reset"] is None and not _client_reset(w, sid) and rec.closed_at is None \
                and len(st["body"]) == _submitted(inst) and not cl.pending:
            out.append(V("send-not-released", f"{tag}:{name}:trailers", f"stream {sid}: all {_submitted(inst)} body bytes delivered, "
                                                                        f"yet the application is still waiting in send(trailers)"))
        for fr in cl.frames_data:
            if fr[1] == sid and fr[2] > mfs:
                out.append(V("client-rejects-frame", f"{tag}:frame-size", f"DATA frame of {fr[2]} > {mfs}"))
    fired = [e for _, e in w.driver.fired]
    if roomy and cl.error is None and fired and fired[0] == ("cmd", 0, "preface"):  # (a client that speaks before its preface is at fault)
        for name, sid in zip(ss, sids):
            st = cl.streams.get(sid)
            if not any(e[:4] == ("cmd", 0, "headers", sid) for e in fired):
                continue
            if st is None or st["body"] != b"".join(CHUNKINGS[name]) or st["ended"] != 1:
                out.append(V("not-delivered", f"{tag}:{name}", f"stream {sid}: end of the execution, windows never in the way, client has "
                                                             f"{None if st is None else (len(st['body']), st['ended'], st['reset'])}; "
                                                             f"goaway={cl.goaway} closed_at={rec.closed_at}"))
    for msg in _stalled(w):
        out.append(V("stalled-with-credit", tag, msg))
    out = [v for v in out if not (v["clause"] == "harness-problem")]
    # siblings of a stalled / reset stream complete once they have credit: covered by stalled-with-credit on them
    out.extend(internal_errors(w))
    return out


def _obs(w: Any, params: Any) -> Any:
    from mc.harness import default_observation
    return default_observation(w)


_std = std_execute(build, oracle)


def execute(params: Any, prefix: List[int]) -> Any:
    r = _std(params, prefix)
    # the monitor reports through world.problems -> generic 'harness-problem' violations: rename the clause
    for v in r.violations:
        if v["clause"] == "harness-problem" and v["key"].startswith("stalled-with-credit"):
            v["clause"] = "stalled-with-credit"
            v["key"] = f"win{params[1]}:mfs{params[2]}:{params[4]}:at-quiescence"
    return r
