"""C06 - HTTP/1.x persistent-connection and pipelining safety.

Enumerates pipelines of 1..3 requests (shapes: GET/POST content-length/POST chunked, HTTP/1.0 and
1.1, Connection absent/close/keep-alive) x keep_alive_max_requests x application behaviour of the
first request (answer after the body, before reading it, without ever reading it, gated) x
segmentations (one read, every two-way split on a boundary lattice, one byte per read), and
explores the timing of gate releases against the arrival of later segments (Explorer A).

Server-header axis (6th scenario element "nohdr"): keep_alive_max_requests in {1, 2} with include_date_header and
include_server_header both off (no alt-svc), i.e. the server has no header of its own to add except the
`connection: close` the rule demands; every pipeline, unsplit and split on each request boundary (thorough: also one
byte per read), applications answering after the body / gated (thorough: every behaviour).  Same oracle.

read_timeout axis (segmentation "rt"): pipelines of 2-3 requests whose first application is gated, the whole
pipeline in one read, config.read_timeout = 7 (every other scenario: None) and two clock jumps to the next armed
deadline as a source of their own, plus a lapse of 10 s that can only happen while no deadline is armed.  While the first response is outstanding the reader is parked behind it inside
the protocol: no read deadline runs there, so whatever time passes the later requests are served once the gate
opens (not-reused / wrong-response as for every other segmentation); afterwards the idle timer (5) or the read
deadline ends the connection.

Oracle (the reuse rule is a reference model written from RFC 7230 6.3 / the property text):
  parse-error          the client parser rejects the byte stream (interleaved / corrupt responses)
  wrong-response       response i does not carry the tag of request i / is incomplete
  started-early        instance n+1 created before response n was complete on the wire
  body-crossed         an instance received bytes that are not (a prefix of) its own request body
  served-after-close   an instance was created although an earlier exchange had to end the connection
  close-not-announced  last response lacks `connection: close` although client/limit demanded close
  not-closed           transport still open at final quiescence although the connection had to end
  bytes-after-close    server wrote bytes after the response that ended the connection
  not-reused           connection reusable by the rule, all data delivered, yet the next request unserved
"""
from __future__ import annotations

from typing import Any, List

from mc.clients import H1Parser, h1_request, make_client
from mc.explore import V
from mc.harness import internal_errors, std_execute

ID = "C06"
LEVEL = "model_checking"
TECHNIQUE = ("bounded exhaustive enumeration of pipelines x segmentations x application pacing with stateless "
             "deviation-bounded exploration of release/arrival timing on the real H11Protocol/TCPServer")
RULE = ("scenario = engine x pipeline (1..3 request shapes) x keep_alive_max_requests x app behaviour x segmentation "
        "[x server adds no date / server header]; "
        "Explorer A interleaves gate releases with segment arrival (M,S bounds); non-trivial = instance ran and a "
        "non-default choice was taken or the scenario has more than one request; distinct by observation digest")
ASSUMPTIONS = [
    "when the application finishes its response before the server has consumed the whole request the reuse decision "
    "is timing dependent: either outcome is accepted, only safety (no interleaving, no crossed bodies) is demanded",
    "environment model bound to real sockets by ./check selftest",
    "read_timeout axis: the clock only jumps to armed deadlines, at quiescence; the pipeline arrives in one read, so "
    "the reader is parked for as long as the gate is closed (a later segment would find the reader waiting for "
    "bytes, where the read deadline legitimately ends the connection: not generated)",
]
BOUNDS_DOC = {"quick": "pipelines <=2 (+ a set of triples), boundary-lattice splits, M<=1 S<=2; read_timeout 7 on gated pipelines "
                       "of 2 (asyncio also the triples) in one read with 2 clock jumps; date+server headers off x max in {1,2} x "
                       "kinds after/gated x {one read, split on each request boundary}",
              "thorough": "all pairs and triples, every split point of pairs, M<=2 S<=3, trio R<=1; read_timeout 7 on every "
                          "gated pipeline of 2-3 in one read with 2 clock jumps; date+server headers off x max in {1,2} x "
                          "every kind x {one read, request boundaries, byte by byte}"}
BUDGET = {"quick": 300, "thorough": 1800}

SHAPES = {
    # name: (method, version, connection header, body kind)
    "get": (b"GET", b"1.1", None, None),
    "post_cl": (b"POST", b"1.1", None, "cl"),
    "post_ch": (b"POST", b"1.1", None, "chunked"),
    "get_close": (b"GET", b"1.1", b"close", None),
    "get_10": (b"GET", b"1.0", None, None),
    "get_10_ka": (b"GET", b"1.0", b"keep-alive", None),
    # a body that turns malformed after a good head and a good first chunk (last position only)
    "post_bad": (b"POST", b"1.1", None, "bad"),
    # a POST that also offers an h2c upgrade: a request with a body is never upgraded (it is served over HTTP/1.1 and the
    # connection stays persistent) - and what it offered must not linger for the requests that follow it
    "post_up": (b"POST", b"1.1", None, "cl_up"),
}
# abort: raises after the response start + one chunk (no content-length); after_ka: like after, and the application
# sends its own `connection: keep-alive` response header
APP_KINDS = ["after", "before", "noread", "gated", "abort", "after_ka"]


READ_TIMEOUT = 7  # segmentation "rt"; longer than keep_alive_timeout (5): an idle connection is ended by the idle timer


def req_bytes(i: int, shape: str) -> tuple:
    method, version, conn, bk = SHAPES[shape]
    headers = [] if conn is None else [(b"Connection", conn)]
    body = b"body-%d" % i
    if bk == "cl":
        return h1_request(method, b"/r%d" % i, headers, body=body, version=version), body
    if bk == "cl_up":
        up = [(b"Connection", b"Upgrade, HTTP2-Settings"), (b"Upgrade", b"h2c"), (b"HTTP2-Settings", b"AAMAAABkAAQAoAAAAAIAAAAA")]
        return h1_request(method, b"/r%d" % i, up, body=body, version=version), body
    if bk == "chunked":
        return h1_request(method, b"/r%d" % i, headers, chunked=[body[:3], body[3:]], version=version), body
    if bk == "bad":
        raw = h1_request(method, b"/r%d" % i, headers, chunked=[body[:3]], version=version)
        assert raw.endswith(b"0\r\n\r\n")
        return raw[:-5] + b"ZZ\r\n", body[:3]
    return h1_request(method, b"/r%d" % i, headers, version=version), b""


def app_prog(i: int, kind: str) -> list:
    body = b"r%d" % i
    start = {"type": "http.response.start", "status": 200, "headers": [(b"content-length", b"%d" % len(body))]}
    end = {"type": "http.response.body", "body": body, "more_body": False}
    if kind == "after":
        return [("recv_body",), ("send", start), ("send", end)]
    if kind == "after_ka":
        start = {**start, "headers": start["headers"] + [(b"connection", b"keep-alive")]}
        return [("recv_body",), ("send", start), ("send", end)]
    if kind == "before":
        return [("send", start), ("send", end), ("recv_body",)]
    if kind == "noread":
        return [("send", start), ("send", end)]
    if kind == "gated":
        return [("recv_body",), ("gate", "g%d" % i), ("send", start), ("send", end)]
    if kind == "abort":
        return [("recv_body",), ("send", {"type": "http.response.start", "status": 200, "headers": []}),
                ("send", {"type": "http.response.body", "body": b"r", "more_body": True}), ("raise",)]
    raise ValueError(kind)


def scenarios(tier: str) -> List[Any]:
    out = []
    names = list(SHAPES)
    # a client that asked for close (or spoke HTTP/1.0) must not pipeline further requests (RFC 7230 6.6):
    # such requests are only generated in last position; whatever follows them is C04's malformed input.
    inner = [n for n in names if SHAPES[n][1] == b"1.1" and SHAPES[n][2] is None and SHAPES[n][3] != "bad"]
    pipelines = [(a,) for a in names] + [(a, b) for a in inner for b in names]
    if tier == "quick":
        pipelines += [(a, b, c) for a in inner for b in ("get", "post_cl") for c in ("get", "get_close")]
    else:
        pipelines += [(a, b, c) for a in inner for b in inner for c in names]
    for engine in ("asyncio", "trio"):
        for pl in pipelines:
            for mx in (1, 2, 1000):
                for kind in APP_KINDS:
                    if engine == "trio" and tier == "quick" and (len(pl) != 2 or mx == 1):
                        continue
                    total = sum(len(req_bytes(i, s)[0]) for i, s in enumerate(pl))
                    segs = ["whole"]
                    if tier == "quick":
                        lattice = sorted({1, total // 3, total // 2, total - 1} - {0, total})
                        segs += [("cut", c) for c in lattice] + [("bound", j) for j in range(1, len(pl))]
                        if total < 150 and kind in ("after", "gated"):
                            segs.append("bytes")
                    else:
                        step = 1 if len(pl) <= 2 else 3
                        segs += [("cut", c) for c in range(1, total, step)] + ["bytes"]
                    if kind == "abort" and (SHAPES[pl[0]][1] == b"1.0" or SHAPES[pl[0]][3] == "bad"):
                        continue  # close-delimited body: truncation is invisible by protocol design
                    if kind == "after_ka":
                        if engine == "trio" or len(pl) > 2 or mx == 1000:
                            continue
                        segs = [sg for sg in segs if sg == "whole" or sg[0] == "bound"]
                    if kind == "gated" and len(pl) >= 2:
                        segs.append("wfail")  # the peer goes away (failed write) while response 0 is being written
                        segs.append("rt")  # read_timeout set, the clock jumps while the reader is parked behind response 0
                    for seg in segs:
                        out.append((engine, pl, mx, kind, seg))
                    if mx in (1, 2) and kind != "after_ka" and (tier != "quick" or kind in ("after", "gated")):
                        # configuration axis: the server adds no headers of its own (include_date_header and
                        # include_server_header off, no alt-svc), so `connection: close` is all it has to add
                        nsegs = ["whole"] + [("bound", j) for j in range(1, len(pl))] + (["bytes"] if tier != "quick" else [])
                        for seg in nsegs:
                            out.append((engine, pl, mx, kind, seg, "nohdr"))
    return out


def bounds(tier: str, params: Any) -> dict:
    if params[4] == "bytes":
        return {"M": 0, "S": 1, "R": 0}
    if tier == "quick":
        if params[0] == "trio" and params[4] == "whole":
            return {"M": 0, "S": 1, "R": 2}  # trio's own scheduling freedom, on the unsplit pipeline
        return {"M": 1, "S": 2, "R": 0}
    return {"M": 2, "S": 3, "R": 1 if params[0] == "trio" else 0}


def build(params: Any) -> tuple:
    engine, pl, mx, kind, seg = params[:5]
    nohdr = len(params) > 5 and params[5] == "nohdr"
    reqs = [req_bytes(i, s) for i, s in enumerate(pl)]
    blob = b"".join(r for r, _ in reqs)
    if seg in ("whole", "wfail", "rt"):
        parts = [blob]
    elif seg == "bytes":
        parts = [blob[i:i + 1] for i in range(len(blob))]
    elif seg[0] == "cut":
        parts = [blob[:seg[1]], blob[seg[1]:]]
    else:  # split exactly between request j-1 and j
        off = sum(len(r) for r, _ in reqs[:seg[1]])
        parts = [blob[:off], blob[off:]]
    apps = {"http:/r%d" % i: app_prog(i, kind if i == 0 or kind == "after_ka" else "after") for i in range(len(pl))}
    sources = [("client", [("data", 0, p) for p in parts if p]),
               ("app", [("release", "g0")]), ("clock", [("tick",)])]
    if seg == "wfail":
        sources.insert(1, ("fault", [("wfail", 0)]))
    cfg = {"keep_alive_timeout": 5, "keep_alive_max_requests": mx}
    if nohdr:
        cfg.update({"include_date_header": False, "include_server_header": False})
    if seg == "rt":
        cfg["read_timeout"] = READ_TIMEOUT
        # jumps to armed deadlines, and a plain lapse of time that is only possible while NO deadline is armed
        # (i.e., on this history, while the reader is parked and the idle timer is stopped)
        sources[-1] = ("clock", [("tick",), ("tick",)])
        sources.append(("lapse", [("pause_dt", READ_TIMEOUT + 3)]))
    sc = {"level": "conn", "conns": {0: {"carrier": "h1", "methods": [SHAPES[s][0] for s in pl]}},
          "client_factory": make_client, "apps": apps,
          "config": cfg,
          "sources": sources, "trio_rev": True, "sigs": seg != "bytes"}
    return engine, sc


def _must_close(shape: str, n: int, mx: int) -> bool:
    method, version, conn, bk = SHAPES[shape]
    client_close = conn == b"close" or version == b"1.0"
    return client_close or n >= mx


def oracle(w: Any, params: Any) -> List[dict]:
    engine, pl, mx, kind, seg = params[:5]
    out: List[dict] = []
    rec = w.conns[0]
    cl = rec.client.h1
    reqs = [req_bytes(i, s) for i, s in enumerate(pl)]
    insts = [i for i in w.instances if i.type == "http"]
    tag = f"{kind}:{'+'.join(pl)}:max{mx}"
    short = f"{kind}:max{mx}"
    if cl.error is not None and kind != "abort" and rec.lost_at is None:
        out.append(V("parse-error", short, f"{tag}: {cl.error} out={bytes(rec.out)[:200]!r}"))
    # instances are created in request order, each for its own path
    for n, inst in enumerate(insts):
        if inst.scope["path"] != "/r%d" % n:
            out.append(V("served-out-of-order", short, f"{tag}: instance {n} has path {inst.scope['path']}"))
            return out
    # responses in order, each tagged with its request
    for n, r in enumerate(cl.responses):
        if n >= len(insts):
            out.append(V("wrong-response", short + ":extra", f"{tag}: response {n} without instance: {r['status']}"))
            continue
        if r["complete"] and r["status"] == 400 and n < len(pl) and SHAPES[pl[n]][3] == "bad":
            continue  # the server's own answer to the malformed body
        if r["complete"] and (r["status"] != 200 or r["body"] != b"r%d" % n):
            out.append(V("wrong-response", short + ":tag", f"{tag}: response {n}: {r['status']} {r['body']!r}"))
    # the next instance starts only after the previous response is complete on the wire
    for n, inst in enumerate(insts):
        if n == 0:
            continue
        p = H1Parser([SHAPES[s][0] for s in pl])
        p.feed(bytes(rec.out[:inst.out_len[0]]), 0.0)
        done = sum(1 for r in p.responses if r["complete"])
        if done < n:
            out.append(V("started-early", short, f"{tag}: instance {n} created with {done} complete responses on the wire"))
    # bodies never cross
    for n, inst in enumerate(insts):
        got = b"".join(m.get("body", b"") for m in inst.delivered() if m["type"] == "http.request")
        want = reqs[n][1]
        if not want.startswith(got):
            out.append(V("body-crossed", short, f"{tag}: instance {n} received {got!r}, its body is {want!r}"))
        ends = [m for m in inst.delivered() if m["type"] == "http.request" and not m.get("more_body", False)]
        if len(ends) > 1:
            out.append(V("body-crossed", short + ":two-ends", f"{tag}: instance {n} got {len(ends)} end-of-body messages"))
        if ends and got != want:
            out.append(V("body-crossed", short + ":short", f"{tag}: instance {n} body ended after {got!r}, want {want!r}"))
    # an aborted response / a lost peer ends the connection: nothing behind it is processed
    if kind == "abort" and insts and insts[0].outcome == "raised:AppCrash":
        if len(insts) > 1:
            out.append(V("served-after-abort", short, f"{tag}: the response of request 0 was aborted, yet instance 1 exists"))
        if cl.responses and cl.responses[0]["complete"]:
            out.append(V("aborted-response-complete", short, f"{tag}: the aborted response parsed as complete: {cl.responses[0]['body']!r}"))
        if rec.closed_at is None and all(i.outcome != "running" for i in insts):
            out.append(V("not-closed", short + ":abort", f"{tag}: connection still open after the aborted response"))
        out.extend(internal_errors(w))
        return out
    if rec.lost_at is not None:
        # (an application task first runs some steps after its request was taken on: the request that follows the
        # responses delivered completely before the failure may have been taken on before it, e.g. when the failed
        # write is the server's own 400 for that very request)
        delivered = sum(1 for r in cl.responses if r["complete"])
        late = [i for n, i in enumerate(insts) if rec.lost_seq is not None and i.seq_start > rec.lost_seq and n > delivered]
        if late:
            out.append(V("served-after-abort", short + ":peer-lost", f"{tag}: instance(s) {[i.scope['path'] for i in late]} created after the write failed"))
        out.extend(internal_errors(w))
        return out
    # the reuse rule
    all_fed = w.driver.pos[0] == len(w.driver.sources[0][1])
    settled = all(i.outcome != "running" for i in insts)
    for n in range(len(pl)):
        if n >= len(insts):
            break
        shape = pl[n]
        if SHAPES[shape][3] == "bad":
            # a malformed message ends the connection; a response the application completed before the malformed
            # part arrived cannot announce it, the server's own 400 must
            if len(insts) > n + 1:
                out.append(V("served-after-close", short + ":malformed", f"{tag}: instance {n + 1} exists"))
            if all_fed and rec.closed_at is None and not _half_closed(rec):
                out.append(V("not-closed", short + ":malformed", f"{tag}: connection still open after the malformed body"))
            r = cl.responses[n] if n < len(cl.responses) else None
            if r is not None and r["complete"] and r["status"] == 400 and \
                    (b"connection", b"close") not in [(a.lower(), b.lower()) for a, b in r["headers"]]:
                out.append(V("close-not-announced", short + ":malformed", f"{tag}: response {n} headers {r['headers']}"))
            break
        if _must_close(shape, n + 1, mx):
            if len(insts) > n + 1:
                out.append(V("served-after-close", short, f"{tag}: request {n} had to end the connection, yet instance {n + 1} exists"))
            if n < len(cl.responses) and cl.responses[n]["complete"]:
                r = cl.responses[n]
                hdrs = [(a.lower(), b.lower()) for a, b in r["headers"]]
                if (b"connection", b"close") not in hdrs:
                    out.append(V("close-not-announced", short, f"{tag}: response {n} headers {r['headers']}"))
                if settled and rec.closed_at is None and not _half_closed(rec):
                    out.append(V("not-closed", short, f"{tag}: response {n} complete, connection still open"))
                if len(cl.responses) > n + 1 or cl.leftover:
                    out.append(V("bytes-after-close", short, f"{tag}: {len(cl.responses)} responses"))
            break
        # reusable by the deterministic part of the rule: request n was completely consumed before the
        # application answered (kinds 'after' and 'gated' read the whole body first) and response complete
        k = kind if n == 0 else "after"
        k = "after" if k == "after_ka" else k
        if k in ("after", "gated") and all_fed and settled and n + 1 < len(pl):
            resp_ok = n < len(cl.responses) and cl.responses[n]["complete"]
            last_fed = max((t for t, e in w.driver.fired if e[0] == "data"), default=0.0)
            if resp_ok and len(insts) <= n + 1 and (rec.closed_at is None or last_fed < rec.closed_at):
                # every byte of the next request was there (strictly before any close) and nobody served it
                out.append(V("not-reused", short, f"{tag}: request {n + 1} never served on a reusable connection"))
            # (a close after virtual time has passed is the keep-alive timer doing its job, judged by C07)
            if resp_ok and rec.closed_at is not None and rec.closed_at == 0.0 and len(insts) <= n + 1:
                out.append(V("not-reused", short + ":closed", f"{tag}: connection closed after response {n} without cause"))
        if k in ("before", "noread"):
            break  # timing dependent from here on: only the safety clauses above apply
    out.extend(internal_errors(w))
    return out


def _half_closed(rec: Any) -> bool:
    return rec.server_eof_at is not None


execute = std_execute(build, oracle)


# wave h documentation (what was added to the enumeration; see DESIGN.md 11.0)
_WAVE_H = ("+ request shape post_up (a POST with a body that also offers an h2c upgrade: served over HTTP/1.1, connection stays "
           "persistent, nothing of the offer lingers for later requests) in every pipeline position the other persistent shapes take")
RULE = RULE + " " + _WAVE_H
BOUNDS_DOC = {k: v + " " + _WAVE_H for k, v in BOUNDS_DOC.items()}
