"""C10 - WebSocket message fidelity and message-size limit.

What is enumerated (bounded, exhaustive; one execution = one complete client session against the real
TCPServer / H11Protocol|H2Protocol / WSStream / wsproto stack, application = accept + echo):

  engine {asyncio, trio} x carrier {ws/h1 (HTTP/1.1 upgrade), ws/h2 (RFC 8441 extended CONNECT)} x
  permessage-deflate {off, on (context takeover: one compressor shared by the messages of a session)} x
  message sequence (families below, websocket_max_message_size = L = 4, alphabet built around L in *bytes*
  and in *characters*, all UTF-8 widths) x
  EVERY fragmentation of each message into <= K frames (cuts at every byte offset of the on-wire payload,
  so inside code points and inside deflate blocks; empty fragments included) x
  ping frames (payload "" / "p") at EVERY position between two frames (also before the first / after the last) x
  EVERY two-way split of the concatenated frame bytes into two reads, the unsplit stream, and one byte per read.

  families: single (1 message, full alphabet), pair (2 messages), triple (3 messages), ping (pings), and
  sched (Explorer A: frames as separate reads injected mid-flight, bounds M/S/R) for the schedule quantifier.
  pings  SEVERAL pings with distinct payloads ("p", "q"; thorough also 1 and 3 pings, payloads "p", "", "r") at EVERY
         combination of positions (both before the same frame included) among the frames of {a message cut in two,
         a small message followed by an oversize one, no message at all}, and the client's Close(1000) travels in the
         SAME byte stream behind them - so, over all 2-way splits, the unsplit stream and one byte per read, two or
         three pings share one read (one TCP segment / one HTTP/2 DATA frame), a ping shares its read with the Close
         frame, and a ping shares its read with the message that exceeds the limit.
  big    payload sizes around the 7-bit / 16-bit / 64-bit length encodings (limit 1 MiB).
  multi  TWO connections in ONE world (one worker process: the server's module-level and per-process state is
         shared exactly as in production, and nothing survives from an earlier execution into the history that is
         judged): carriers {ws/h1, ws/h2}^2 x permessage-deflate {deflate+plain, plain+deflate, deflate+deflate}
         (thorough: plain+plain) x mode {seq: connection 0 runs a whole session, connection 1 is opened afterwards,
         connection 0 closed by then / still open; inter: both open, the two sessions' messages merged in EVERY
         order that preserves each connection's own order; thorough also conc: the two sessions as independent
         sources of Explorer A, frames injected mid-flight, M<=1,S<=1} x {unfragmented, every message
         cut in two frames}.
         The messages are repetitive and nearly equal on both connections, so with context takeover every later
         message is a back-reference into its own connection's history.  The oracle below is applied per connection.
  pad    ws/h2 with PADDED DATA frames (RFC 9113 6.1): 260 single-frame messages x 255 bytes of padding
         (260 x (frame + 256) > 65 535 = the initial stream and connection receive windows) sent by a client that
         honours flow control; all of them must be delivered and echoed, i.e. the server has to return the credit
         for everything it consumed.  Single path (M=0, S=0).
  early  messages that arrive while the handshake response is still in flight: the peer stops reading, the handshake
         arrives, the application accepts (trio: the send of the 101 / 200 blocks; asyncio: it waits in the write
         buffer), {all, the first} message(s) arrive, the peer reads again, the rest and the Close follow.
  slow   the read_timeout axis (config.read_timeout = 3 set; every other family runs with the default None): the
         application accepts and then reads nothing (parked on a gate) while the client sends MORE messages than the
         application queue holds in one read - 15 with the default max_app_queue_size of 10, and 5 with a queue of 2 -
         so the reader is parked inside the protocol on the first message that does not fit.  With everything sent,
         the clock jumps to the next armed deadline and / or 6 s pass (possible only while no deadline is armed),
         then the application is released: the client has sent every message completely, so every one of them is
         delivered, in order, and echoed - no read deadline runs while the reader is parked in the delivery.  (Once
         the application has caught up the reader waits for bytes again; a silent client is then disconnected by the
         read deadline, the client's own Close is sent if the connection is still there.)
  The fragmentation, the ping placement and the split are *data choice points* (always fully enumerated).
  Frames come from a hand-written RFC 6455 / 7692 writer (mc/x_c10c11_ref.py); the client's final Close(1000)
  is sent in a read of its own once everything before it was processed.
  The receiving side of the client NEGOTIATES like a real one (mc/x_c10c11_run.GuardClient): "permessage-deflate on"
  means the handshake OFFERS the extension; the independent wsproto client that reads the server's frames is created
  when the handshake response arrives (101 over HTTP/1.1, 200 of the extended CONNECT over HTTP/2) and has the
  extension enabled only if that response carries sec-websocket-extensions: permessage-deflate...  A frame with RSV1
  without a negotiated extension is the protocol error it is (client-parse / echo / pong / no-1009 then fail).

Oracle (expected values are computed from the message specification, never from hypercorn/wsproto):
  delivery        the application's websocket.receive messages are exactly the messages before the first
                  oversize one (size = characters for text, bytes for binary; oversize = size > L): same
                  type, same payload, once, in order; nothing at/after the oversize message is delivered
  no-1009         an oversize message makes the client see a Close frame with code 1009
  pong            every ping the server must still answer (it precedes the point where the accumulated size
                  can exceed L) gets exactly one pong with the same payload; no other pongs
  echo            what the application sent reaches the independent wsproto client with identical type,
                  payload and order (all of it when no message is oversize; a prefix otherwise, because
                  after its own 1009 Close the server may not send data frames)
  client-parse    the independent client parsers (h11 / h2 / wsproto) accept every byte the server wrote
  internal-error  no unhandled exception in the connection handler / event loop (generic monitor, DESIGN 3)
  upgrade         the (valid) handshake was accepted and exactly one websocket instance ran
"""
from __future__ import annotations

import itertools
import zlib
from functools import lru_cache
from typing import Any, Callable, List, Tuple

from mc.clients import ws_h1_handshake, ws_h2_headers
from mc.explore import V
from mc.harness import internal_errors
from mc.x_c10c11_ref import (OP_BIN, OP_PING, OP_TEXT, close_frame, decodable_size, expected_receive,
                             first_oversize, frame, message_frames, wire_payloads)
from mc.x_c10c11_run import case_execute, make_guard_client, make_window_client

ID = "C10"
LEVEL = "model_checking"
TECHNIQUE = ("bounded exhaustive enumeration of client WebSocket sessions (message sequence x fragmentation x "
             "ping placement (one ping, and several pings with distinct payloads coalesced with each other, with the oversize "
             "message and with the client's Close into one read) x read segmentation x compression x carrier x worker) "
             "executed on the real server stack "
             "under the virtual-time engines; two-connection histories in one world (sequential and every interleaving "
             "of the two sessions' messages, mixed carriers and compression); padded HTTP/2 DATA beyond the initial "
             "flow-control window; messages arriving while the handshake response is in flight; with config.read_timeout "
             "set: more messages than the application queue holds sent at once to an application that reads nothing "
             "until released, virtual time passing while the reader is parked in the delivery; plus deviation-bounded "
             "schedule exploration of frame arrival; the reading client enables permessage-deflate only when the handshake "
             "response of the carrier (101 / HTTP/2 200) announces it")
RULE = ("one execution = one session (multi: two sessions on two connections in one world); non-trivial = a websocket "
        "instance ran and a non-default fragmentation/ping/split/merge/schedule choice was taken; distinct by digest of "
        "(messages delivered to the application, send outcomes, client-side parsed messages/pongs/close, connection end "
        "state, logs)")
ASSUMPTIONS = [
    "environment model (fake transport/stream, virtual loop) is bound to real sockets by ./check selftest",
    "websocket_max_message_size = 4 stands for any limit (the comparison is the only place the value is used)",
    "reads are delivered at quiescence (every 2-way split and 1 byte/read) except in the 'sched' family, where "
    "frame arrival is interleaved with the server's own progress within the deviation bounds",
    "pongs are demanded only for pings that precede the point at which the accumulated size can exceed the limit; "
    "echoes are demanded in full only when no message is oversize",
    "pings: every ping precedes the client's Close frame (a ping behind the Close is outside the property); as the Close "
    "may share a read with the messages, the echoes the client still sees are judged as a prefix (delivery to the "
    "application is judged in full)",
    "multi: two connections stand for any number; every message is answered before the next one is sent "
    "(interleaving at message granularity, at quiescence)",
    "pad: the client keeps to its flow-control window (a padded DATA frame is sent only when the stream and the "
    "connection window cover payload + padding + 1); 260 frames x 255 padding bytes stand for any traffic that "
    "exceeds the 65 535 byte initial window",
    "the client compresses what it sends whenever it offered permessage-deflate (the scripted application's server "
    "accepts every plain offer); what it is able to READ is decided by the handshake response alone",
    "early: a client may send frames as soon as the application has accepted although the 101 / 200 has not reached "
    "it yet (its own reading is stalled); the arrival is placed in that window by a guard on the application's accept",
    "slow: time passes only at quiescence and only after the client has sent all its messages (before that the reader "
    "waits for bytes and a read deadline may legitimately end the session); the application reads nothing at all "
    "until it is released, which stands for any application slower than read_timeout",
]
BOUNDS_DOC = {
    "quick": "messages<=2 (+3 unfragmented), K<=2 frames/message, <=1 ping, all 2-way splits + bytewise; pings: 2 pings at every "
             "pair of positions x 3 message sets (mid cut) with the Close in the stream, all 2-way splits + bytewise; "
             "sched M<=1,S<=1; "
             "multi 2 connections x 2 messages each (all 6 merges, seq with/without overlap), 3 compression pairs x 4 carrier "
             "pairs; pad 260 frames x 255 padding; early 2 messages; slow: read_timeout 3, (15 messages, queue 10) and "
             "(5 messages, queue 2) in one read x {unfragmented, cut in two frames} x {plain, deflate} x carrier x worker, "
             "clock jump / 6 s lapse / release in every order of the sources (S<=1)",
    "thorough": "messages<=3, K<=3 frames/message (pairs K<=2, triples mid cut only), <=2 pings, all 2-way splits + bytewise; "
                "pings: 1, 2 and 3 pings at every combination of positions x 5 message sets (mid cut) with the Close in the "
                "stream; "
                "sched asyncio M<=2, trio M<=1 with R<=1; multi 2 connections x 3 messages each (all 20 merges), 4 compression "
                "pairs x 4 carrier pairs, and the two sessions scheduled against each other M<=1,S<=1; pad 260 x 255 "
                "and 40 x {0, 1}; early 2 and 3 messages; slow: as quick plus (11, 10), (3, 2), (40, 10) messages, S<=2",
}
BUDGET = {"quick": 300, "thorough": 1150}

L = 4
BIG_L = 1 << 20  # the 'big' family: payload sizes around the 7-bit / 16-bit / 64-bit length encodings of RFC 6455 5.2


def limit_of(family: str) -> int:
    return BIG_L if family in ("big", "multi", "pad", "early", "slow") else L


T = lambda s: ("t", s)  # noqa: E731
B = lambda b: ("b", b)  # noqa: E731

# text: empty, 1..4 byte code points, L-1 / L / L+1 characters in ASCII, L and L+1 characters that are far more
# than L bytes, 2 characters that are > L bytes; binary: empty, 1, L-1, L, L+1 bytes.
ALPHABET = [T(""), T("a"), T("é"), T("€"), T("\U0001F600"), T("abc"), T("abcd"), T("abcde"),
            T("€€"), T("éé€\U0001F600"), T("éé€\U0001F600a"),
            B(b""), B(b"\x00"), B(b"\x01\x02\x03"), B(b"\x01\x02\x03\x04"), B(b"\x01\x02\x03\x04\x05")]
R8 = [T("a"), T("é"), T("abcd"), T("abcde"), B(b""), B(b"\x00"), B(b"abcd"), B(b"abcde")]
R6 = [T("a"), T("abcd"), T("abcde"), B(b"\x00"), B(b"abcd"), B(b"abcde")]
R4 = [T("abcd"), T("abcde"), B(b"\x00"), B(b"abcde")]
PING_MSGS = [T("é€"), B(b"\x01\x02\x03"), T("abcde")]

# the 'pings' family: (messages, K, cut mode); a fragmented message, an oversize message behind a small one, no message
PINGS_SPECS = [((T("é€"),), 2, "mid"), ((T("a"), T("abcde")), 1, "all"), ((), 1, "all")]
PINGS_SPECS_THOROUGH = [((B(b"abcde"),), 2, "mid"), ((T("abcd"), B(b"\x00")), 2, "mid")]

BIG_SIZES = (125, 126, 127, 65535, 65536, 70000)
ENGINES = ("asyncio", "trio")
CARRIERS = ("ws/h1", "ws/h2")
APP = [("recv",), ("send", {"type": "websocket.accept"}), ("echo_ws",)]
BYTEWISE_MAX = 64


# ---------------------------------------------------------------------------------------------
# enumeration


@lru_cache(maxsize=None)
def cut_options(n: int, k: int, mode: str) -> Tuple[Tuple[int, ...], ...]:
    """Fragmentations of an n-byte payload into <= k frames, as sorted tuples of cut offsets."""
    if mode == "mid":
        return ((),) + (((n // 2,),) if k >= 2 else ())
    out: List[Tuple[int, ...]] = []
    for c in range(0, k):
        out.extend(itertools.combinations_with_replacement(range(0, n + 1), c))
    return tuple(out)


@lru_cache(maxsize=None)
def ping_options(nframes: int, mode: str) -> Tuple[Tuple[Tuple[int, bytes], ...], ...]:
    """Ping placements: tuples of (position, payload); position p = before frame p (p = nframes: after all)."""
    if mode == "none":
        return ((),)
    pos = range(nframes + 1)
    if mode in ("pairs", "multi"):  # SEVERAL pings with distinct payloads (the 'pings' family), positions may coincide
        many: List[Tuple[Tuple[int, bytes], ...]] = []
        if mode == "multi":
            many += [((p, b"p"),) for p in pos]
        many += [((p, b"p"), (q, b"q")) for p in pos for q in pos if p <= q]
        if mode == "multi":
            many += [((p, b"p"), (q, b""), (r, b"r")) for p in pos for q in pos for r in pos if p <= q <= r]
        return tuple(many)
    pays = {"p": (b"p",), "both": (b"", b"p"), "two": (b"", b"p")}[mode]
    out: List[Tuple[Tuple[int, bytes], ...]] = [()]
    for p in range(nframes + 1):
        for pay in pays:
            out.append(((p, pay),))
    if mode == "two":
        for p in range(nframes + 1):
            for q in range(p, nframes + 1):
                out.append(((p, b"p"), (q, b"q")))
    return tuple(out)


def plan(params: tuple, pick: Callable[[int, str], int]) -> dict:
    family, engine, carrier, deflate, msgs, k, cutmode, pingmode = params
    payloads = wire_payloads(msgs, deflate)
    frames: List[Tuple[int, bytes, int]] = []  # (message index, frame bytes, wire offset of the frame's payload)
    cuts_taken = []
    for i, (m, pl) in enumerate(zip(msgs, payloads)):
        opts = cut_options(len(pl), k, cutmode)
        cuts = opts[pick(len(opts), "cuts")]
        cuts_taken.append(cuts)
        offs = [0] + list(cuts)
        for j, fb in enumerate(message_frames(OP_TEXT if m[0] == "t" else OP_BIN, pl, cuts, deflate)):
            frames.append((i, fb, offs[j]))
    popts = ping_options(len(frames), pingmode)
    pings = popts[pick(len(popts), "ping")]
    items: List[Tuple[str, Any, bytes]] = []  # ('frame', index, bytes) | ('ping', payload, bytes)
    for p in range(len(frames) + 1):
        for pos, pay in pings:
            if pos == p:
                items.append(("ping", pay, frame(OP_PING, pay)))
        if p < len(frames):
            items.append(("frame", p, frames[p][1]))
    case = {"msgs": msgs, "deflate": deflate, "payloads": payloads, "frames": frames, "cuts": tuple(cuts_taken),
            "pings": pings, "items": items, "family": family}
    if family == "pings":  # the client's Close travels in the same byte stream: pings next to it share its read
        items.append(("close", 1000, close_frame(1000)))
        case["close_in_stream"] = True
    if family == "sched":
        case["segs"] = [it[2] for it in items]
        case["split"] = "per-frame"
        return case
    stream = b"".join(it[2] for it in items)
    n = len(stream)
    if family == "big":  # large payloads: the unsplit stream and a lattice of split points around the frame header
        lattice = [0] + sorted({1, 2, 3, 4, 5, 9, 10, 11, 15, n // 2, n - 1} & set(range(1, n)))
        s = lattice[pick(len(lattice), "split")]
        nopt = n
    else:
        nopt = n + (1 if 1 < n <= BYTEWISE_MAX else 0)
        s = pick(max(nopt, 1), "split")
    if n == 0:
        segs: List[bytes] = []
    elif s == 0:
        segs = [stream]
    elif s < n:
        segs = [stream[:s], stream[s:]]
    else:
        segs = [stream[i:i + 1] for i in range(n)]
    case["segs"] = segs
    case["split"] = s if s < n else "bytewise"
    return case


def _open_events(k: int, carrier: str, deflate: bool, path: bytes) -> Tuple[dict, List[tuple], Callable[[bytes], tuple]]:
    """(connection options, handshake events, bytes -> event carrying WebSocket bytes) for connection k."""
    if carrier == "ws/h1":
        extra = [(b"Sec-WebSocket-Extensions", b"permessage-deflate")] if deflate else []
        return ({"carrier": "ws/h1", "deflate": deflate}, [("data", k, ws_h1_handshake(path, extra))],
                lambda b: ("cmd", k, "ws_raw", b))
    extra = [(b"sec-websocket-extensions", b"permessage-deflate")] if deflate else []
    return ({"carrier": "ws/h2", "tls": True, "alpn": "h2"},
            [("cmd", k, "preface"), ("cmd", k, "ws_open", 1, deflate),
             ("cmd", k, "headers", 1, ws_h2_headers(path, extra), False)],
            lambda b: ("cmd", k, "ws_data", 1, b))


def _conn_case(family: str, msgs: tuple, deflate: bool, cut: bool) -> dict:
    """Specification of one connection's session for the per-connection oracle: every message in one frame, or
    (cut) in two frames cut in the middle of its on-wire payload."""
    payloads = wire_payloads(msgs, deflate)
    frames: List[Tuple[int, bytes, int]] = []
    for i, (m, pl) in enumerate(zip(msgs, payloads)):
        cuts = (len(pl) // 2,) if cut else ()
        offs = [0] + list(cuts)
        for j, fb in enumerate(message_frames(OP_TEXT if m[0] == "t" else OP_BIN, pl, cuts, deflate)):
            frames.append((i, fb, offs[j]))
    return {"msgs": msgs, "deflate": deflate, "payloads": payloads, "frames": frames, "pings": (), "family": family,
            "cuts": "mid" if cut else "none"}


MULTI_TEXT = "hello hello hello hello "


def multi_msgs(k: int, n: int) -> tuple:
    """Messages of connection k: highly repetitive (with context takeover every later message is a back-reference
    into the same connection's earlier ones) and nearly the same on both connections."""
    base = [T(MULTI_TEXT + str(k)), B((MULTI_TEXT + str(k)).encode()), T(MULTI_TEXT * 2 + str(k)),
            B((MULTI_TEXT * 2 + str(k)).encode())]
    return tuple(base[:n])


def build_multi(params: tuple, pick: Callable[[int, str], int]) -> tuple:
    """Two connections in ONE world (one worker: same process, same modules, same event loop).
    seq:   connection 0 runs a whole session, connection 1 is opened afterwards (data choice: connection 0 has
           closed by then / is still open and closes last);
    inter: both handshakes, then the messages of the two sessions merged in EVERY order that keeps each
           connection's own order (data choice), each message answered before the next is sent."""
    _, engine, carriers, deflates, mode, nmsg = params
    cut = bool(pick(2, "cut"))
    conn_opts, opens, wsev, cases, per_msg = {}, {}, {}, {}, {}
    for k in (0, 1):
        conn_opts[k], opens[k], wsev[k] = _open_events(k, carriers[k], deflates[k], b"/w%d" % k)
        cases[k] = _conn_case("multi", multi_msgs(k, nmsg), deflates[k], cut)
        per_msg[k] = [[wsev[k](fb) for mi, fb, _ in cases[k]["frames"] if mi == i] for i in range(nmsg)]
    closing = {k: [wsev[k](close_frame(1000))] for k in (0, 1)}
    events: List[tuple] = []
    guards = {}
    if mode == "seq":
        overlap = pick(2, "overlap")
        first = opens[0] + [e for m in per_msg[0] for e in m] + ([] if overlap else closing[0])
        second = [("after_first",), ("connect", 1, conn_opts[1])] + opens[1] + [e for m in per_msg[1] for e in m]
        second += closing[1] + (closing[0] if overlap else [])
        sources = [("first", first), ("second", second)]
        guards = {"after_first": _first_source_over}
        conns = {0: conn_opts[0]}
        order: Any = "0-then-1" + (":overlapping" if overlap else "")
    elif mode == "conc":  # Explorer A: the two sessions are independent sources, frames are also injected mid-flight
        sources = [(f"c{k}", opens[k] + [e for m in per_msg[k] for e in m] + closing[k]) for k in (0, 1)]
        conns = {0: conn_opts[0], 1: conn_opts[1]}
        order = "scheduled"
    else:
        merges = list(itertools.combinations(range(2 * nmsg), nmsg))  # positions taken by connection 0
        pos0 = set(merges[pick(len(merges), "merge")])
        events += opens[0] + opens[1]
        nxt = {0: 0, 1: 0}
        order = []
        for p in range(2 * nmsg):
            k = 0 if p in pos0 else 1
            events += per_msg[k][nxt[k]]
            nxt[k] += 1
            order.append(k)
        events += closing[0] + closing[1]
        sources = [("client", events)]
        conns = {0: conn_opts[0], 1: conn_opts[1]}
    case = {"family": "multi", "conn": cases, "order": order, "cut": cut}
    sc = {"level": "conn", "conns": conns, "client_factory": make_guard_client, "apps": {"websocket": APP},
          "config": {"websocket_max_message_size": BIG_L}, "sources": sources, "midflight": mode == "conc",
          "trio_rev": mode == "conc", "guards": guards}
    return engine, sc, case


def _first_source_over(world: Any, ev: tuple) -> bool:
    """Guard of the pseudo event ('after_first',): the first connection's session has been played to its end, or
    cannot go on (the server dropped that connection), so that the later connection is judged in either case."""
    name, evs = world.driver.sources[0]
    pos = world.driver.pos[0]
    return pos >= len(evs) or not world.enabled(evs[pos])


def pad_msgs(n: int) -> tuple:
    return tuple(T("m%03d-é" % i) if i % 2 else B(b"m%03d" % i) for i in range(n))


def build_pad(params: tuple, pick: Callable[[int, str], int]) -> tuple:
    """ws/h2 with PADDED DATA frames (RFC 9113 6.1): n single-frame messages, each in one DATA frame carrying
    `pad` bytes of padding, sent by a client that honours flow control ('datap' waits for window)."""
    _, engine, carrier, deflate, n, pad = params
    case = _conn_case("pad", pad_msgs(n), deflate, False)
    conn, opens, _ = _open_events(0, "ws/h2", deflate, b"/w")
    events = opens + [("cmd", 0, "ws_wait")]
    events += [("cmd", 0, "datap", 1, fb, pad, False) for _, fb, _ in case["frames"]]
    events += [("cmd", 0, "datap", 1, close_frame(1000), pad, False)]
    case["pad"] = pad
    sc = {"level": "conn", "conns": {0: conn}, "client_factory": make_guard_client, "apps": {"websocket": APP},
          "config": {"websocket_max_message_size": BIG_L}, "sources": [("client", events)], "midflight": False,
          "trio_rev": False, "sigs": False}
    return engine, sc, case


def build_early(params: tuple, pick: Callable[[int, str], int]) -> tuple:
    """Messages that reach the server while its handshake response is still in flight: the peer stops reading,
    the handshake arrives, the application accepts (the send of the 101 / 200 blocks or stays in the write
    buffer), the messages arrive, the peer reads again.  Data choice: every message / only the first arrive early."""
    _, engine, carrier, deflate, msgs = params
    cut = bool(pick(2, "cut"))
    case = _conn_case("early", msgs, deflate, cut)
    conn, opens, wsev = _open_events(0, carrier, deflate, b"/w")
    early = [("cmd", 0, "ws_early", 1, fb) for _, fb, _ in case["frames"]]
    n_early = len(early) if pick(2, "early") == 0 else len([f for f in case["frames"] if f[0] == 0])
    late = [wsev(fb) for _, fb, _ in case["frames"][n_early:]]
    if carrier == "ws/h2":  # the connection preface is exchanged before the peer stalls
        events = opens[:1] + [("pause", 0)] + opens[1:]
    else:
        events = [("pause", 0)] + opens
    events += early[:n_early] + [("resume", 0)] + late + [wsev(close_frame(1000))]
    case["early_frames"] = n_early
    sc = {"level": "conn", "conns": {0: conn}, "client_factory": make_window_client, "apps": {"websocket": APP},
          "config": {"websocket_max_message_size": BIG_L}, "sources": [("client", events)], "midflight": False,
          "trio_rev": False}
    return engine, sc, case


READ_TIMEOUT = 3  # the 'slow' family (every other family: config.read_timeout = None)
SLOW_APP = [("recv",), ("send", {"type": "websocket.accept"}), ("gate", "h"), ("echo_ws",)]
SLOW_SHAPES = {"quick": ((15, 10), (5, 2)), "thorough": ((15, 10), (5, 2), (11, 10), (3, 2), (40, 10))}


def slow_msgs(n: int) -> tuple:
    return tuple(T("message-%d" % i) if i % 3 else B(b"message-%d" % i) for i in range(n))


def _all_sent(world: Any, ev: tuple) -> bool:
    """Guard of ('sent',): the client has sent everything it has to send (its source is exhausted)."""
    return world.driver.pos[0] >= len(world.driver.sources[0][1])


def _released(world: Any, ev: tuple) -> bool:
    return any(e[0] == "release" for _, e in world.driver.fired)


def build_slow(params: tuple, pick: Callable[[int, str], int]) -> tuple:
    """read_timeout set; more messages than the application queue holds, in ONE read, for an application that has
    accepted and reads nothing until it is released: the reader is parked in the delivery of the first message that
    does not fit.  Then, as sources of their own (every order): a jump to the next armed deadline, a lapse of
    2 x read_timeout (enabled only while no deadline is armed), the release of the application; the client's Close
    follows the release."""
    _, engine, carrier, deflate, nmsg, qsize = params
    cut = bool(pick(2, "cut"))
    case = _conn_case("slow", slow_msgs(nmsg), deflate, cut)
    conn, opens, wsev = _open_events(0, carrier, deflate, b"/w")
    client = opens + [wsev(b"".join(fb for _, fb, _ in case["frames"]))]
    sources = [("client", client),
               ("clock", [("sent",), ("tick",)]),
               ("lapse", [("sent",), ("pause_dt", 2 * READ_TIMEOUT)]),
               ("app", [("sent",), ("release", "h")]),
               ("fin", [("released",), wsev(close_frame(1000))])]
    case["queue"] = qsize
    sc = {"level": "conn", "conns": {0: conn}, "client_factory": make_guard_client, "apps": {"websocket": SLOW_APP},
          "config": {"websocket_max_message_size": BIG_L, "read_timeout": READ_TIMEOUT, "max_app_queue_size": qsize},
          "sources": sources, "midflight": False, "trio_rev": False,
          "guards": {"sent": _all_sent, "released": _released}}
    return engine, sc, case


def build(params: tuple, pick: Callable[[int, str], int]) -> tuple:
    if params[0] == "multi":
        return build_multi(params, pick)
    if params[0] == "slow":
        return build_slow(params, pick)
    if params[0] == "pad":
        return build_pad(params, pick)
    if params[0] == "early":
        return build_early(params, pick)
    family, engine, carrier, deflate = params[:4]
    case = plan(params, pick)
    closing = close_frame(1000)
    if carrier == "ws/h1":
        extra = [(b"Sec-WebSocket-Extensions", b"permessage-deflate")] if deflate else []
        conn = {"carrier": "ws/h1", "deflate": deflate}
        client: List[tuple] = [("data", 0, ws_h1_handshake(b"/w", extra))]
        client += [("cmd", 0, "ws_raw", s) for s in case["segs"]]
        tail = [("cmd", 0, "ws_raw", closing)]
    else:
        extra = [(b"sec-websocket-extensions", b"permessage-deflate")] if deflate else []
        conn = {"carrier": "ws/h2", "tls": True, "alpn": "h2"}
        client = [("cmd", 0, "preface"), ("cmd", 0, "ws_open", 1, deflate),
                  ("cmd", 0, "headers", 1, ws_h2_headers(b"/w", extra), False)]
        client += [("cmd", 0, "ws_data", 1, s) for s in case["segs"]]
        tail = [("cmd", 0, "ws_data", 1, closing)]
    if case.get("close_in_stream"):
        tail = []
    sched = family == "sched"
    sources = [("client", client + tail)]
    sc = {"level": "conn", "conns": {0: conn}, "client_factory": make_guard_client, "apps": {"websocket": APP},
          "config": {"websocket_max_message_size": limit_of(family)}, "sources": sources, "midflight": sched,
          "trio_rev": sched}
    return engine, sc, case


def scenarios(tier: str) -> List[Any]:
    out: List[Any] = []
    combos = [(e, c, d) for e in ENGINES for c in CARRIERS for d in (False, True)]
    if tier == "quick":
        for e, c, d in combos:
            full = not d or (e, c) in (("asyncio", "ws/h1"), ("trio", "ws/h2"))
            for m in ALPHABET:
                out.append(("single", e, c, d, (m,), 2, "all" if full else "mid", "none"))
            for m1 in (R6 if full else R4):
                for m2 in (R6 if full else R4):
                    out.append(("pair", e, c, d, (m1, m2), 1, "all", "none"))
            if full:
                for m in PING_MSGS[:2]:
                    out.append(("ping", e, c, d, (m,), 2, "all", "p"))
            for ms in ((T("abcde"), B(b"\x00"), T("a")), (T("a"), B(b"abcd"), T("é"))):
                out.append(("triple", e, c, d, ms, 1, "all", "none"))
            for ms, k, cutmode in (PINGS_SPECS if full else PINGS_SPECS[1:2]):
                out.append(("pings", e, c, d, ms, k, cutmode, "pairs"))
        for e in ENGINES:
            for c in CARRIERS:
                for ms in ((T("a"), B(b"abcd")), (T("abcd"), B(b"abcde"), T("a"))):
                    out.append(("sched", e, c, False, ms, 2, "mid", "p"))
        for e, c, d in combos:
            # (over HTTP/2 one read of the harness client is one DATA frame: it has to fit the 16 384 byte frame size)
            sizes = BIG_SIZES if c == "ws/h1" else (125, 126, 127, 8000, 16000)
            for n in sizes:
                out.append(("big", e, c, d, (B(bytes([n % 251]) * n),), 1, "none", "none"))
            out.append(("big", e, c, d, (T("x" * 126), B(b"y" * (65536 if c == "ws/h1" else 16000))), 1, "none", "none"))
        out += extra_scenarios(tier)
    else:
        out += extra_scenarios(tier)
        for e, c, d in combos:
            for m in ALPHABET:
                out.append(("single", e, c, d, (m,), 3, "all", "p"))
            for m1 in R8:
                for m2 in R8:
                    out.append(("pair", e, c, d, (m1, m2), 2, "all", "none"))
            for m in PING_MSGS:
                out.append(("ping", e, c, d, (m,), 2, "all", "two"))
            for ms in itertools.product(R4, repeat=3):
                out.append(("triple", e, c, d, ms, 2, "mid", "none"))
            for ms, k, cutmode in PINGS_SPECS + PINGS_SPECS_THOROUGH:
                out.append(("pings", e, c, d, ms, 2, "mid", "multi"))
        for e in ENGINES:
            for c in CARRIERS:
                for d in (False, True):
                    for ms in ((T("a"), B(b"abcd")), (T("abcd"), B(b"abcde"), T("a")), (B(b"abcde"), T("a")),
                               (T("é€"), T("abcde"))):
                        out.append(("sched", e, c, d, ms, 2, "mid", "p"))
    return out


PAD_FRAMES = 260  # x (frame + 255 padding + 1) > 65 535: the initial stream AND connection windows are used up
EARLY_MSGS = ((T("early é"), B(b"\x00early")), (B(b""), T("abc"), T("")))


def extra_scenarios(tier: str) -> List[Any]:
    """multi (two connections in one world), pad (padded HTTP/2 DATA), early (messages during the handshake send)."""
    out: List[Any] = []
    quick = tier == "quick"
    pairs = [(True, False), (False, True), (True, True)] + ([] if quick else [(False, False)])
    for e in ENGINES:
        for carriers in itertools.product(CARRIERS, repeat=2):
            for deflates in pairs:
                for mode in ("seq", "inter"):
                    out.append(("multi", e, carriers, deflates, mode, 2 if quick else 3))
                if not quick and deflates != (False, False):
                    out.append(("multi", e, carriers, deflates, "conc", 2))
        for d in (False, True):
            out.append(("pad", e, "ws/h2", d, PAD_FRAMES, 255))
            if not quick:
                out.append(("pad", e, "ws/h2", d, 40, 0))
                out.append(("pad", e, "ws/h2", d, 40, 1))
        for c in CARRIERS:
            for d in (False, True):
                for ms in (EARLY_MSGS[:1] if quick else EARLY_MSGS):
                    out.append(("early", e, c, d, ms))
                for nmsg, qsize in SLOW_SHAPES[tier]:
                    out.append(("slow", e, c, d, nmsg, qsize))
    return out


def bounds(tier: str, params: Any) -> dict:
    if params[0] == "multi" and params[4] == "conc":
        return {"M": 1, "S": 1, "R": 0}  # (trio with R<=1 is > 10^4 executions per scenario)
    if params[0] == "slow":  # the order of clock jump / lapse / release / Close
        return {"M": 0, "S": 1 if tier == "quick" else 2, "R": 0}
    if params[0] != "sched":
        return {"M": 0, "S": 0, "R": 0}
    if tier == "quick":
        return {"M": 1, "S": 1, "R": 0}
    if params[1] == "trio":  # trio has ~3x the boundaries plus the batch-order choices: M=2 with R=1 is ~5*10^4 per scenario
        return {"M": 1, "S": 1, "R": 1}
    return {"M": 2, "S": 2, "R": 0}


# ---------------------------------------------------------------------------------------------
# oracle


def required_pongs(case: dict) -> Tuple[List[bytes], List[bytes]]:
    """(payloads of the pings the server must answer, payloads of all pings), in sending order."""
    msgs, deflate = case["msgs"], case["deflate"]
    over = first_oversize(msgs, limit_of(case["family"]))
    frames = case["frames"]
    allp: List[bytes] = []
    req: List[bytes] = []
    inflater = zlib.decompressobj(wbits=-15) if deflate else None
    bases: List[Any] = []
    if deflate:  # decompressor state at the start of each message (context takeover)
        for pl in case["payloads"]:
            bases.append(inflater.copy())
            inflater.decompress(pl + b"\x00\x00\xff\xff")
    still = True
    for pos, pay in case["pings"]:
        allp.append(pay)
        if over is None:
            ok = True
        elif pos >= len(frames):
            ok = False
        else:
            mi, _, off = frames[pos]
            if mi < over:
                ok = True
            elif mi > over:
                ok = False
            else:
                prefix = case["payloads"][mi][:off]
                ok = decodable_size(msgs[mi], prefix, deflate, bases[mi].copy() if deflate else None) <= limit_of(case["family"])
        still = still and ok
        if still:
            req.append(pay)
    return req, allp


def _sites(w: Any) -> dict:
    sites: dict = {}
    for v in internal_errors(w):  # asyncio reports the same exception twice (handler + loop): one entry per site
        for site in v["key"].split("+"):
            sites.setdefault(site, v["detail"])
    return sites


def oracle(w: Any, params: Any, case: dict) -> List[dict]:
    out: List[dict] = []
    family = params[0]
    sites = _sites(w)
    if family == "multi":
        _, engine, carriers, deflates, mode, nmsg = params
        pre = f"{mode}:{'+'.join('deflate' if d else 'plain' for d in deflates)}"
        for site, detail in sorted(sites.items()):
            out.append(V("internal-error", f"{pre}:{'+'.join(carriers)}:{site}", detail))
        for k in (0, 1):
            rec = w.conns.get(k)
            if rec is None:
                out.append(V("upgrade", f"{pre}:conn{k}:{carriers[k]}:never-connected", ""))
                continue
            insts = [i for i in w.instances if i.scope.get("path") == f"/w{k}"]
            # (conc: like 'sched', a Close may overtake the echoes still to be sent: they are judged as a prefix)
            out += judge_conn(rec, insts, "sched" if mode == "conc" else family, carriers[k], deflates[k],
                              case["conn"][k], bool(sites), f"{pre}:conn{k}:")
        stray = [i.scope.get("path") for i in w.instances if i.scope.get("path") not in ("/w0", "/w1")]
        if stray:
            out.append(V("upgrade", f"{pre}:stray-instances", stray))
        return out
    carrier, deflate = params[2], params[3]
    for site, detail in sorted(sites.items()):
        out.append(V("internal-error", f"{carrier}:{site}", detail))
    pre = f"{family}:" if family in ("pad", "early", "slow") else ""
    return out + judge_conn(w.conns[0], list(w.instances), family, carrier, deflate, case, bool(sites), pre)


def judge_conn(rec: Any, insts: List[Any], family: str, carrier: str, deflate: bool, case: dict, crashed: bool,
               pre: str) -> List[dict]:
    """The per-connection fidelity oracle: `insts` are the application instances that belong to connection `rec`,
    `case` is the specification of what that connection's client sent."""
    out: List[dict] = []
    tag = pre + carrier + (":deflate" if deflate else "")
    msgs = case["msgs"]
    cl = rec.client
    # the one input trait findings are keyed on: a control frame between two fragments of a compressed message
    frames = case["frames"]
    trait = ""
    if deflate and any(0 < pos < len(frames) and frames[pos - 1][0] == frames[pos][0] for pos, _ in case["pings"]):
        trait = ":ctl-inside-fragmented-deflate-msg"
    tag2 = tag + trait
    if crashed:  # whatever else goes wrong in this execution is (also) a consequence of the crash
        tag2 += ":crashed"
    if cl.error is not None:
        out.append(V("client-parse", f"{tag2}:{cl.error.split(':')[0]}", cl.error))
    if family in ("pad", "multi", "early") and cl.h2 is not None and cl.h2.skipped:  # the scenario asked the client for something its h2 library refuses
        out.append(V("harness-problem", f"{tag}:client-command-refused:{cl.h2.skipped[0][0]}", cl.h2.skipped[:4]))
    wsp = cl.ws if carrier == "ws/h1" else cl.h2.ws.get(1)
    ws_insts = [i for i in insts if i.type == "websocket"]
    if carrier == "ws/h1":
        upgraded = bool(cl.h1.responses) and cl.h1.responses[0]["status"] == 101
    else:
        upgraded = 1 in cl.h2.streams and cl.h2.streams[1]["status"] == 200
    if not upgraded or len(insts) != 1 or len(ws_insts) != 1:
        out.append(V("upgrade", f"{tag}:upgraded={upgraded}:instances={len(insts)}", ""))
        return out
    inst = ws_insts[0]
    delivered = inst.delivered()
    types = [m["type"] for m in delivered]
    if not types or types[0] != "websocket.connect":
        out.append(V("delivery", f"{tag2}:first-not-connect", types))
    odd = [t for t in types[1:] if t not in ("websocket.receive", "websocket.disconnect")]
    if odd:
        out.append(V("delivery", f"{tag2}:unexpected-type:{odd[0]}", types))
    got = [(m.get("bytes"), m.get("text")) for m in delivered if m["type"] == "websocket.receive"]
    got = [(None if b is None else bytes(b), t) for b, t in got]
    over = first_oversize(msgs, limit_of(case["family"]))
    exp_msgs = msgs if over is None else msgs[:over]
    exp = [expected_receive(m) for m in exp_msgs]
    if got != exp:
        if len(got) > len(exp) and got[:len(exp)] == exp:
            kind = "delivered-oversize-or-later" if over is not None else "extra"
        elif len(got) < len(exp) and exp[:len(got)] == got:
            kind = "missing"
        else:
            i = next(j for j in range(min(len(got), len(exp)) + 1)
                     if j >= len(got) or j >= len(exp) or got[j] != exp[j])
            if i < len(got) and i < len(exp) and (got[i][0] is None) != (exp[i][0] is None):
                kind = "wrong-type"
            else:
                kind = "wrong-payload"
        out.append(V("delivery", f"{tag2}:{kind}", _short(f"expected {exp!r} got {got!r}", len(got), len(exp))))
    # what the client saw
    echo_exp = [("text", m[1]) if m[0] == "t" else ("bytes", bytes(m[1])) for m in exp_msgs]
    echo_got = list(wsp.messages) if wsp is not None else []
    if over is None and family not in ("sched", "pings"):  # (pings: the Close shares a read with the messages)
        if echo_got != echo_exp:
            out.append(V("echo", f"{tag2}:mismatch",
                         _short(f"expected {echo_exp!r} got {echo_got!r}", len(echo_got), len(echo_exp))))
    elif echo_got != echo_exp[:len(echo_got)]:
        out.append(V("echo", f"{tag2}:not-a-prefix", f"expected prefix of {echo_exp!r} got {echo_got!r}"))
    if over is not None:
        code = None if wsp is None or wsp.close is None else int(wsp.close[0])
        if code != 1009:
            out.append(V("no-1009", f"{tag2}:close={code}", f"oversize message {over} of {msgs!r}"))
        elif not crashed:
            # "the server closes with 1009": every client here answers with its own Close frame (the last thing it
            # sends) - with that the closing handshake is complete: the application is told (the echo application
            # returns at websocket.disconnect) and an HTTP/1.1 connection is closed by the server
            if inst.outcome == "running":
                out.append(V("no-1009", f"{tag2}:close-handshake-not-completed:application-still-running",
                             f"oversize message {over}; delivered {types}"))
            elif carrier == "ws/h1" and rec.closed_at is None:
                out.append(V("no-1009", f"{tag2}:close-handshake-not-completed:connection-left-open",
                             f"oversize message {over}; delivered {types}"))
    req, allp = required_pongs(case)
    pongs = list(wsp.pongs) if wsp is not None else []
    if not (len(req) <= len(pongs) <= len(allp) and pongs == allp[:len(pongs)]):
        out.append(V("pong", f"{tag2}:mismatch", f"pings {allp!r} required {req!r} pongs {pongs!r}"))
    return out


def _short(text: str, n_got: int, n_exp: int) -> str:
    """Long message lists (the 'pad' family) are summarised by their lengths."""
    return text if len(text) <= 560 else f"{n_got} of {n_exp} messages; {text[:240]} ... {text[-240:]}"


def describe_case(case: dict) -> dict:
    if case["family"] == "multi":
        return {"order": case["order"], "cut": case["cut"],
                "conns": {k: {"msgs": c["msgs"], "deflate": c["deflate"]} for k, c in case["conn"].items()}}
    if case["family"] in ("pad", "early", "slow"):
        return {"messages": len(case["msgs"]), "deflate": case["deflate"], "cuts": case["cuts"],
                "pad": case.get("pad"), "early_frames": case.get("early_frames"), "queue": case.get("queue"),
                "first": case["msgs"][:3]}
    return {"msgs": case["msgs"], "deflate": case["deflate"], "cuts": case["cuts"], "pings": case["pings"],
            "split": case["split"], "reads": len(case["segs"])}


execute = case_execute(build, oracle, None, describe_case)


# wave h documentation (what was added to the enumeration; see DESIGN.md 11.0)
_WAVE_H = "+ after its 1009 Close the server completes the closing handshake when the client's Close arrives (application told; HTTP/1.1 connection closed)"
RULE = RULE + " " + _WAVE_H
BOUNDS_DOC = {k: v + " " + _WAVE_H for k, v in BOUNDS_DOC.items()}
