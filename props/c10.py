"""C10 - WebSocket message fidelity and message-size limit.

What is enumerated (bounded, exhaustive; one execution = one complete client session against the real
TCPServer / H11Protocol|H2Protocol / WSStream / wsproto stack, application = accept + echo):

  engine {asyncio, trio} x carrier {ws/h1 (HTTP/1.1 upgrade), ws/h2 (RFC 8441 extended CONNECT)} x
  permessage-deflate {off, on (context takeover: one compressor shared by the messages of a session)} x
  message sequence (families below, websocket_max_message_size = L = 4, alphabet built around L in *bytes*
  and in *characters*, all UTF-8 widths) x
  EVERY fragmentation of each message into <= K frames (cuts at every byte offset of the on-wire payload,
  so inside code points and inside deflate blocks; empty fragments included) x
  ping frames (payload "" / "p") at EVERY position between two frames (also before the first / after the last) x
  EVERY two-way split of the concatenated frame bytes into two reads, the unsplit stream, and one byte per read.

  families: single (1 message, full alphabet), pair (2 messages), triple (3 messages), ping (pings), and
  sched (Explorer A: frames as separate reads injected mid-flight, bounds M/S/R) for the schedule quantifier.
  The fragmentation, the ping placement and the split are *data choice points* (always fully enumerated).
  Frames come from a hand-written RFC 6455 / 7692 writer (mc/x_c10c11_ref.py); the client's final Close(1000)
  is sent in a read of its own once everything before it was processed.

Oracle (expected values are computed from the message specification, never from hypercorn/wsproto):
  delivery        the application's websocket.receive messages are exactly the messages before the first
                  oversize one (size = characters for text, bytes for binary; oversize = size > L): same
                  type, same payload, once, in order; nothing at/after the oversize message is delivered
  no-1009         an oversize message makes the client see a Close frame with code 1009
  pong            every ping the server must still answer (it precedes the point where the accumulated size
                  can exceed L) gets exactly one pong with the same payload; no other pongs
  echo            what the application sent reaches the independent wsproto client with identical type,
                  payload and order (all of it when no message is oversize; a prefix otherwise, because
                  after its own 1009 Close the server may not send data frames)
  client-parse    the independent client parsers (h11 / h2 / wsproto) accept every byte the server wrote
  internal-error  no unhandled exception in the connection handler / event loop (generic monitor, DESIGN 3)
  upgrade         the (valid) handshake was accepted and exactly one websocket instance ran
"""
from __future__ import annotations

import itertools
import zlib
from functools import lru_cache
from typing import Any, Callable, List, Tuple

from mc.clients import ws_h1_handshake, ws_h2_headers
from mc.explore import V
from mc.harness import internal_errors
from mc.x_c10c11_ref import (OP_BIN, OP_PING, OP_TEXT, close_frame, decodable_size, expected_receive,
                             first_oversize, frame, message_frames, wire_payloads)
from mc.x_c10c11_run import case_execute, make_guard_client

ID = "C10"
LEVEL = "model_checking"
TECHNIQUE = ("bounded exhaustive enumeration of client WebSocket sessions (message sequence x fragmentation x "
             "ping placement x read segmentation x compression x carrier x worker) executed on the real server stack "
             "under the virtual-time engines; plus deviation-bounded schedule exploration of frame arrival")
RULE = ("one execution = one session; non-trivial = a websocket instance ran and a non-default fragmentation/ping/"
        "split/schedule choice was taken; distinct by digest of (messages delivered to the application, send outcomes, "
        "client-side parsed messages/pongs/close, connection end state, logs)")
ASSUMPTIONS = [
    "environment model (fake transport/stream, virtual loop) is bound to real sockets by ./check selftest",
    "websocket_max_message_size = 4 stands for any limit (the comparison is the only place the value is used)",
    "reads are delivered at quiescence (every 2-way split and 1 byte/read) except in the 'sched' family, where "
    "frame arrival is interleaved with the server's own progress within the deviation bounds",
    "pongs are demanded only for pings that precede the point at which the accumulated size can exceed the limit; "
    "echoes are demanded in full only when no message is oversize",
]
BOUNDS_DOC = {
    "quick": "messages<=2 (+3 unfragmented), K<=2 frames/message, <=1 ping, all 2-way splits + bytewise; sched M<=1,S<=1",
    "thorough": "messages<=3, K<=3 frames/message (pairs K<=2, triples mid cut only), <=2 pings, all 2-way splits + bytewise; "
                "sched asyncio M<=2, trio M<=1 with R<=1",
}
BUDGET = {"quick": 100, "thorough": 1150}

L = 4
BIG_L = 1 << 20  # the 'big' family: payload sizes around the 7-bit / 16-bit / 64-bit length encodings of RFC 6455 5.2


def limit_of(family: str) -> int:
    return BIG_L if family == "big" else L


T = lambda s: ("t", s)  # noqa: E731
B = lambda b: ("b", b)  # noqa: E731

# text: empty, 1..4 byte code points, L-1 / L / L+1 characters in ASCII, L and L+1 characters that are far more
# than L bytes, 2 characters that are > L bytes; binary: empty, 1, L-1, L, L+1 bytes.
ALPHABET = [T(""), T("a"), T("é"), T("€"), T("\U0001F600"), T("abc"), T("abcd"), T("abcde"),
            T("€€"), T("éé€\U0001F600"), T("éé€\U0001F600a"),
            B(b""), B(b"\x00"), B(b"\x01\x02\x03"), B(b"\x01\x02\x03\x04"), B(b"\x01\x02\x03\x04\x05")]
R8 = [T("a"), T("é"), T("abcd"), T("abcde"), B(b""), B(b"\x00"), B(b"abcd"), B(b"abcde")]
R6 = [T("a"), T("abcd"), T("abcde"), B(b"\x00"), B(b"abcd"), B(b"abcde")]
R4 = [T("abcd"), T("abcde"), B(b"\x00"), B(b"abcde")]
PING_MSGS = [T("é€"), B(b"\x01\x02\x03"), T("abcde")]

BIG_SIZES = (125, 126, 127, 65535, 65536, 70000)
ENGINES = ("asyncio", "trio")
CARRIERS = ("ws/h1", "ws/h2")
APP = [("recv",), ("send", {"type": "websocket.accept"}), ("echo_ws",)]
BYTEWISE_MAX = 64


# ---------------------------------------------------------------------------------------------
# enumeration


@lru_cache(maxsize=None)
def cut_options(n: int, k: int, mode: str) -> Tuple[Tuple[int, ...], ...]:
    """Fragmentations of an n-byte payload into <= k frames, as sorted tuples of cut offsets."""
    if mode == "mid":
        return ((),) + (((n // 2,),) if k >= 2 else ())
    out: List[Tuple[int, ...]] = []
    for c in range(0, k):
        out.extend(itertools.combinations_with_replacement(range(0, n + 1), c))
    return tuple(out)


@lru_cache(maxsize=None)
def ping_options(nframes: int, mode: str) -> Tuple[Tuple[Tuple[int, bytes], ...], ...]:
    """Ping placements: tuples of (position, payload); position p = before frame p (p = nframes: after all)."""
    if mode == "none":
        return ((),)
    pays = {"p": (b"p",), "both": (b"", b"p"), "two": (b"", b"p")}[mode]
    out: List[Tuple[Tuple[int, bytes], ...]] = [()]
    for p in range(nframes + 1):
        for pay in pays:
            out.append(((p, pay),))
    if mode == "two":
        for p in range(nframes + 1):
            for q in range(p, nframes + 1):
                out.append(((p, b"p"), (q, b"q")))
    return tuple(out)


def plan(params: tuple, pick: Callable[[int, str], int]) -> dict:
    family, engine, carrier, deflate, msgs, k, cutmode, pingmode = params
    payloads = wire_payloads(msgs, deflate)
    frames: List[Tuple[int, bytes, int]] = []  # (message index, frame bytes, wire offset of the frame's payload)
    cuts_taken = []
    for i, (m, pl) in enumerate(zip(msgs, payloads)):
        opts = cut_options(len(pl), k, cutmode)
        cuts = opts[pick(len(opts), "cuts")]
        cuts_taken.append(cuts)
        offs = [0] + list(cuts)
        for j, fb in enumerate(message_frames(OP_TEXT if m[0] == "t" else OP_BIN, pl, cuts, deflate)):
            frames.append((i, fb, offs[j]))
    popts = ping_options(len(frames), pingmode)
    pings = popts[pick(len(popts), "ping")]
    items: List[Tuple[str, Any, bytes]] = []  # ('frame', index, bytes) | ('ping', payload, bytes)
    for p in range(len(frames) + 1):
        for pos, pay in pings:
            if pos == p:
                items.append(("ping", pay, frame(OP_PING, pay)))
        if p < len(frames):
            items.append(("frame", p, frames[p][1]))
    case = {"msgs": msgs, "deflate": deflate, "payloads": payloads, "frames": frames, "cuts": tuple(cuts_taken),
            "pings": pings, "items": items, "family": family}
    if family == "sched":
        case["segs"] = [it[2] for it in items]
        case["split"] = "per-frame"
        return case
    stream = b"".join(it[2] for it in items)
    n = len(stream)
    if family == "big":  # large payloads: the unsplit stream and a lattice of split points around the frame header
        lattice = [0] + sorted({1, 2, 3, 4, 5, 9, 10, 11, 15, n // 2, n - 1} & set(range(1, n)))
        s = lattice[pick(len(lattice), "split")]
        nopt = n
    else:
        nopt = n + (1 if 1 < n <= BYTEWISE_MAX else 0)
        s = pick(max(nopt, 1), "split")
    if n == 0:
        segs: List[bytes] = []
    elif s == 0:
        segs = [stream]
    elif s < n:
        segs = [stream[:s], stream[s:]]
    else:
        segs = [stream[i:i + 1] for i in range(n)]
    case["segs"] = segs
    case["split"] = s if s < n else "bytewise"
    return case


def build(params: tuple, pick: Callable[[int, str], int]) -> tuple:
    family, engine, carrier, deflate = params[:4]
    case = plan(params, pick)
    closing = close_frame(1000)
    if carrier == "ws/h1":
        extra = [(b"Sec-WebSocket-Extensions", b"permessage-deflate")] if deflate else []
        conn = {"carrier": "ws/h1", "deflate": deflate}
        client: List[tuple] = [("data", 0, ws_h1_handshake(b"/w", extra))]
        client += [("cmd", 0, "ws_raw", s) for s in case["segs"]]
        tail = [("cmd", 0, "ws_raw", closing)]
    else:
        extra = [(b"sec-websocket-extensions", b"permessage-deflate")] if deflate else []
        conn = {"carrier": "ws/h2", "tls": True, "alpn": "h2"}
        client = [("cmd", 0, "preface"), ("cmd", 0, "ws_open", 1, deflate),
                  ("cmd", 0, "headers", 1, ws_h2_headers(b"/w", extra), False)]
        client += [("cmd", 0, "ws_data", 1, s) for s in case["segs"]]
        tail = [("cmd", 0, "ws_data", 1, closing)]
    sched = family == "sched"
    sources = [("client", client + tail)]
    sc = {"level": "conn", "conns": {0: conn}, "client_factory": make_guard_client, "apps": {"websocket": APP},
          "config": {"websocket_max_message_size": limit_of(family)}, "sources": sources, "midflight": sched,
          "trio_rev": sched}
    return engine, sc, case


def scenarios(tier: str) -> List[Any]:
    out: List[Any] = []
    combos = [(e, c, d) for e in ENGINES for c in CARRIERS for d in (False, True)]
    if tier == "quick":
        for e, c, d in combos:
            full = not d or (e, c) in (("asyncio", "ws/h1"), ("trio", "ws/h2"))
            for m in ALPHABET:
                out.append(("single", e, c, d, (m,), 2, "all" if full else "mid", "none"))
            for m1 in (R6 if full else R4):
                for m2 in (R6 if full else R4):
                    out.append(("pair", e, c, d, (m1, m2), 1, "all", "none"))
            if full:
                for m in PING_MSGS[:2]:
                    out.append(("ping", e, c, d, (m,), 2, "all", "p"))
            for ms in ((T("abcde"), B(b"\x00"), T("a")), (T("a"), B(b"abcd"), T("é"))):
                out.append(("triple", e, c, d, ms, 1, "all", "none"))
        for e in ENGINES:
            for c in CARRIERS:
                for ms in ((T("a"), B(b"abcd")), (T("abcd"), B(b"abcde"), T("a"))):
                    out.append(("sched", e, c, False, ms, 2, "mid", "p"))
        for e, c, d in combos:
            # (over HTTP/2 one read of the harness client is one DATA frame: it has to fit the 16 384 byte frame size)
            sizes = BIG_SIZES if c == "ws/h1" else (125, 126, 127, 8000, 16000)
            for n in sizes:
                out.append(("big", e, c, d, (B(bytes([n % 251]) * n),), 1, "none", "none"))
            out.append(("big", e, c, d, (T("x" * 126), B(b"y" * (65536 if c == "ws/h1" else 16000))), 1, "none", "none"))
    else:
        for e, c, d in combos:
            for m in ALPHABET:
                out.append(("single", e, c, d, (m,), 3, "all", "p"))
            for m1 in R8:
                for m2 in R8:
                    out.append(("pair", e, c, d, (m1, m2), 2, "all", "none"))
            for m in PING_MSGS:
                out.append(("ping", e, c, d, (m,), 2, "all", "two"))
            for ms in itertools.product(R4, repeat=3):
                out.append(("triple", e, c, d, ms, 2, "mid", "none"))
        for e in ENGINES:
            for c in CARRIERS:
                for d in (False, True):
                    for ms in ((T("a"), B(b"abcd")), (T("abcd"), B(b"abcde"), T("a")), (B(b"abcde"), T("a")),
                               (T("é€"), T("abcde"))):
                        out.append(("sched", e, c, d, ms, 2, "mid", "p"))
    return out


def bounds(tier: str, params: Any) -> dict:
    if params[0] != "sched":
        return {"M": 0, "S": 0, "R": 0}
    if tier == "quick":
        return {"M": 1, "S": 1, "R": 0}
    if params[1] == "trio":  # trio has ~3x the boundaries plus the batch-order choices: M=2 with R=1 is ~5*10^4 per scenario
        return {"M": 1, "S": 1, "R": 1}
    return {"M": 2, "S": 2, "R": 0}


# ---------------------------------------------------------------------------------------------
# oracle


def required_pongs(case: dict) -> Tuple[List[bytes], List[bytes]]:
    """(payloads of the pings the server must answer, payloads of all pings), in sending order."""
    msgs, deflate = case["msgs"], case["deflate"]
    over = first_oversize(msgs, limit_of(case["family"]))
    frames = case["frames"]
    allp: List[bytes] = []
    req: List[bytes] = []
    inflater = zlib.decompressobj(wbits=-15) if deflate else None
    bases: List[Any] = []
    if deflate:  # decompressor state at the start of each message (context takeover)
        for pl in case["payloads"]:
            bases.append(inflater.copy())
            inflater.decompress(pl + b"\x00\x00\xff\xff")
    still = True
    for pos, pay in case["pings"]:
        allp.append(pay)
        if over is None:
            ok = True
        elif pos >= len(frames):
            ok = False
        else:
            mi, _, off = frames[pos]
            if mi < over:
                ok = True
            elif mi > over:
                ok = False
            else:
                prefix = case["payloads"][mi][:off]
                ok = decodable_size(msgs[mi], prefix, deflate, bases[mi].copy() if deflate else None) <= limit_of(case["family"])
        still = still and ok
        if still:
            req.append(pay)
    return req, allp


def oracle(w: Any, params: Any, case: dict) -> List[dict]:
    out: List[dict] = []
    family, engine, carrier, deflate = params[:4]
    tag = carrier + (":deflate" if deflate else "")
    msgs = case["msgs"]
    rec = w.conns[0]
    cl = rec.client
    # the one input trait findings are keyed on: a control frame between two fragments of a compressed message
    frames = case["frames"]
    trait = ""
    if deflate and any(0 < pos < len(frames) and frames[pos - 1][0] == frames[pos][0] for pos, _ in case["pings"]):
        trait = ":ctl-inside-fragmented-deflate-msg"
    tag2 = tag + trait
    sites = {}
    for v in internal_errors(w):  # asyncio reports the same exception twice (handler + loop): one entry per site
        for site in v["key"].split("+"):
            sites.setdefault(site, v["detail"])
    for site, detail in sorted(sites.items()):
        out.append(V("internal-error", f"{carrier}:{site}", detail))
    if sites:  # whatever else goes wrong in this execution is (also) a consequence of the crash
        tag2 += ":crashed"
    if cl.error is not None:
        out.append(V("client-parse", f"{tag2}:{cl.error.split(':')[0]}", cl.error))
    wsp = cl.ws if carrier == "ws/h1" else cl.h2.ws.get(1)
    ws_insts = [i for i in w.instances if i.type == "websocket"]
    if carrier == "ws/h1":
        upgraded = bool(cl.h1.responses) and cl.h1.responses[0]["status"] == 101
    else:
        upgraded = 1 in cl.h2.streams and cl.h2.streams[1]["status"] == 200
    if not upgraded or len(w.instances) != 1 or len(ws_insts) != 1:
        out.append(V("upgrade", f"{tag}:upgraded={upgraded}:instances={len(w.instances)}", ""))
        return out
    inst = ws_insts[0]
    delivered = inst.delivered()
    types = [m["type"] for m in delivered]
    if not types or types[0] != "websocket.connect":
        out.append(V("delivery", f"{tag2}:first-not-connect", types))
    odd = [t for t in types[1:] if t not in ("websocket.receive", "websocket.disconnect")]
    if odd:
        out.append(V("delivery", f"{tag2}:unexpected-type:{odd[0]}", types))
    got = [(m.get("bytes"), m.get("text")) for m in delivered if m["type"] == "websocket.receive"]
    got = [(None if b is None else bytes(b), t) for b, t in got]
    over = first_oversize(msgs, limit_of(case["family"]))
    exp_msgs = msgs if over is None else msgs[:over]
    exp = [expected_receive(m) for m in exp_msgs]
    if got != exp:
        if len(got) > len(exp) and got[:len(exp)] == exp:
            kind = "delivered-oversize-or-later" if over is not None else "extra"
        elif len(got) < len(exp) and exp[:len(got)] == got:
            kind = "missing"
        else:
            i = next(j for j in range(min(len(got), len(exp)) + 1)
                     if j >= len(got) or j >= len(exp) or got[j] != exp[j])
            if i < len(got) and i < len(exp) and (got[i][0] is None) != (exp[i][0] is None):
                kind = "wrong-type"
            else:
                kind = "wrong-payload"
        out.append(V("delivery", f"{tag2}:{kind}", f"expected {exp!r} got {got!r}"))
    # what the client saw
    echo_exp = [("text", m[1]) if m[0] == "t" else ("bytes", bytes(m[1])) for m in exp_msgs]
    echo_got = list(wsp.messages) if wsp is not None else []
    if over is None and family != "sched":
        if echo_got != echo_exp:
            out.append(V("echo", f"{tag2}:mismatch", f"expected {echo_exp!r} got {echo_got!r}"))
    elif echo_got != echo_exp[:len(echo_got)]:
        out.append(V("echo", f"{tag2}:not-a-prefix", f"expected prefix of {echo_exp!r} got {echo_got!r}"))
    if over is not None:
        code = None if wsp is None or wsp.close is None else int(wsp.close[0])
        if code != 1009:
            out.append(V("no-1009", f"{tag2}:close={code}", f"oversize message {over} of {msgs!r}"))
    req, allp = required_pongs(case)
    pongs = list(wsp.pongs) if wsp is not None else []
    if not (len(req) <= len(pongs) <= len(allp) and pongs == allp[:len(pongs)]):
        out.append(V("pong", f"{tag2}:mismatch", f"pings {allp!r} required {req!r} pongs {pongs!r}"))
    return out


def describe_case(case: dict) -> dict:
    return {"msgs": case["msgs"], "deflate": case["deflate"], "cuts": case["cuts"], "pings": case["pings"],
            "split": case["split"], "reads": len(case["segs"])}


execute = case_execute(build, oracle, None, describe_case)
