"""C11 - WebSocket handshake validation and lifecycle mapping.

What is enumerated (bounded, exhaustive; every execution runs the real TCPServer / H11Protocol|H2Protocol /
WSStream stack on the asyncio and on the trio engine; the handshake, the application program and the closing
order are *data choice points* unless stated otherwise):

  hs1   HTTP/1.x handshake header product: Upgrade {missing, websocket, WebSocket, foo, repeated, "websocket, foo",
        two lines foo+websocket} x Connection {missing, Upgrade, upgrade, keep-alive, two lines in both orders,
        "keep-alive, Upgrade"} x Sec-WebSocket-Key {missing, valid, not base64/16, empty, two differing} x
        Sec-WebSocket-Version {missing, 13, 8, 013, "13, 8", two lines 8+13, 13+8} x method {GET, POST} x
        HTTP version {1.1, 1.0}  (full product), application = accept.
  hs2   HTTP/2 request product: :method {CONNECT, GET} x :protocol {missing, websocket, WebSocket, foo} x
        {with, without :scheme/:path} x version {missing, 13, 8, 8+13, 13+8} (full product; the client's own
        outbound header validation is switched off so that every combination reaches the server).
  dec   application decision sequences generated from the ASGI reference automaton (every sequence of <= DEPTH
        sends: accept plain / with an offered / with an unoffered subprotocol / with extra headers / with a
        forbidden header, close, close(code), http.response.start 200 (chunked / content-length) / 404 / 204, body chunks, send text/bytes,
        followed by crash / return / wait-for-disconnect) x client offers {none, subprotocols, permessage-deflate,
        both} x carrier {ws/h1, ws/h2} x closing order {client Close with code none/1000/1001/3000, reply to the
        server's Close, EOF, reset, RST_STREAM, none}.
  off   offer header variants: Sec-WebSocket-Protocol {missing, one, list, two lines (both orders), odd case} x
        Sec-WebSocket-Extensions {missing, permessage-deflate, foo, with parameter, lists, two lines} x accept
        {plain, "chat", "superchat", unoffered} x carrier, then one text message and a client Close.
  race  Explorer A (M mid-flight injections, S preemptions, trio R): application close vs. client Close vs.
        EOF/reset as independent sources -> client first, server first, simultaneous, abrupt.
  hswin the handshake-response window: the peer stops reading (transport write blocks: trio send_all parks, asyncio
        buffers and blocks above the 64 KiB high-water mark), the handshake arrives, the application accepts
        {plain, with a subprotocol, with a response head > 64 KiB} x client offers; then the closing event {client
        Close with code none/1000/1001/3000, EOF, reset, RST_STREAM} arrives {while the 101 / 200 is still in flight
        (before the peer reads again), after the peer has read again}; x carrier x worker.  Thorough tier: the same
        events injected mid-flight as well (Explorer A).
  clwin the close-frame window (the CLOSE direction of hswin): the session is established, the peer stops reading, the
        application sends websocket.close {1000, 3001 + reason} - directly, or after one binary message that fills the
        server's buffers up to a boundary value of the documented limits (asyncio transport high-water mark 64 KiB;
        HTTP/2 stream buffer 2 x 16 384 after 0..3 frames / the whole 65 535 byte window went below), so that the write
        of the close frame itself waits (trio: send_all parks; asyncio: drain(); HTTP/2: the stream buffer's push) -
        then the closing event {client Close with code none/1001/3000, EOF, reset, RST_STREAM} arrives {while that send
        is under way, after the peer has read again}; x carrier x worker.  Thorough: also injected mid-flight.
  ka    keep-alive histories on one HTTP/1.1 connection: k in {0,1,2} ordinary requests, then the upgrade, with
        keep_alive_max_requests in {k, k+1, k+2} (the upgrade is beyond / exactly at / one before the limit) x accept
        {plain, subprotocol, extra headers}, client offers subprotocols + permessage-deflate; one message, client Close.
  cfg   configuration axis (scenarios whose last parameter is "cfg:<configuration>/<spelling>", HTTP/1.1 carrier): a
        sub-product of hs1 (Upgrade {websocket, WebSocket, foo, "websocket, foo"} x Connection {Upgrade, upgrade,
        keep-alive, "keep-alive, Upgrade"} x every key / version / method / HTTP version) under h11_pass_raw_headers = True
        with the client writing the field names as the RFCs print them / all lower case / all upper case; the plain
        Upgrade: websocket row also under server_names = [the handshake's host] and under both; ka under raw headers; off
        (all offer header variants) under raw headers and raw headers + server_names (upper-case names); dec (every
        program of <= 2 sends, client offers subprotocols + permessage-deflate) under raw headers and raw headers +
        server_names (lower-case names).  Same reference verdicts and rendering demands as under the default.

Oracle (reference: mc/x_c10c11_ref.py - RFC 6455 4.2.1 validity predicate, accept token via hashlib, ASGI decision
automaton; no hypercorn code):
  upgrade-on-invalid-handshake   a websocket instance / a 101 / a 200 only if the predicate says valid (or unspec)
  invalid-handshake-not-400      an invalid handshake gets 400 and starts no application (a request that is not
                                 strictly a websocket GET may instead be served as ordinary HTTP: RFC 7230 6.7)
  valid-handshake-not-upgraded   a plainly valid handshake starts exactly one websocket instance
  first-message                  the first message an instance receives is websocket.connect
  accept-rendering               accept => 101 (h1) / 200 (h2), sec-websocket-accept = b64(sha1(key+GUID)),
                                 Upgrade: websocket, a Connection header that is exactly the token Upgrade (RFC 6455
                                 4.2.2 5.3: no "close" next to it), the chosen subprotocol iff one was chosen, the extra
                                 headers, an extension only if offered, and an extension the server USES (RSV1 on a
                                 frame it wrote, read by a hand-written frame reader) announced in the 101 AND in the
                                 HTTP/2 200; the raw 101 is accepted by an independent wsproto client that sent this
                                 handshake (same key, offers); then the application's messages/close reach the wsproto
                                 client - which enables only the extensions the response accepted - unchanged
  subprotocol-not-offered        never a subprotocol the client did not offer
  close-rendering                close => 403;  response-rendering: the HTTP-response extension gives exactly that
                                 status, headers (in order) and body, complete
  no-decision-rendering          application ended without deciding => nothing but a 500
  disconnect-code                websocket.disconnect carries the client's close code (1005 if none) after a
                                 client-initiated close, 1000 after the application's own close, 1006 on loss;
                                 when several closing events raced, any of their codes
  client-parse / internal-error  generic monitors
"""
from __future__ import annotations

from typing import Any, Callable, Dict, List, Optional, Tuple

from mc.clients import h1_request
from mc.explore import V
from mc.harness import internal_errors
from mc.x_c10c11_ref import (INVALID, NOT_WS, VALID, DecisionModel, classify_h1, classify_h2, close_frame,
                             server_frames, ws_accept_token)
from mc.x_c10c11_run import (GuardClient, case_execute, make_window_client, negotiated_deflate, raw_upgrade_response,
                             wsproto_client_verdict)

ID = "C11"
LEVEL = "model_checking"
TECHNIQUE = ("bounded exhaustive enumeration of handshakes (header product; a sub-product again under raw header names / "
             "server_names with the field names in RFC, lower and upper case), of application decision sequences "
             "(generated from the ASGI reference automaton) and of closing orders - including closing events that arrive "
             "while the handshake response, or the application's own close frame, is still being sent to a stalled peer "
             "(buffers filled to the boundary values of the documented limits) - and of keep-alive histories that put the "
             "upgrade at / around keep_alive_max_requests, executed on the real server stack under the virtual-time engines; "
             "handshake responses judged by an independent, extension-negotiating wsproto client; deviation-bounded "
             "schedule exploration for racing closes")
RULE = ("one execution = one connection; non-trivial = an application instance ran and a non-default data/schedule "
        "choice was taken; distinct by digest of (instances' message sequences and send outcomes, parsed client-side "
        "responses/frames, connection end state, logs)")
ASSUMPTIONS = [
    "environment model (fake transport/stream, virtual loop) is bound to real sockets by ./check selftest",
    "handshakes on which RFC 6455/7230/8441 leave the server a choice (several Upgrade protocols or header lines, "
    "repeated differing key/version headers, malformed key, odd-case :protocol) are accepted either way",
    "a handshake that is not strictly a websocket GET may be served as an ordinary HTTP request (RFC 7230 6.7)",
    "after an accept the reference automaton refuses (unoffered subprotocol, forbidden header) only the invariants "
    "(no unoffered subprotocol on the wire, parsable output, no internal error) are judged",
    "disconnect code: with all events injected at quiescence the first closing event decides; under mid-flight "
    "injection any fired closing event's code is accepted",
    "hswin: a client may send its Close as soon as the application has accepted, although the 101 / 200 has not "
    "reached it yet (its own reading is stalled; over HTTP/2 DATA may follow the CONNECT HEADERS at once); the arrival "
    "is placed in that window by a guard on the application's websocket.accept.  After an EOF / reset / RST_STREAM "
    "inside the window the handshake response need not reach the client",
    "clwin: the filler sizes are the boundary values of documented limits (asyncio write-buffer high-water mark 64 KiB, "
    "hypercorn's HTTP/2 stream buffer 2 x 16 384, default frame size and window); whether the close frame's write "
    "really waited is not observed, the disconnect code 1000 (or the application's own code) is demanded either way; "
    "the wire is judged only where the client stayed to read it",
    "ka: 0..2 ordinary requests before the upgrade stand for any number; when the limit ends the connection before "
    "the upgrade can be sent nothing is judged",
    "configuration axis: field names are case-insensitive (RFC 7230 3.2) and neither h11_pass_raw_headers nor a "
    "server_names list naming the handshake's host is a reason to treat a handshake differently: verdicts and rendering "
    "demands are those of the default configuration",
]
BOUNDS_DOC = {"quick": "hs1/hs2/off full products; decision sequences depth<=3 sends; race M<=1,S<=2; hswin 3 accept kinds "
                       "x 6-7 closing events x 2 timings at quiescence; clwin 2 close codes x 1-6 filler sizes x 5-6 closing "
                       "events x 2 timings at quiescence; ka k<=2 x 3 limits x 3 accept kinds; configuration axis: hs1 sub-product "
                       "4 x 4 x 140 under raw headers x 3 spellings (+ the websocket row under server_names / both), ka and "
                       "all offer variants under raw headers, decision sequences depth<=2 sends under raw / raw + server_names",
              "thorough": "hs1/hs2/off full products; decision sequences depth<=5 sends; race M<=2,S<=3, trio R<=1; hswin "
                          "6 accept/offer kinds x 6-7 closing events x 2 timings, events also injected mid-flight M<=2 "
                          "for the plain accept, M<=1 for the other accept kinds, none for the > 64 KiB response head (trio R<=1); "
                          "clwin as quick plus events injected mid-flight M<=1 (trio R<=1); ka as quick; configuration "
                          "axis as quick"}
BUDGET = {"quick": 300, "thorough": 1150}

ENGINES = ("asyncio", "trio")
KEY = b"dGhlIHNhbXBsZSBub25jZQ=="
KEY2 = b"AAECAwQFBgcICQoLDA0ODw=="

# ---------------------------------------------------------------------------------------------
# hs1 / hs2 alphabets (None = header absent, list = one header line per element)

UPG = [None, [b"websocket"], [b"WebSocket"], [b"foo"], [b"websocket", b"websocket"], [b"websocket, foo"],
       [b"foo", b"websocket"], [b"websocket, caf\xe9/1"]]  # (the last: obs-text in a protocol name next to websocket)
CON = [None, [b"Upgrade"], [b"upgrade"], [b"keep-alive"], [b"keep-alive", b"Upgrade"], [b"Upgrade", b"keep-alive"],
       [b"keep-alive, Upgrade"]]
KEYS = [None, [KEY], [b"abc"], [b""], [KEY, KEY2]]
VERS = [None, [b"13"], [b"8"], [b"013"], [b"13, 8"], [b"8", b"13"], [b"13", b"8"]]
METHODS = [b"GET", b"POST"]
HTTPV = [b"1.1", b"1.0"]

H2_METHOD = [b"CONNECT", b"GET"]
H2_PROTO = [None, b"websocket", b"WebSocket", b"foo"]
H2_FORM = ["full", "authority-only"]
H2_VERS = [None, [b"13"], [b"8"], [b"8", b"13"], [b"13", b"8"]]

HS_APPS = {
    "websocket": [("recv",), ("send", {"type": "websocket.accept"}), ("recv_until_disconnect",)],
    "http": [("recv_body",),
             ("send", {"type": "http.response.start", "status": 200, "headers": [(b"content-length", b"2")]}),
             ("send", {"type": "http.response.body", "body": b"ok"})],
}

# ---------------------------------------------------------------------------------------------
# dec: application messages

OFFERS = {"none": ([], False), "sub": (["chat", "superchat"], False), "ext": ([], True),
          "sub+ext": (["chat", "superchat"], True)}
MSG: Dict[str, dict] = {
    "acc": {"type": "websocket.accept"},
    "acc_sub": {"type": "websocket.accept", "subprotocol": "superchat"},
    "acc_chat": {"type": "websocket.accept", "subprotocol": "chat"},
    "acc_bad": {"type": "websocket.accept", "subprotocol": "nope"},
    "acc_hdr": {"type": "websocket.accept", "headers": [(b"x-extra", b"1"), (b"x-two", b"2")]},
    "acc_forb": {"type": "websocket.accept", "headers": [(b"sec-websocket-protocol", b"chat")]},
    # a response head larger than the transport's write-buffer high-water mark (64 KiB): with a peer that is not
    # reading, the send of the 101 / 200 itself blocks on the asyncio worker too
    "acc_big": {"type": "websocket.accept", "headers": [(b"x-pad-%d" % i, b"~" * 14000) for i in range(6)]},
    "close": {"type": "websocket.close"},
    "close_c": {"type": "websocket.close", "code": 3001, "reason": "bye"},
    "start200": {"type": "websocket.http.response.start", "status": 200, "headers": [(b"x-a", b"b"), (b"x-c", b"d")]},
    "start_cl": {"type": "websocket.http.response.start", "status": 200,
                 "headers": [(b"content-length", b"3"), (b"x-a", b"b")]},
    "start404": {"type": "websocket.http.response.start", "status": 404, "headers": [(b"content-type", b"text/plain")]},
    "start204": {"type": "websocket.http.response.start", "status": 204, "headers": []},
    "body_more": {"type": "websocket.http.response.body", "body": b"he", "more_body": True},
    "body_end": {"type": "websocket.http.response.body", "body": b"llo", "more_body": False},
    "body_nil": {"type": "websocket.http.response.body", "body": b"", "more_body": False},
    "send_t": {"type": "websocket.send", "text": "hé"},
    "send_b": {"type": "websocket.send", "bytes": b"\x00\x01"},
}
TERMINALS = ("raise", "return", "wait")
# hswin: what the client does while the server's send of the handshake response is pending / right after it completed
HSWIN_CLOSINGS = ("cc:none", "cc:1000", "cc:1001", "cc:3000", "eof", "reset", "rst")
HSWIN_TIMINGS = ("during", "after")

# clwin: the application's close is written to a peer that is not reading.  What precedes it (data choice):
#   ("none", 0)        nothing: the close frame is the first write to the stalled peer (trio: send_all parks at once)
#   ("buffered", n)    one binary message whose frame is n bytes on the wire, written after the peer stalled: it sits in
#                      the server's buffers and the few bytes of the close frame are what crosses the limit.  n takes the
#                      boundary values of the documented limits: the asyncio transport's write-buffer high-water mark
#                      (64 KiB, the write that takes the buffer ABOVE it waits in drain()) and, over HTTP/2, the stream
#                      buffer's high-water mark (2 x 16 384: the push that takes it TO the mark waits) after the layers
#                      below have taken 0..3 frames of 16 384 / the whole 65 535 byte flow-control window.
AIO_HIGH_WATER = 64 * 1024
H2_BUFFER_HIGH = 2 * 2 ** 14
H2_FRAME_MAX = 2 ** 14
H2_INITIAL_WINDOW = 65535
CLWIN_CLOSINGS = ("cc:none", "cc:1001", "cc:3000", "eof", "reset", "rst")
CLWIN_TIMINGS = ("during", "after")


def clwin_fills(engine: str, carrier: str) -> List[Tuple[str, int]]:
    fills: List[Tuple[str, int]] = [("none", 0)]
    if carrier == "ws/h1":
        if engine == "asyncio":  # (trio has no write buffer: the first write to a stalled peer parks, whatever its size)
            fills += [("buffered", 1000), ("buffered", AIO_HIGH_WATER - 3), ("buffered", AIO_HIGH_WATER)]
    else:
        taken = [0, H2_FRAME_MAX, 2 * H2_FRAME_MAX, 3 * H2_FRAME_MAX, H2_INITIAL_WINDOW]
        fills += [("buffered", t + H2_BUFFER_HIGH - 2) for t in taken]
    return fills


def fill_message(frame_len: int) -> dict:
    """A binary message whose single frame is frame_len bytes on the wire (RFC 6455 5.2, server side: no mask)."""
    n = frame_len - 2
    if n >= 126:
        n = frame_len - 4
        if n >= 65536:
            n = frame_len - 10
    return {"type": "websocket.send", "bytes": bytes([n % 251]) * n}


# off: offer header variants (RFC 6455 11.3.2 / 11.3.4: both headers may appear several times, which "is logically
# the same as a single header field that contains all values")
SUBV = [None, [b"chat"], [b"chat, superchat"], [b"chat", b"superchat"], [b"superchat", b"chat"], [b"Chat"]]
EXTV = [None, [b"permessage-deflate"], [b"foo"], [b"permessage-deflate; client_max_window_bits"],
        [b"foo, permessage-deflate"], [b"permessage-deflate", b"foo"], [b"foo", b"permessage-deflate"]]
OFF_ACCEPTS = ["acc", "acc_chat", "acc_sub", "acc_bad"]


def sequences(depth: int) -> List[Tuple[str, ...]]:
    """Every application program the reference automaton distinguishes with <= depth sends + a terminal op."""
    out: List[Tuple[str, ...]] = []

    def term(prefix: Tuple[str, ...], terms: Tuple[str, ...] = TERMINALS) -> None:
        for t in terms:
            out.append(prefix + (t,))

    def connected(prefix: Tuple[str, ...]) -> None:
        term(prefix)
        if len(prefix) >= depth:
            return
        for op in ("close", "close_c"):
            term(prefix + (op,), ("return", "wait"))
        for op in ("send_t", "send_b"):
            connected(prefix + (op,))

    def response(prefix: Tuple[str, ...], kind: str) -> None:
        term(prefix, ("raise", "return"))
        if len(prefix) >= depth:
            return
        if kind == "204":
            term(prefix + ("body_nil",), ("return", "wait"))
            return
        term(prefix + ("body_end",), ("return", "wait"))
        if kind == "cl":
            return
        if len(prefix) + 1 < depth:
            term(prefix + ("body_more", "body_end"), ("return", "wait"))
            term(prefix + ("body_more",), ("raise",))

    term(())
    for a in ("acc", "acc_sub", "acc_hdr"):
        connected((a,))
    for a in ("acc_bad", "acc_forb"):
        term((a,))
        if depth >= 2:
            for nxt in ("acc", "close"):
                term((a, nxt), ("return", "wait"))
    for c in ("close", "close_c"):
        term((c,), ("return", "wait"))
    response(("start200",), "chunked")
    response(("start404",), "chunked")
    response(("start_cl",), "cl")
    response(("start204",), "204")
    return out


def program(seq: Tuple[str, ...]) -> List[tuple]:
    prog: List[tuple] = [("recv",)]
    for op in seq:
        if op == "raise":
            prog.append(("raise",))
        elif op == "return":
            prog.append(("return",))
        elif op == "wait":
            prog.append(("recv_until_disconnect",))
        elif op == "gate":
            prog.append(("gate", "g"))
        elif isinstance(op, tuple):
            prog.append(("send", fill_message(op[1])))
        else:
            prog.append(("send", MSG[op]))
    return prog


def run_model(seq: Tuple[str, ...], offered: List[str]) -> DecisionModel:
    m = DecisionModel(offered)
    for op in seq:
        if isinstance(op, tuple):
            m.feed(fill_message(op[1]))
        elif op in MSG:
            m.feed(MSG[op])
    return m


def closings(seq: Tuple[str, ...], model: DecisionModel, carrier: str) -> List[str]:
    waits = seq[-1] == "wait"
    abrupt = ["eof", "reset"] + (["rst"] if carrier == "ws/h2" else [])
    d = model.decision
    if d is not None and d[0] == "accept" and not model.undefined:
        if model.state == "connected":
            return (["cc:none", "cc:1000", "cc:1001", "cc:3000"] + abrupt) if waits else ["none"]
        return (["reply", "none"] + abrupt) if waits else ["none", "reply"]
    if d is None and not model.undefined:
        return abrupt if waits else ["none"]
    return ["none", "eof"] if waits else ["none"]


# ---------------------------------------------------------------------------------------------
# clients


class C11Client(GuardClient):
    """GuardClient whose h2 side sends whatever header block it is told to (no outbound validation)."""

    def __init__(self, opts: dict) -> None:
        super().__init__(opts)
        if self.h2 is not None and opts.get("raw_headers"):
            self.h2.conn.config.validate_outbound_headers = False
            self.h2.conn.config.normalize_outbound_headers = False


def make_client(world: Any, k: int, opts: dict) -> C11Client:
    return C11Client(opts)


def h1_handshake(method: bytes, version: bytes, lines: List[Tuple[bytes, Optional[List[bytes]]]],
                 spell: Optional[Callable[[bytes], bytes]] = None) -> Tuple[bytes, list]:
    """spell: how the client writes the field names (None: as the RFCs print them)."""
    hs = []
    for name, vals in lines:
        for v in (vals or []):
            hs.append((name, v))
    if spell is None:
        return h1_request(method, b"/w", hs, version=version), hs
    hs = [(spell(n), v) for n, v in hs]
    return h1_request(method, b"/w", [(spell(b"Host"), b"hypercorn")] + hs, version=version, host=None), hs


# ---------------------------------------------------------------------------------------------
# configuration axis: a scenario whose last parameter is "cfg:<configuration>/<spelling>" runs under that non-default
# configuration with the client writing the handshake's field names in that spelling.  Field names are case-insensitive
# (RFC 7230 3.2) and neither option is mentioned by RFC 6455 / the property: the reference verdicts and the rendering
# demands are those of the default configuration.
#   raw      h11_pass_raw_headers = True (the stream is handed the names as the client spelt them)
#   sn       server_names = [the host the handshakes name]
CFGS: Dict[str, dict] = {
    "raw": {"h11_pass_raw_headers": True},
    "sn": {"server_names": ["hypercorn"]},
    "raw+sn": {"h11_pass_raw_headers": True, "server_names": ["hypercorn"]},
}
SPELL: Dict[str, Optional[Callable[[bytes], bytes]]] = {"rfc": None, "lower": bytes.lower, "upper": bytes.upper}


def cfg_tag(params: tuple) -> Optional[str]:
    last = params[-1]
    return last[4:] if isinstance(last, str) and last.startswith("cfg:") else None


# ---------------------------------------------------------------------------------------------
# build


def build(params: tuple, pick: Callable[[int, str], int]) -> tuple:
    family, engine = params[0], params[1]
    case: Dict[str, Any] = {"family": family}
    config: Dict[str, Any] = {}
    spell = None
    tag = cfg_tag(params)
    if tag is not None:
        params = params[:-1]
        cfgname, spelling = tag.split("/")
        config.update(CFGS[cfgname])
        spell = SPELL[spelling]
        case["cfg"] = tag
    sources: List[tuple]
    midflight = False
    if family == "hs1":
        upg, con = UPG[params[2]], CON[params[3]]
        key = KEYS[pick(len(KEYS), "key")]
        ver = VERS[pick(len(VERS), "version")]
        method = METHODS[pick(len(METHODS), "method")]
        httpv = HTTPV[pick(len(HTTPV), "httpv")]
        req, hs = h1_handshake(method, httpv, [(b"Upgrade", upg), (b"Connection", con), (b"Sec-WebSocket-Key", key),
                                               (b"Sec-WebSocket-Version", ver)], spell)
        case.update(carrier="ws/h1", method=method, httpv=httpv, headers=hs, keys=key or [])
        conn = {"carrier": "ws/h1", "methods": [method]}
        sources = [("client", [("data", 0, req), ("eof", 0)])]
        apps = HS_APPS
    elif family == "hs2":
        method = H2_METHOD[pick(len(H2_METHOD), "method")]
        proto = H2_PROTO[pick(len(H2_PROTO), "protocol")]
        form = H2_FORM[pick(len(H2_FORM), "form")]
        ver = H2_VERS[pick(len(H2_VERS), "version")]
        hdrs = [(b":method", method)]
        if proto is not None:
            hdrs.append((b":protocol", proto))
        if form == "full":
            hdrs += [(b":scheme", b"https"), (b":path", b"/w")]
        hdrs.append((b":authority", b"hypercorn"))
        for v in (ver or []):
            hdrs.append((b"sec-websocket-version", v))
        case.update(carrier="ws/h2", headers=hdrs)
        conn = {"carrier": "ws/h2", "tls": True, "alpn": "h2", "raw_headers": True}
        sources = [("client", [("cmd", 0, "preface"), ("cmd", 0, "ws_open", 1),
                               ("cmd", 0, "headers", 1, hdrs, method == b"GET"), ("eof", 0)])]
        apps = HS_APPS
    else:
        carrier = params[2]
        sub_lines: Optional[List[bytes]] = None
        ext_lines: Optional[List[bytes]] = None
        timing = None
        if family == "hswin":
            offer, seq = params[3], (params[4], "wait")
            offered, ext = OFFERS[offer]
            if offered:
                sub_lines = [", ".join(offered).encode()]
            if ext:
                ext_lines = [b"permessage-deflate"]
        elif family == "clwin":
            # accept, wait for the explorer (the peer stalls meanwhile), [a message that fills the buffers], close
            fills = clwin_fills(engine, carrier)
            fill = fills[pick(len(fills), "fill")]
            seq = ("acc", "gate") + ((("fill", fill[1]),) if fill[0] != "none" else ()) + (params[4], "wait")
            offered, ext = OFFERS[params[3]]
            case["fill"] = fill
        elif family == "ka":
            # keep-alive history: k ordinary requests, then the upgrade, all on one HTTP/1.1 connection
            offered, ext = OFFERS["sub+ext"]
            sub_lines, ext_lines = [", ".join(offered).encode()], [b"permessage-deflate"]
            seq = (("acc", "acc_sub", "acc_hdr")[pick(3, "accept")], "send_t", "wait")
            config["keep_alive_max_requests"] = params[3] + params[4]
            case.update(pre=params[3], keep_alive_max_requests=params[3] + params[4])
        elif family == "off":
            sub_lines, ext_lines = SUBV[params[3]], EXTV[params[4]]
            offered = [t.strip().decode() for v in (sub_lines or []) for t in v.split(b",") if t.strip()]
            ext = any(t.strip().startswith(b"permessage-deflate") for v in (ext_lines or []) for t in v.split(b","))
            seq = (OFF_ACCEPTS[pick(len(OFF_ACCEPTS), "accept")], "send_t", "wait")
        else:
            offer, seq = params[3], params[4]
            offered, ext = OFFERS[offer]
            if offered:
                sub_lines = [", ".join(offered).encode()]
            if ext:
                ext_lines = [b"permessage-deflate"]
        model = run_model(seq, offered)
        if family == "dec":
            opts = closings(seq, model, carrier)
            closing = opts[pick(len(opts), "closing")]
        elif family == "off":
            closing = "cc:1000" if model.state == "connected" else "none"
        elif family == "hswin":
            opts = [c for c in HSWIN_CLOSINGS if c != "rst" or carrier == "ws/h2"]
            closing = opts[pick(len(opts), "closing")]
            timing = HSWIN_TIMINGS[pick(len(HSWIN_TIMINGS), "timing")]
        elif family == "clwin":
            opts = [c for c in CLWIN_CLOSINGS if c != "rst" or carrier == "ws/h2"]
            closing = opts[pick(len(opts), "closing")]
            timing = CLWIN_TIMINGS[pick(len(CLWIN_TIMINGS), "timing")]
        elif family == "ka":
            closing = "cc:1000"
        else:
            closing = params[5]
        case.update(carrier=carrier, offered=offered, ext=ext, seq=seq, closing=closing, model=model,
                    sub_lines=sub_lines, ext_lines=ext_lines, timing=timing)
        extra1, extra2 = [], []
        for v in (sub_lines or []):
            extra1.append((b"Sec-WebSocket-Protocol", v))
            extra2.append((b"sec-websocket-protocol", v))
        for v in (ext_lines or []):
            extra1.append((b"Sec-WebSocket-Extensions", v))
            extra2.append((b"sec-websocket-extensions", v))
        own_code = None
        for op in seq:
            if op in ("close", "close_c") and model.state == "closed":
                own_code = int(MSG[op].get("code", 1000))
        if carrier == "ws/h1":
            req, hs = h1_handshake(b"GET", b"1.1", [(b"Upgrade", [b"websocket"]), (b"Connection", [b"Upgrade"]),
                                                     (b"Sec-WebSocket-Key", [KEY]), (b"Sec-WebSocket-Version", [b"13"])]
                                   + [(n, [v]) for n, v in extra1], spell)
            conn = {"carrier": "ws/h1", "deflate": ext}
            client: List[tuple] = [("data", 0, req)]
            if family == "ka":
                pre = case["pre"]
                conn.update(methods=[b"GET"] * (pre + 1), upgrade_at=pre)
                client = [("data", 0, h1_request(b"GET", b"/p%d" % i)) for i in range(pre)] + client
                case["hs_event"] = client[-1]
            wsev = lambda b: ("cmd", 0, "ws_raw", b)  # noqa: E731
        else:
            hdrs = [(b":method", b"CONNECT"), (b":protocol", b"websocket"), (b":scheme", b"https"), (b":path", b"/w"),
                    (b":authority", b"hypercorn"), (b"sec-websocket-version", b"13")] + extra2
            conn = {"carrier": "ws/h2", "tls": True, "alpn": "h2"}
            client = [("cmd", 0, "preface"), ("cmd", 0, "ws_open", 1, ext), ("cmd", 0, "headers", 1, hdrs, False)]
            wsev = lambda b: ("cmd", 0, "ws_data", 1, b)  # noqa: E731
        case["keys"] = [KEY]

        def closing_events(name: str) -> List[tuple]:
            if name.startswith("cc:"):
                c = name[3:]
                return [wsev(close_frame(None if c == "none" else int(c)))]
            if name == "reply":
                return [wsev(close_frame(own_code if own_code is not None else 1000))]
            guard = [("cmd", 0, "ws_wait")] if family == "race" else []  # abrupt loss of an *established* session
            if name == "armfail":
                # the server's NEXT write fails (the peer vanished without the server having noticed): with an
                # application that only waits, that next write is the reply to the client's Close - the client's
                # close frame was received in full before anything went wrong, so its code is what happened
                return guard + [("wfail", 0)]
            if name == "eof":
                return guard + [("eof", 0)]
            if name == "reset":
                return guard + [("reset", 0)]
            if name == "rst":
                return guard + [("cmd", 0, "rst", 1, 8)]
            return []

        if family in ("dec", "off"):
            sources = [("client", client + closing_events(closing))]
            apps = {"websocket": program(seq)}
        elif family == "ka":
            sources = [("client", client + closing_events(closing))]
            apps = {"websocket": program(seq), "http": HS_APPS["http"]}
        elif family == "clwin":
            # the session is established, the peer stops reading, the application goes on: [filler,] websocket.close.
            # 'during': the closing event arrives while that send is under way (guard: the application has issued its
            # close), then the peer reads again; 'after': the peer reads again first.
            head = client + [("cmd", 0, "ws_wait"), ("pause", 0), ("release", "g"), ("cmd", 0, "close_wait")]
            if timing == "during":
                tail = closing_events(closing) + [("resume", 0)]
            else:
                tail = [("resume", 0)] + closing_events(closing)
            sources = [("client", head + tail)]
            apps = {"websocket": program(seq)}
            midflight = bool(params[5])
        elif family == "hswin":
            # the peer stops reading (h2: once the connection preface is exchanged), the handshake arrives, the
            # application accepts: the 101 / 200 is in flight (trio: send_all blocks; asyncio: it sits in the write
            # buffer, and the send blocks when it exceeds the high-water mark).  'during': the closing event arrives
            # in that window, then the peer reads again; 'after': the peer reads again, then the client closes.
            head = client[:1] + [("pause", 0)] + client[1:] if carrier == "ws/h2" else [("pause", 0)] + client
            if timing == "during":
                if closing.startswith("cc:"):
                    c = closing[3:]
                    mid = [("cmd", 0, "ws_early", 1, close_frame(None if c == "none" else int(c)))]
                else:
                    mid = [("cmd", 0, "accept_wait")] + closing_events(closing)
                tail = mid + [("resume", 0)]
            else:
                tail = [("cmd", 0, "accept_wait"), ("resume", 0)] + closing_events(closing)
            sources = [("client", head + tail)]
            apps = {"websocket": program(seq)}
            midflight = bool(params[5])
        else:  # race: the application's close is gated, the closing events are independent sources
            prog: List[tuple] = [("recv",)]
            for op in seq:
                if op in ("close", "close_c"):
                    prog.append(("gate", "g"))
                prog += program((op,))[1:]
            apps = {"websocket": prog}
            sources = [("client", client), ("app", [("release", "g")])]
            for i, name in enumerate(closing.split("+")):
                sources.append((f"closer{i}", closing_events(name)))
            midflight = True
    factory = make_window_client if family in ("hswin", "clwin") else make_client
    sc = {"level": "conn", "conns": {0: conn}, "client_factory": factory, "apps": apps, "config": config,
          "sources": sources, "midflight": midflight, "trio_rev": midflight}
    return engine, sc, case


def scenarios(tier: str) -> List[Any]:
    out: List[Any] = []
    for e in ENGINES:
        for u in range(len(UPG)):
            for c in range(len(CON)):
                out.append(("hs1", e, u, c))
        out.append(("hs2", e))
        # configuration axis (HTTP/1.1 carrier: that is where the options act): a sub-product of hs1 - Upgrade {websocket,
        # WebSocket, foo, "websocket, foo"} x Connection {Upgrade, upgrade, keep-alive, "keep-alive, Upgrade"} x every key /
        # version / method / HTTP version - under raw headers with the names in RFC / lower / upper case; the plain
        # Upgrade: websocket row also under server_names and under both
        for u in (1, 2, 3, 5):
            for c in (1, 2, 3, 6):
                for sp in ("rfc", "lower", "upper"):
                    out.append(("hs1", e, u, c, f"cfg:raw/{sp}"))
                if u == 1:
                    out.append(("hs1", e, u, c, "cfg:raw+sn/rfc"))
                    out.append(("hs1", e, u, c, "cfg:sn/upper"))
        for k in (0, 1, 2):
            for delta in (0, 1, 2):
                out.append(("ka", e, "ws/h1", k, delta))
                out.append(("ka", e, "ws/h1", k, delta, "cfg:raw/rfc"))
        for si in range(len(SUBV)):  # offers: the token-list headers are looked up by name as well
            for ei in range(len(EXTV)):
                for tag in ("cfg:raw/rfc", "cfg:raw+sn/upper"):
                    out.append(("off", e, "ws/h1", si, ei, tag))
        for seq in sequences(2):  # decisions: every program of <= 2 sends, client offers subprotocols + deflate
            for tag in ("cfg:raw/rfc", "cfg:raw+sn/lower"):
                out.append(("dec", e, "ws/h1", "sub+ext", seq, tag))
        seqs = sequences(3 if tier == "quick" else 5)
        for carrier in ("ws/h1", "ws/h2"):
            for offer in OFFERS:
                for seq in seqs:
                    if tier == "quick" and offer in ("ext", "sub+ext") and len(seq) > 3:
                        continue
                    out.append(("dec", e, carrier, offer, seq))
            for si in range(len(SUBV)):
                for ei in range(len(EXTV)):
                    out.append(("off", e, carrier, si, ei))
            kinds = [("none", ("acc", "acc_big")), ("sub+ext", ("acc_sub",))]
            if tier != "quick":
                kinds += [("sub", ("acc_sub", "acc_hdr")), ("ext", ("acc",))]
            for offer, accs in kinds:
                for acc in accs:
                    # (one execution with the 84 KB response head costs ~100x a plain one: quiescent injection only)
                    out.append(("hswin", e, carrier, offer, acc, tier != "quick" and acc != "acc_big"))
            for op in ("close", "close_c"):
                out.append(("clwin", e, carrier, "none", op, tier != "quick"))
            races = [(("acc", "close", "wait"), "cc:1001"), (("acc", "close_c", "wait"), "cc:none"),
                     (("acc", "close", "wait"), "eof"), (("acc", "wait"), "cc:1001+eof"),
                     (("acc", "wait"), "cc:3000+reset"), (("acc", "send_t", "close", "wait"), "cc:1000+eof")]
            if carrier == "ws/h1":
                races += [(("acc", "wait"), "armfail+cc:1001"), (("acc", "wait"), "armfail+cc:none")]
            if carrier == "ws/h2":
                races += [(("acc", "close", "wait"), "rst"), (("acc", "wait"), "cc:1001+rst")]
            for seq, closing in races:
                out.append(("race", e, carrier, "none", seq, closing))
    return out


def bounds(tier: str, params: Any) -> dict:
    if params[0] == "clwin" and params[5]:
        return {"M": 1, "S": 0, "R": 1 if params[1] == "trio" else 0}
    if params[0] == "hswin" and params[5]:
        deep = params[3] == "none" and params[4] == "acc"
        return {"M": 2 if deep else 1, "S": 0, "R": 1 if params[1] == "trio" else 0}
    if params[0] != "race":
        return {"M": 0, "S": 0, "R": 0}
    if tier == "quick":
        return {"M": 1, "S": 2, "R": 0}
    return {"M": 2, "S": 3, "R": 1 if params[1] == "trio" else 0}


# ---------------------------------------------------------------------------------------------
# oracle


def _client_response(cl: Any, carrier: str, idx: int = 0) -> Optional[dict]:
    """The response to the handshake (request number idx of the connection) as the client parsed it: status,
    headers, body, complete; + what the server wrote after it (the WebSocket bytes)."""
    if carrier == "ws/h1":
        if len(cl.h1.responses) <= idx:
            return None
        r = cl.h1.responses[idx]
        return {"status": r["status"], "headers": r["headers"], "body": r["body"],
                "complete": r["complete"] or r["status"] == 101, "n": len(cl.h1.responses),
                "ws_bytes": bytes(cl.h1.after_switch), "raw_head": raw_upgrade_response(cl.raw)}
    st = cl.h2.streams.get(1)
    if st is None or st["status"] is None:
        return None
    return {"status": st["status"], "headers": st["headers"], "body": st["body"], "complete": st["ended"] > 0,
            "n": 1, "reset": st["reset"], "ws_bytes": bytes(st["body"]), "raw_head": None}


def _hvals(headers: list, name: bytes) -> List[bytes]:
    return [v for n, v in headers if n.lower() == name]


def _accept_checks(resp: dict, carrier: str, keys: List[bytes], sub: Optional[str], extra: list, offered: List[str],
                   ext_offered: bool, tag: str) -> List[dict]:
    out: List[dict] = []
    h = resp["headers"]
    want = 101 if carrier == "ws/h1" else 200
    if resp["status"] != want:
        out.append(V("accept-rendering", f"{tag}:status={resp['status']}", h))
        return out
    if carrier == "ws/h1":
        tok = _hvals(h, b"sec-websocket-accept")
        if len(tok) != 1 or tok[0] not in [ws_accept_token(k) for k in keys]:
            out.append(V("accept-rendering", f"{tag}:accept-token", f"got {tok!r} for keys {keys!r}"))
        if [v.lower() for v in _hvals(h, b"upgrade")] != [b"websocket"]:
            out.append(V("accept-rendering", f"{tag}:upgrade-header", _hvals(h, b"upgrade")))
        # RFC 6455 4.2.2 step 5.3: 'A |Connection| header field with value "Upgrade"' - that token and no other (a
        # 101 that also says "close" is rejected by clients that read the last / the whole Connection header)
        con = [t.strip().lower() for v in _hvals(h, b"connection") for t in v.split(b",") if t.strip()]
        if con != [b"upgrade"]:
            out.append(V("accept-rendering", f"{tag}:connection-header:{b','.join(con).decode('latin1')[:40]}",
                         _hvals(h, b"connection")))
        # the handshake response as an independent wsproto client that sent this handshake judges it
        raw = resp.get("raw_head")
        if raw is not None and len(raw) <= 16000:
            tok_keys = [k for k in keys if tok and ws_accept_token(k) == tok[0]] or list(keys)
            why = wsproto_client_verdict(raw, tok_keys[0], offered, ext_offered) if tok_keys else None
            if why is not None:
                slug = "".join(ch if ch.isalnum() else "-" for ch in why.split(": ", 1)[-1]).strip("-")[:48]
                out.append(V("accept-rendering", f"{tag}:rejected-by-wsproto-client:{slug}",
                             f"{why}; response {raw!r}"))
    subs = _hvals(h, b"sec-websocket-protocol")
    if any(s.decode("latin1") not in offered for s in subs):
        out.append(V("subprotocol-not-offered", f"{tag}:{subs[0].decode('latin1')}", f"offered {offered!r}"))
    if subs != ([sub.encode()] if sub is not None else []):
        out.append(V("accept-rendering", f"{tag}:subprotocol", f"chosen {sub!r} on the wire {subs!r}"))
    for n, v in extra:
        if v not in _hvals(h, n.lower()):
            out.append(V("accept-rendering", f"{tag}:extra-header-missing", f"{n!r}: {v!r} not in {h!r}"))
    exts = _hvals(h, b"sec-websocket-extensions")
    if exts and (not ext_offered or any(not e.strip().startswith(b"permessage-deflate") for e in exts)):
        out.append(V("accept-rendering", f"{tag}:extension-not-offered", exts))
    # an extension the server USES must have been announced in the handshake response, on either carrier (RFC 6455
    # 9.1; RFC 8441 5: the extension headers are carried by the CONNECT response): RSV1 on a frame the server wrote
    # = permessage-deflate in use (RFC 7692 6), read off the wire by a hand-written frame reader
    if negotiated_deflate(True, h) is None:
        rsv1 = [f for f in server_frames(resp.get("ws_bytes", b"")) if f[1]]
        if rsv1:
            out.append(V("accept-rendering", f"{tag}:extension-in-use-not-announced",
                         f"{len(rsv1)} frame(s) with RSV1, first opcode {rsv1[0][2]}, but sec-websocket-extensions={exts!r}"))
    return out


def _code_of(name: str, own_codes: set) -> set:
    if name.startswith("cc:"):
        return {1005 if name == "cc:none" else int(name[3:])}
    if name in ("eof", "reset", "rst"):
        return {1006}
    return set()


def oracle(w: Any, params: Any, case: dict) -> List[dict]:
    out: List[dict] = []
    family = case["family"]
    carrier = case["carrier"]
    rec = w.conns[0]
    cl = rec.client
    sites: Dict[str, str] = {}
    for v in internal_errors(w):
        for site in v["key"].split("+"):
            sites.setdefault(site, v["detail"])
    ws_insts = [i for i in w.instances if i.type == "websocket"]
    http_insts = [i for i in w.instances if i.type == "http"]
    resp = _client_response(cl, carrier, case.get("pre", 0))
    status = None if resp is None else resp["status"]
    up_status = 101 if carrier == "ws/h1" else 200
    for inst in ws_insts:
        d = inst.delivered()
        if d and d[0]["type"] != "websocket.connect":
            out.append(V("first-message", f"{carrier}:{d[0]['type']}", [m["type"] for m in d]))

    if family in ("hs1", "hs2"):
        if family == "hs1":
            verdict, strict, reason = classify_h1(case["method"], case["httpv"], case["headers"])
        else:
            verdict, reason = classify_h2(case["headers"])
            strict = verdict != NOT_WS
        tag = f"{carrier}:{reason}"
        for site, detail in sorted(sites.items()):
            out.append(V("internal-error", f"{tag}:{site}", detail))
        if cl.error is not None and family == "hs1":
            out.append(V("client-parse", f"{tag}:{cl.error.split(':')[0]}", cl.error))
        upgraded = bool(ws_insts) or (status == up_status and verdict != NOT_WS) or status == 101
        served_http = len(http_insts) == 1 and not ws_insts
        refused = not w.instances and (status == 400 or (
            carrier == "ws/h2" and status is None and (cl.h2.goaway is not None or (
                1 in cl.h2.streams and cl.h2.streams[1]["reset"] is not None))))
        if verdict in (INVALID, NOT_WS):
            if upgraded:
                out.append(V("upgrade-on-invalid-handshake", tag,
                             f"status={status} instances={[i.type for i in w.instances]} headers={case['headers']!r}"))
            elif verdict == INVALID and not (refused or (served_http and not strict)) and not sites:
                out.append(V("invalid-handshake-not-400", f"{tag}:status={status}:instances={len(w.instances)}",
                             f"headers={case['headers']!r}"))
        elif verdict == VALID:
            if len(ws_insts) != 1 or http_insts or status != up_status:
                out.append(V("valid-handshake-not-upgraded", f"{tag}:status={status}:instances={len(w.instances)}",
                             f"headers={case['headers']!r}"))
        else:  # UNSPEC: any consistent outcome
            if not ((len(ws_insts) == 1 and not http_insts and status == up_status) or refused or served_http):
                out.append(V("inconsistent-handshake-outcome", f"{tag}:status={status}:instances={len(w.instances)}",
                             f"headers={case['headers']!r}"))
        if ws_insts and status == up_status and resp is not None:
            out += _accept_checks(resp, carrier, case.get("keys", []), None, [], [], False, tag)
        return out

    # ---- dec / race / hswin / clwin / ka
    if family == "ka" and not any(e == case["hs_event"] for _, e in w.driver.fired):
        # the server ended the connection (keep_alive_max_requests reached) before the upgrade could be sent
        return [V("internal-error", f"{carrier}:{site}", detail) for site, detail in sorted(sites.items())]
    if family in ("hswin", "clwin") and not any(e[0] == "resume" for _, e in w.driver.fired):
        # (mid-flight injection only) the peer stalled before the server could even answer the connection preface
        # and never read again: the application was not reached, the scenario says nothing
        return [V("internal-error", f"{carrier}:{site}", detail) for site, detail in sorted(sites.items())]
    model: DecisionModel = case["model"]
    seq, closing, offered = case["seq"], case["closing"], case["offered"]
    tag = carrier
    for site, detail in sorted(sites.items()):
        out.append(V("internal-error", f"{carrier}:{site}", detail))
    d0 = model.decision
    cut_short = d0 is not None and d0[0] == "response" and not d0[4]  # application stopped mid-response: the
    if cl.error is not None and not cut_short:                       # client rightly sees a truncated message
        out.append(V("client-parse", f"{carrier}:{cl.error.split(':')[0]}", cl.error))
    if len(ws_insts) != 1 or len(http_insts) != case.get("pre", 0):
        out.append(V("valid-handshake-not-upgraded", f"{carrier}:valid:instances={len(w.instances)}", ""))
        return out
    inst = ws_insts[0]
    d = model.decision
    wsp = cl.ws if carrier == "ws/h1" else cl.h2.ws.get(1)
    # invariant: never a subprotocol the client did not offer
    if resp is not None:
        for s in _hvals(resp["headers"], b"sec-websocket-protocol"):
            if s.decode("latin1") not in offered:
                out.append(V("subprotocol-not-offered", f"{carrier}:{s.decode('latin1')}", f"offered {offered!r}"))
    crashed = ":crashed" if sites else ""
    if d is None and not model.undefined:
        if seq[-1] in ("raise", "return") and family != "race":
            if status not in (None, 500) or (status is None and carrier == "ws/h1" and rec.closed_at is None):
                out.append(V("no-decision-rendering", f"{carrier}{crashed}:status={status}", seq))
        elif status is not None:
            out.append(V("no-decision-rendering", f"{carrier}{crashed}:status={status}", seq))
    elif d is not None and d[0] == "accept":
        if resp is None and case.get("timing") == "during" and closing in ("eof", "reset", "rst"):
            pass  # the client went away before the response left the server: nothing has to reach it
        elif resp is None:
            lines = case.get("sub_lines")
            why = f":subprotocol-offered-over-{len(lines)}-header-lines" if d[1] is not None and lines and len(lines) > 1 else ""
            out.append(V("accept-rendering", f"{carrier}{crashed}:no-response{why}", f"seq={seq} offered={offered!r}"))
        else:
            out += _accept_checks(resp, carrier, case["keys"], d[1], d[2], offered, case["ext"], carrier + crashed)
            # clwin: the wire is judged only where the client stayed to read all of it (it closed after the stalled
            # writes had gone out; over HTTP/2 a filler beyond the window would need credit the closing client never gave)
            wire_judged = family != "race" and (family != "clwin" or (
                case["timing"] == "after" and closing.startswith("cc:") and (carrier == "ws/h1" or case["fill"][0] == "none")))
            if not model.undefined and wsp is not None and wire_judged:
                exp_msgs = [x for x in model.wire if x[0] != "close"]
                if list(wsp.messages) != exp_msgs:
                    out.append(V("accept-rendering", f"{carrier}{crashed}:messages",
                                 f"sent {exp_msgs!r} client saw {list(wsp.messages)!r}"))
                exp_close = [x[1] for x in model.wire if x[0] == "close"]
                if exp_close and (wsp.close is None or int(wsp.close[0]) != exp_close[0]):
                    out.append(V("accept-rendering", f"{carrier}{crashed}:close-code",
                                 f"application closed with {exp_close[0]} client saw {wsp.close!r}"))
    elif d is not None and d[0] == "close":
        if resp is None or status != 403 or not resp["complete"]:
            out.append(V("close-rendering", f"{carrier}{crashed}:status={status}", seq))
    elif d is not None and d[0] == "response":
        _, st, hdrs, body, complete = d
        if resp is None:
            out.append(V("response-rendering", f"{carrier}{crashed}:no-response", seq))
        else:
            if status != st:
                out.append(V("response-rendering", f"{carrier}{crashed}:status={status}", f"wanted {st}"))
            got = [(n.lower(), v) for n, v in resp["headers"]]
            it = iter(got)
            if not all(any(g == (n.lower(), v) for g in it) for n, v in hdrs):
                out.append(V("response-rendering", f"{carrier}{crashed}:headers", f"wanted {hdrs!r} in order, got {got!r}"))
            exp_body = b"" if st in (204, 304) else body
            if complete and (resp["body"] != exp_body or not resp["complete"]):
                out.append(V("response-rendering", f"{carrier}{crashed}:body",
                             f"wanted {exp_body!r} complete, got {resp['body']!r} complete={resp['complete']}"))
            if not complete and not resp["body"] == exp_body[:len(resp["body"])]:
                out.append(V("response-rendering", f"{carrier}{crashed}:body-prefix", f"{resp['body']!r} vs {exp_body!r}"))
    # ---- disconnect code
    discs = [m for m in inst.delivered() if m["type"] == "websocket.disconnect"]
    judged = not model.undefined and (d is None or d[0] in ("accept", "close"))
    if discs and judged:
        got = discs[0].get("code")
        own: set = set()
        if model.state == "closed":  # the application closed an accepted connection itself
            own = {1000} | {int(x[1]) for x in model.wire if x[0] == "close"}
        elif d is not None and d[0] == "close":
            own = {1000, 1006}  # handshake refused: own close, then the connection goes away
        fired = [e for _, e in w.driver.fired]
        names = closing.split("+") if closing != "none" else []
        env_codes: List[set] = []
        for name in names:
            cs = _code_of(name, own)
            if name == "reply":
                cs = set(own)
            env_codes.append(cs)
        mid = any(p.kind == "mid" and p.choice for p in w.chooser.trace)
        if family != "race":
            # the application's own close (if any) precedes every client event; otherwise the client's event decides
            allowed = own if own else (env_codes[0] if env_codes else set())
            first = closing if not own else "own-close"
        else:
            order = _race_order(fired, names, own)
            if mid or not order:
                allowed = set().union(own, *env_codes)
                first = "raced"
            else:
                first = order[0]
                allowed = own if first == "own-close" else _code_of(first, own)
        if allowed and got not in allowed:
            kind = "client-close" if first.startswith("cc:") else first
            if family == "clwin":  # where the closing event fell
                kind += {"during": ":while-close-frame-in-flight", "after": ":after-stalled-close-frame"}[case["timing"]]
            elif case.get("timing") is not None:  # hswin
                kind += {"during": ":while-handshake-response-in-flight",
                         "after": ":after-stalled-handshake-response"}[case["timing"]]
            want = "|".join(str(c) for c in sorted(allowed))
            out.append(V("disconnect-code", f"{carrier}{crashed}:{kind}:want={want}:got={got}",
                         f"seq={seq} closing={closing} fired={[repr(e)[:60] for e in fired]}"))
    return out


def _race_order(fired: List[tuple], names: List[str], own: set) -> List[str]:
    """Order in which closing events happened, from the environment's event log (race family: the application's
    close is released by the 'g' gate; closing events are the only non-handshake client events)."""
    order: List[str] = []
    pending = list(names)
    for e in fired:
        if e[0] == "release":
            if own:
                order.append("own-close")
        elif e[0] in ("eof", "reset"):
            order.append(e[0])
        elif e[0] == "cmd" and e[2] == "rst":
            order.append("rst")
        elif e[0] == "cmd" and e[2] in ("ws_raw", "ws_data"):
            nm = next((n for n in pending if n.startswith("cc:")), None)
            if nm is not None:
                pending.remove(nm)
                order.append(nm)
    return order


def describe_case(case: dict) -> dict:
    return {k: v for k, v in case.items() if k not in ("model",)}


def observe(w: Any, params: Any, case: dict) -> Any:
    from mc.harness import default_observation

    return default_observation(w)


execute = case_execute(build, oracle, observe, describe_case)


# wave h documentation (what was added to the enumeration; see DESIGN.md 11.0)
_WAVE_H = "+ Upgrade value 'websocket, caf\\xe9/1' in the hs1 product; races 'armfail+cc:<code>' on ws/h1 (the reply to the client's Close is the write that fails)"
RULE = RULE + " " + _WAVE_H
BOUNDS_DOC = {k: v + " " + _WAVE_H for k, v in BOUNDS_DOC.items()}
