"""C02 - HTTP response delivery fidelity and legal framing.

What is enumerated (real TCPServer / H11Protocol / H2Protocol / HTTPStream on both engines):

* the full cartesian product  carrier {HTTP/1.1, HTTP/1.0, HTTP/2 over ALPN, HTTP/2 by h2c upgrade}
  x request method {GET, HEAD} x status {200, 201, 204, 304, 404, 500} x application header list
  {none; content-length matching the body; repeated names + set-cookie twice} x chunking {one empty
  final message; 1 byte; 3 chunks with an empty one in the middle; end signalled by an extra empty
  message; one 70 000 byte chunk (> HTTP/2 window, > one transport buffer); 20 000 bytes (> max
  frame) + tail}, with an eagerly reading client;
* HTTP/2 clients announcing SETTINGS_INITIAL_WINDOW_SIZE 100 and 1 (every DATA frame waits for a
  WINDOW_UPDATE);
* HTTP/2 extras: trailers promised and sent, to clients with and without `te: trailers`; a 103
  early hint before the response;
* client pacing (Explorer A, bounds M mid-flight injections / S preemptions): HTTP/2 client that
  acknowledges DATA only when an `ack` event fires (whole, or in small increments), transport
  pause/resume (peer stops reading), and application gates between the ASGI messages, all as
  separate sources interleaved at every position within the bounds.

Oracle: the bytes the server wrote are parsed by an independent h11 / h2 *client*; expected values
come from the application script (the specification) and mc/x_c01c02c13_ref.py.  Clauses:
  client-parse-error   the client state machine rejected the server's bytes
  response-count       not exactly one response for the request (or extra streams/pushes)
  status               status differs
  headers              not "application headers in order, then only date/server/alt-svc/connection
                       (+ the HTTP/1 framing header the reference framing rule allows)"
  body                 body != concatenation of the chunks (empty for HEAD, 1xx, 204, 304)
  end-of-response      end not signalled exactly once after the last body byte
  trailers             trailers on HTTP/1, or to a client that did not send te: trailers, or altered
"""
from __future__ import annotations

from typing import Any, Dict, List

from mc.clients import h1_request, h2_request_headers
from mc.explore import V
from mc.harness import default_observation
from mc.x_c01c02c13_lib import h2c_settings_header, make_execute, make_xclient, paced_app_factory
from mc.x_c01c02c13_ref import body_suppressed, response_header_problems

ID = "C02"
LEVEL = "model_checking"
TECHNIQUE = ("bounded exhaustive enumeration of application response scripts x carriers x request methods, plus "
             "deviation-bounded stateless exploration of client pacing (h2 acknowledgements, transport pause/resume, "
             "application gates) on the real TCPServer/H11/H2/HTTPStream code; server output parsed by independent "
             "h11/h2 client state machines and compared with the script")
RULE = ("scenario = engine x carrier x method x status x header list x chunking x extra (trailers/early hint) x pacing; "
        "eager scenarios are one execution each, paced ones every interleaving of ack / pause / resume / gate-release "
        "events within (M,S); non-trivial = an application instance ran and a non-default choice was taken; distinct "
        "by digest of (delivered messages, send outcomes, parsed client view, DATA frame / write sizes, close state)")
ASSUMPTIONS = [
    "environment model (fake transport/stream, virtual loop) is bound to real sockets by ./check selftest",
    "the application sends only ASGI-valid sequences with lower-case, whitespace-free header fields and never its own "
    "connection/transfer-encoding fields; content-length, when given, matches the body; content-length is not combined "
    "with 204",
    "trailers: the property only forbids trailers on HTTP/1 or without te: trailers; their absence is not judged",
    "early hints (103) are not judged themselves, only that the final response is unaffected",
]
BOUNDS_DOC = {"quick": "full product eager; paced selection M<=1,S<=2", "thorough": "full product eager; paced selection M<=2,S<=3"}
BUDGET = {"quick": 100, "thorough": 1500}

BIGW = bytes(range(256)) * 273 + b"w" * 112  # 70 000 > 65 535 (initial HTTP/2 window)
BIGF = b"f" * 20000  # > 16 384 (max frame size)
CHUNKINGS: Dict[str, List[tuple]] = {
    "c0": [(b"", False)],
    "c1": [(b"x", False)],
    "c3": [(b"ab", True), (b"", True), (b"cd", False)],
    "c3e": [(b"ab", True), (b"cd", True), (b"", False)],
    "cw": [(BIGW, False)],
    "cf": [(BIGF, True), (b"tail", False)],
}
STATUSES = [200, 201, 204, 205, 304, 404, 500]  # 205: a status that is NOT body-less (only 1xx/204/304 are)
CARRIERS = ["h1", "h10", "h2", "h2c"]
HDRS = ["none", "cl", "rep"]
TRAILERS = [(b"x-trailer", b"t1"), (b"x-sum", b"2")]


def app_headers(hdrs: str, body: bytes) -> List[tuple]:
    if hdrs == "none":
        return []
    if hdrs == "cl":
        return [(b"content-type", b"text/plain"), (b"content-length", str(len(body)).encode())]
    return [(b"x-a", b"1"), (b"x-b", b"2"), (b"x-a", b"3"), (b"set-cookie", b"a=1"), (b"set-cookie", b"b=2")]


def scenarios(tier: str) -> List[Any]:
    out: List[Any] = []
    for engine in ("asyncio", "trio"):
        for carrier in CARRIERS:
            for method in ("GET", "HEAD"):
                for status in STATUSES:
                    for hdrs in HDRS:
                        if hdrs == "cl" and status == 204:
                            continue  # RFC 7230 3.3.2 forbids it: an application error, not the server's
                        if hdrs == "cl" and status == 304 and carrier in ("h2", "h2c"):
                            continue  # the h2 *client* library insists on content-length bytes of DATA for a 304
                        for ch in CHUNKINGS:
                            out.append((engine, carrier, method, status, hdrs, ch, "", "eager"))
            if carrier in ("h2", "h2c"):
                for extra in ("trailers-te", "trailers-note", "hint"):
                    for method in ("GET", "HEAD"):
                        for ch in ("c0", "c3", "cf"):
                            out.append((engine, carrier, method, 200, "rep", ch, extra, "eager"))
                for pace, chs in (("win100", ("c3", "cf")), ("win1", ("c1", "c3"))):
                    for ch in chs:
                        for hdrs in ("none", "cl"):
                            out.append((engine, carrier, "GET", 200, hdrs, ch, "", pace))
            # pacing
            paces = ["net", "gates+net"] + (["acks", "gates+acks", "smallacks"] if carrier in ("h2", "h2c") else [])
            for pace in paces:
                for ch in ("cw", "cf", "c3"):
                    if pace == "smallacks" and ch != "cw":
                        continue
                    for hdrs in ("none", "cl"):
                        out.append((engine, carrier, "GET", 200, hdrs, ch, "", pace))
                if carrier in ("h2", "h2c") and pace in ("acks", "gates+net"):
                    out.append((engine, carrier, "GET", 200, "none", "c3", "trailers-te", pace))
    return out


def bounds(tier: str, params: Any) -> dict:
    if params[7] in ("eager", "win100", "win1"):
        return {"M": 0, "S": 0, "R": 0}
    if tier == "quick":
        return {"M": 1, "S": 2, "R": 0}
    return {"M": 2, "S": 3, "R": 0}


def script_of(params: Any) -> tuple:
    """(application program, app header list, body chunks, trailers or None)"""
    engine, carrier, method, status, hdrs, ch, extra, pace = params
    chunks = CHUNKINGS[ch]
    body = b"".join(c for c, _ in chunks)
    headers = app_headers(hdrs, body)
    start: Dict[str, Any] = {"type": "http.response.start", "status": status, "headers": headers}
    prog: List[tuple] = [("recv_body",)]
    if extra == "hint":
        prog.append(("send", {"type": "http.response.early_hint", "links": [b"</style.css>; rel=preload"]}))
    trailers = None
    if extra.startswith("trailers"):
        start["trailers"] = True
        trailers = TRAILERS
    prog.append(("send", start))
    gated = pace.startswith("gates")
    for data, more in chunks:
        if gated:
            prog.append(("gate", "g"))
        prog.append(("send", {"type": "http.response.body", "body": data, "more_body": more}))
    if trailers is not None:
        if gated:
            prog.append(("gate", "g"))
        prog.append(("send", {"type": "http.response.trailers", "headers": trailers, "more_trailers": False}))
    return prog, headers, body, trailers


def plan(params: Any, chooser: Any) -> tuple:
    engine, carrier, method, status, hdrs, ch, extra, pace = params
    prog, headers, body, trailers = script_of(params)
    m = method.encode()
    te = extra == "trailers-te"
    conn: Dict[str, Any] = {"carrier": "h1" if carrier == "h10" else carrier, "methods": [m]}
    settings = {"win100": {4: 100}, "win1": {4: 1}}.get(pace)  # the client's SETTINGS_INITIAL_WINDOW_SIZE
    if settings:
        conn["h2_settings"] = settings
    if carrier in ("h1", "h10"):
        client = [("data", 0, h1_request(m, b"/r", version=b"1.0" if carrier == "h10" else b"1.1"))]
    elif carrier == "h2":
        conn.update(tls=True, alpn="h2")
        fields = h2_request_headers(m, b"/r", extra=[(b"te", b"trailers")] if te else [])
        client = [("cmd", 0, "preface"), ("cmd", 0, "headers", 1, fields, True)]
    else:
        hs = [(b"Connection", b"Upgrade, HTTP2-Settings"), (b"Upgrade", b"h2c"), (b"HTTP2-Settings", h2c_settings_header(settings))]
        if te:
            hs.append((b"TE", b"trailers"))
        client = [("data", 0, h1_request(m, b"/r", hs)), ("cmd", 0, "flush")]
    sources = [("client", client)]
    if carrier in ("h2", "h2c") and "acks" not in pace:
        # the live client's own WINDOW_UPDATE / SETTINGS ack frames leave it when a flush event fires
        flush = [("cmd", 0, "flush")] * (420 if settings else 6)
        if pace in ("eager", "win100", "win1"):
            client.extend(flush)
        else:
            sources.append(("flush", flush))
    if "acks" in pace:
        conn["auto_ack"] = False
        acks = [("cmd", 0, "ack", 1)] * 8
        if pace == "smallacks":
            acks = [("cmd", 0, "ackn", 1, 100), ("cmd", 0, "ackn", 1, 5000), ("cmd", 0, "ackn", 1, 20000)] + acks
        sources.append(("acks", acks))
    if "net" in pace:
        sources.append(("net", [("pause", 0), ("resume", 0)]))
    if pace.startswith("gates"):
        sources.append(("app", [("release", "g")] * (len(CHUNKINGS[ch]) + 1)))
    sc = {"level": "conn", "conns": {0: conn}, "client_factory": make_xclient,
          "app_factory": paced_app_factory({"http": prog}), "config": {"keep_alive_timeout": 5}, "sources": sources,
          "midflight": pace not in ("eager", "win100", "win1"), "sigs": pace not in ("eager", "win100", "win1")}
    return engine, sc, {"headers": headers, "body": body, "trailers": trailers, "te": te}


def _kind(got: bytes, want: bytes) -> str:
    if not want and got:
        return "not-suppressed"
    if want.startswith(got):
        return "short"
    if got.startswith(want):
        return "long"
    return "differs"


def oracle(w: Any, params: Any, ctx: Any) -> List[dict]:
    engine, carrier, method, status, hdrs, ch, extra, pace = params
    out: List[dict] = []
    rec = w.conns[0]
    cl = rec.client
    tag = f"{carrier}:{method}:{status}"
    if cl.error is not None:
        out.append(V("client-parse-error", f"{tag}:{cl.error.split(':')[0]}", cl.error))
        return out
    want_body = b"" if body_suppressed(method, status) else ctx["body"]
    h1 = carrier in ("h1", "h10")
    if h1:
        resps = cl.h1.responses
        if len(resps) != 1 or cl.h1.leftover:
            out.append(V("response-count", f"{carrier}:{len(resps)}", [(r["status"], r["complete"]) for r in resps]))
            return out
        r = resps[0]
        got_status, got_headers, got_body, got_trailers = r["status"], r["headers"], r["body"], r["trailers"] or None
        ended_ok = r["complete"]
    else:
        if carrier == "h2c":
            resps = cl.h1.responses
            if [x["status"] for x in resps] != [101]:
                out.append(V("response-count", f"{carrier}:no-101", [(x["status"], x["complete"]) for x in resps]))
                return out
        sts = cl.h2.streams
        if sorted(sts) != [1] or sts[1]["status"] is None or sts[1]["pushes"]:
            out.append(V("response-count", f"{carrier}:streams-{sorted(sts)}", {k: v["status"] for k, v in sts.items()}))
            return out
        st = sts[1]
        got_status, got_headers, got_body, got_trailers = st["status"], st["headers"], st["body"], st["trailers"]
        ended_ok = st["ended"] == 1 and st["reset"] is None and cl.h2.goaway is None
    if got_status != status:
        out.append(V("status", f"{tag}:got-{got_status}", ""))
    prob = response_header_problems(list(got_headers), ctx["headers"], h1, carrier == "h10", status, method, len(got_body))
    if prob is not None:
        out.append(V("headers", f"{tag}:{prob}", f"got {got_headers!r} app sent {ctx['headers']!r}"))
    if got_body != want_body:
        out.append(V("body", f"{tag}:{_kind(got_body, want_body)}", f"client got {len(got_body)} bytes {got_body[:30]!r}, "
                                                                     f"wanted {len(want_body)} bytes {want_body[:30]!r}"))
    if not ended_ok:
        out.append(V("end-of-response", f"{tag}:" + ("incomplete" if h1 else f"ended-{st['ended']}-reset-{st['reset']}"),
                     "end of response not signalled exactly once"))
    if got_trailers:
        if h1 or not ctx["te"]:
            out.append(V("trailers", f"{tag}:unsolicited", repr(got_trailers)))
        elif ctx["trailers"] is None or list(got_trailers) != list(ctx["trailers"]):
            out.append(V("trailers", f"{tag}:altered", f"got {got_trailers!r} app sent {ctx['trailers']!r}"))
    return out


def observe(w: Any, params: Any, ctx: Any) -> Any:
    rec = w.conns[0]
    frames = tuple((sid, n) for _, sid, n, _ in rec.client.h2.frames_data) if rec.client.h2 is not None else ()
    return (default_observation(w), tuple(len(c) for _, c in rec.out_chunks), frames)


execute = make_execute(plan, oracle, observe)
