"""C02 - HTTP response delivery fidelity and legal framing.

What is enumerated (real TCPServer / H11Protocol / H2Protocol / HTTPStream on both engines):

* the full cartesian product  carrier {HTTP/1.1, HTTP/1.0, HTTP/2 over ALPN, HTTP/2 by h2c upgrade, HTTP/2 by
  h2c upgrade with an empty (zero settings) HTTP2-Settings payload}
  x request method {GET, HEAD} x status {200, 201, 204, 304, 404, 500} x application header list
  {none; content-length matching the body; repeated names + set-cookie twice} x chunking {one empty
  final message; 1 byte; 3 chunks with an empty one in the middle; end signalled by an extra empty
  message; one 70 000 byte chunk (> HTTP/2 window, > one transport buffer); 20 000 bytes (> max
  frame) + tail}, with an eagerly reading client;
* HTTP/2 clients announcing SETTINGS_INITIAL_WINDOW_SIZE 100 and 1 (every DATA frame waits for a
  WINDOW_UPDATE);
* HTTP/2 extras: trailers promised and sent, to clients with and without `te: trailers`; a 103
  early hint before the response;
* client pacing (Explorer A, bounds M mid-flight injections / S preemptions): HTTP/2 client that
  acknowledges DATA only when an `ack` event fires (whole, or in small increments), transport
  pause/resume (peer stops reading), and application gates between the ASGI messages, all as
  separate sources interleaved at every position within the bounds;
* HTTP/2 client pacing scripts (table PACES; the client never acknowledges by itself, its credit
  events are one more interleaved source): "exact window, no ack" - the body is exactly the
  client's window (SETTINGS_INITIAL_WINDOW_SIZE 1000 / the default 65 535 of stream and
  connection) and no WINDOW_UPDATE ever follows, end of body in the same message as the last
  bytes, in a later empty message, after a gate; "connection-only credit" - 1 MiB stream windows,
  200 000 byte body, WINDOW_UPDATE for stream 0 only; "stream-only credit then connection credit"
  and the reverse order, default windows, 70 000 / 200 000 byte bodies; four concurrent 20 000
  byte responses sharing one connection window, acknowledged by the client library's stock policy.
* a *configuration axis* (9th scenario parameter): HTTP/2 carriers under h2_max_inbound_frame_size 2^15 / 2^16+1 (the size
  of frames the server ACCEPTS; what it SENDS stays bounded by the client's SETTINGS_MAX_FRAME_SIZE) x bodies larger than a
  default frame {70 000 bytes in one message, 20 000 + tail, 3 x 9000 bytes that pile up in the stream buffer} and a small
  one x header lists, HEAD, trailers, a client that announces MAX_FRAME_SIZE 32 768 (also against the default
  configuration), a 100 byte window, explicit acknowledgements / transport pauses / credit scripts; every carrier under
  include_date_header = False, include_server_header = False, both, alt_svc_headers set, and all of them + the larger
  frame size, for 6 method / status / header list / chunking combinations;

Oracle: the bytes the server wrote are parsed by an independent h11 / h2 *client*; expected values
come from the application script (the specification) and mc/x_c01c02c13_ref.py.  Clauses:
  client-parse-error   the client state machine rejected the server's bytes
  response-count       not exactly one response for the request (or extra streams/pushes)
  status               status differs
  headers              not "application headers in order, then only date/server/alt-svc/connection
                       (+ the HTTP/1 framing header the reference framing rule allows)"; configuration axis: a date /
                       server header although include_date_header / include_server_header is False, alt-svc headers
                       other than the configured alt_svc_headers
  body                 body != concatenation of the chunks (empty for HEAD, 1xx, 204, 304)
  end-of-response      end not signalled exactly once after the last body byte
  trailers             trailers on HTTP/1, or to a client that did not send te: trailers, or altered, or (HTTP/2 with
                       te: trailers) missing
"""
from __future__ import annotations

from typing import Any, Dict, List

from mc.clients import h1_request, h2_request_headers
from mc.explore import V
from mc.harness import default_observation
from mc.x_c01c02c13_lib import h2c_settings_header, make_execute, make_xclient, paced_app_factory
from mc.x_c01c02c13_ref import body_suppressed, response_header_problems, server_header_config_problems

ID = "C02"
LEVEL = "model_checking"
TECHNIQUE = ("bounded exhaustive enumeration of application response scripts x carriers (HTTP/1.1, 1.0, HTTP/2 over ALPN, by "
             "h2c upgrade, by h2c upgrade with an empty HTTP2-Settings payload) x request methods, a configuration axis "
             "(h2_max_inbound_frame_size above the default x bodies above a frame x client MAX_FRAME_SIZE; date / server "
             "headers switched off, alt-svc headers configured), plus "
             "deviation-bounded stateless exploration of client pacing (h2 acknowledgements, transport pause/resume, "
             "application gates, HTTP/2 credit scripts: exact window without acknowledgement, connection-only credit, "
             "stream-then-connection credit, four concurrent streams) on the real TCPServer/H11/H2/HTTPStream code; "
             "server output parsed by independent h11/h2 client state machines and compared with the script")
RULE = ("scenario = engine x carrier x method x status x header list x chunking x extra (trailers/early hint) x pacing; "
        "eager scenarios are one execution each, paced ones every interleaving of ack / credit (WINDOW_UPDATE) / flush / "
        "pause / resume / gate-release events within (M,S); non-trivial = an application instance ran and a non-default choice was taken; distinct "
        "by digest of (delivered messages, send outcomes, parsed client view, DATA frame / write sizes, close state)")
ASSUMPTIONS = [
    "environment model (fake transport/stream, virtual loop) is bound to real sockets by ./check selftest",
    "the application sends only ASGI-valid sequences with lower-case, whitespace-free header fields and never its own "
    "connection/transfer-encoding fields; content-length, when given, matches the body; content-length is not combined "
    "with 204",
    "trailers: forbidden on HTTP/1 or without te: trailers; on HTTP/2 with te: trailers the trailers the application "
    "announced (trailers: True) and sent must arrive unaltered after the body",
    "early hints (103) are not judged themselves, only that the final response is unaffected",
    "h2c upgrade with an empty HTTP2-Settings payload: only client pacings that do not depend on SETTINGS values of the "
    "client's own (those take effect when its SETTINGS frame arrives, the server may legally have sent more by then); "
    "gates x transport pause/resume and the four-stream script are explored on the ordinary h2c carrier only",
    "configuration axis: h2_max_inbound_frame_size is the server's own receive limit and changes nothing of what is expected "
    "(the client library rejects a DATA frame above the MAX_FRAME_SIZE the client announced, 16 384 by default); "
    "include_date_header / include_server_header = False: the header must be absent (their presence under the default is "
    "not demanded); alt_svc_headers: exactly the configured values, in order",
]
BOUNDS_DOC = {"quick": "full product eager (5 carriers); paced selection (incl. the HTTP/2 credit scripts: bodies of exactly 1000 / 65 535 "
                       "bytes = the window, 70 000 and 200 000 bytes against stream-0-only / stream-then-connection credit, "
                       "4 x 20 000 bytes concurrently) M<=1,S<=2; configuration axis: 3 frame-size configurations x 3 HTTP/2 "
                       "carriers x {4 chunkings x 2 header lists, HEAD, trailers, client MAX_FRAME_SIZE 32 768, window 100} eager, "
                       "4 paced scripts under 2^15 M<=1,S<=2; 5 header configurations x 5 carriers x 6 responses",
              "thorough": "full product eager; paced selection M<=2,S<=3 (four concurrent streams: M<=1,S<=3); "
                          "configuration axis as quick with the paced scripts M<=2,S<=3"}
BUDGET = {"quick": 300, "thorough": 1500}

BIGW = bytes(range(256)) * 273 + b"w" * 112  # 70 000 > 65 535 (initial HTTP/2 window)
BIGF = b"f" * 20000  # > 16 384 (max frame size)
CHUNKINGS: Dict[str, List[tuple]] = {
    "c0": [(b"", False)],
    "c1": [(b"x", False)],
    "c3": [(b"ab", True), (b"", True), (b"cd", False)],
    "c3e": [(b"ab", True), (b"cd", True), (b"", False)],
    "cw": [(BIGW, False)],
    "cf": [(BIGF, True), (b"tail", False)],
}
# bodies for the client pacing scripts (period 251: a frame-sized block out of place would be seen)
W1K = bytes(i % 251 for i in range(1000))  # == SETTINGS_INITIAL_WINDOW_SIZE 1000
W64K = bytes(i % 251 for i in range(65535))  # == the default stream and connection windows
B200K = (bytes(range(251)) * 797)[:200000]  # > 3 connection windows
PACED_CHUNKINGS: Dict[str, List[tuple]] = {
    "x1k": [(W1K, False)],
    "x1ke": [(W1K, True), (b"", False)],
    "x1ks": [(W1K[:400], True), (W1K[400:], False)],
    "x64k": [(W64K, False)],
    "x64ke": [(W64K, True), (b"", False)],
    "c200k": [(B200K, False)],
    "c200k2": [(B200K[:100000], True), (B200K[100000:], False)],
    "c20k": [(B200K[:20000], False)],
    # three messages none of which is larger than a frame, together larger than one (they pile up in the stream buffer)
    "c9k3": [(B200K[:9000], True), (B200K[9000:18000], True), (B200K[18000:27000], False)],
}
ALL_CHUNKINGS = {**CHUNKINGS, **PACED_CHUNKINGS}
STATUSES = [200, 201, 204, 205, 304, 404, 500]  # 205: a status that is NOT body-less (only 1xx/204/304 are)
# "h2c0": an h2c upgrade whose HTTP2-Settings value is empty - the base64url text of a SETTINGS payload with zero
# settings (RFC 7540 3.2.1; every setting keeps its initial value) - the upgraded request's response belongs on
# stream 1 exactly as after an upgrade with a non-empty payload
CARRIERS = ["h1", "h10", "h2", "h2c", "h2c0"]
H2S = ("h2", "h2c", "h2c0")  # carriers on which the response travels as HTTP/2
H2C = ("h2c", "h2c0")  # ... after an HTTP/1.1 upgrade (101 first, request = stream 1)
HDRS = ["none", "cl", "rep"]
TRAILERS = [(b"x-trailer", b"t1"), (b"x-sum", b"2")]


BIGWIN = 1 << 20
# client pacing scripts: what the HTTP/2 client announces, whether it acknowledges DATA by itself, and the credit
# (WINDOW_UPDATE) events it fires on its own; "gates+<pace>" additionally puts a gate before every body message
PACES: Dict[str, dict] = {
    "eager": {"single": True}, "win100": {"single": True, "settings": {4: 100}, "flushes": 420},
    "win1": {"single": True, "settings": {4: 1}, "flushes": 420},
    # the client announces SETTINGS_MAX_FRAME_SIZE 32 768: frames up to that size are legal towards it
    "cmfs32k": {"single": True, "settings": {5: 32768}, "flushes": 40},
    "net": {"net": True},
    "acks": {"auto_ack": False, "acks": [("ack", 1)] * 8},
    "smallacks": {"auto_ack": False, "acks": [("ackn", 1, 100), ("ackn", 1, 5000), ("ackn", 1, 20000)] + [("ack", 1)] * 8},
    # the body is exactly the client's window and the client never gives credit: END_STREAM needs none
    "exact1k": {"auto_ack": False, "settings": {4: 1000}},
    "exact64k": {"auto_ack": False},
    # huge stream windows, 65 535 byte connection window, credit for the connection (stream 0) only
    "conncredit": {"auto_ack": False, "settings": {4: BIGWIN}, "credit": [("winup", 0, 65535)] * 3},
    # default windows, both run out together; stream credit first then connection credit, and the reverse
    "streamconn": {"auto_ack": False, "credit": [("winup", 1, 70000), ("winup", 0, 70000)] * 2},
    "connstream": {"auto_ack": False, "credit": [("winup", 0, 70000), ("winup", 1, 70000)] * 2},
    "streamconn1": {"auto_ack": False, "credit": [("winup", 1, 70000), ("winup", 0, 70000)]},  # (one round is all a
    "connstream1": {"auto_ack": False, "credit": [("winup", 0, 70000), ("winup", 1, 70000)]},  # 70 000 byte body needs)
    # four concurrent responses share the connection window; the client library's stock acknowledgement policy
    # (it then renews the connection window only: no stream received half a window)
    "four": {"streams": 4, "flushes": 12},
}


# ---------------------------------------------------------------------------------------------
# configuration axis: a scenario with a 9th parameter runs under that non-default configuration.  What the options
# change in what is expected (reference: mc/x_c01c02c13_ref.py server_header_config_problems):
#   mfs32k / mfs64k1   h2_max_inbound_frame_size 2^15 / 2^16+1: the largest frame the SERVER is willing to RECEIVE; the
#                      frames it sends are bounded by what the CLIENT announced (SETTINGS_MAX_FRAME_SIZE, 16 384 unless
#                      the client says otherwise - the h2 client library refuses a larger frame): nothing changes
#   nodate / noserver / bare   include_date_header / include_server_header = False: that header must not be there
#   altsvc             alt_svc_headers = [...]: exactly these values as alt-svc headers of the response
CFGS: Dict[str, dict] = {
    "mfs32k": {"h2_max_inbound_frame_size": 2 ** 15},
    "mfs64k1": {"h2_max_inbound_frame_size": 2 ** 16 + 1},
    "nodate": {"include_date_header": False},
    "noserver": {"include_server_header": False},
    "bare": {"include_date_header": False, "include_server_header": False},
    "altsvc": {"alt_svc_headers": ['h3=":443"; ma=3600', 'h2=":8443"']},
    "bare+altsvc+mfs32k": {"include_date_header": False, "include_server_header": False,
                           "alt_svc_headers": ['h3=":443"; ma=3600'], "h2_max_inbound_frame_size": 2 ** 15},
}
HEADER_CFGS = ("nodate", "noserver", "bare", "altsvc", "bare+altsvc+mfs32k")
FRAME_CFGS = ("mfs32k", "mfs64k1", "bare+altsvc+mfs32k")


def cfg_of(params: Any) -> str:
    return params[8] if len(params) > 8 else ""


def config_scenarios(engine: str, carrier: str) -> List[Any]:
    out: List[Any] = []
    if carrier in H2S:
        for cfg in FRAME_CFGS:
            # bodies larger than a default frame (one message / message + tail / three messages that pile up) and a small one
            for ch in ("cw", "cf", "c9k3", "c3"):
                for hdrs in ("none", "cl"):
                    out.append((engine, carrier, "GET", 200, hdrs, ch, "", "eager", cfg))
            out.append((engine, carrier, "HEAD", 200, "cl", "cw", "", "eager", cfg))
            out.append((engine, carrier, "GET", 200, "rep", "cf", "trailers-te", "eager", cfg))
            if carrier != "h2c0":  # (client SETTINGS behind an empty upgrade payload: see ASSUMPTIONS)
                for pace, chs in (("cmfs32k", ("cw", "c9k3")), ("win100", ("cf", "c9k3"))):
                    for ch in chs:
                        out.append((engine, carrier, "GET", 200, "none", ch, "", pace, cfg))
        for pace, ch in (("acks", "cw"), ("net", "cf"), ("smallacks", "cw"), ("streamconn1", "cw")):
            out.append((engine, carrier, "GET", 200, "none", ch, "", pace, "mfs32k"))
        if carrier != "h2c0":  # a client that accepts larger frames, server configuration default
            for ch in ("cw", "cf", "c9k3"):
                out.append((engine, carrier, "GET", 200, "none", ch, "", "cmfs32k"))
    for cfg in HEADER_CFGS:
        for method, status, hdrs, ch in (("GET", 200, "none", "c3"), ("GET", 200, "cl", "c1"), ("HEAD", 200, "rep", "c3"),
                                         ("GET", 204, "none", "c0"), ("GET", 404, "rep", "cf"), ("GET", 500, "cl", "c3e")):
            out.append((engine, carrier, method, status, hdrs, ch, "", "eager", cfg))
    return out


def pace_of(pace: str) -> dict:
    gates = pace.startswith("gates+")
    d = {"single": False, "settings": None, "auto_ack": True, "net": False, "acks": None, "credit": None,
         "streams": 1, "flushes": 6, "gates": gates}
    for part in (pace[6:] if gates else pace).split("+"):
        d.update(PACES[part])
    return d


def app_headers(hdrs: str, body: bytes) -> List[tuple]:
    if hdrs == "none":
        return []
    if hdrs == "cl":
        return [(b"content-type", b"text/plain"), (b"content-length", str(len(body)).encode())]
    return [(b"x-a", b"1"), (b"x-b", b"2"), (b"x-a", b"3"), (b"set-cookie", b"a=1"), (b"set-cookie", b"b=2")]


def scenarios(tier: str) -> List[Any]:
    out: List[Any] = []
    for engine in ("asyncio", "trio"):
        for carrier in CARRIERS:
            for method in ("GET", "HEAD"):
                for status in STATUSES:
                    for hdrs in HDRS:
                        if hdrs == "cl" and status == 204:
                            continue  # RFC 7230 3.3.2 forbids it: an application error, not the server's
                        if hdrs == "cl" and status == 304 and carrier in H2S:
                            continue  # the h2 *client* library insists on content-length bytes of DATA for a 304
                        for ch in CHUNKINGS:
                            out.append((engine, carrier, method, status, hdrs, ch, "", "eager"))
            if carrier in H2S:
                for extra in ("trailers-te", "trailers-note", "hint"):
                    for method in ("GET", "HEAD"):
                        for ch in ("c0", "c3", "cf"):
                            out.append((engine, carrier, method, 200, "rep", ch, extra, "eager"))
                for pace, chs in (("win100", ("c3", "cf")), ("win1", ("c1", "c3"))):
                    if carrier == "h2c0":
                        # a client that announces a smaller window in the SETTINGS frame behind an empty upgrade payload
                        # may legally be sent more than that window before the frame arrives: not a pacing the client
                        # library can judge
                        continue
                    for ch in chs:
                        for hdrs in ("none", "cl"):
                            out.append((engine, carrier, "GET", 200, hdrs, ch, "", pace))
            # pacing
            paces = ["net", "gates+net"] + (["acks", "gates+acks", "smallacks"] if carrier in H2S else [])
            if carrier == "h2c0":
                # the empty payload only changes how the HTTP/2 connection is initiated; the interleaving-heavy
                # pacings (gates x transport pause/resume, four concurrent streams) are explored on "h2c"
                paces.remove("gates+net")
            for pace in paces:
                for ch in ("cw", "cf", "c3"):
                    if pace == "smallacks" and ch != "cw":
                        continue
                    for hdrs in ("none", "cl"):
                        out.append((engine, carrier, "GET", 200, hdrs, ch, "", pace))
                if carrier in H2S and pace in ("acks", "gates+net"):
                    out.append((engine, carrier, "GET", 200, "none", "c3", "trailers-te", pace))
            if carrier in H2S:
                for pace, chs in (("exact1k", ("x1k", "x1ke", "x1ks")), ("gates+exact1k", ("x1ke", "x1ks")),
                                  ("exact64k", ("x64k", "x64ke")), ("gates+exact64k", ("x64ke",)),
                                  ("conncredit", ("c200k", "c200k2")), ("streamconn", ("c200k",)), ("connstream", ("c200k",)),
                                  ("streamconn1", ("cw",)), ("connstream1", ("cw",))):
                    if carrier == "h2c0" and pace_of(pace)["settings"]:
                        continue  # (as above: scripts built on the client's own SETTINGS values)
                    for ch in chs:
                        for hdrs in ("none", "cl"):
                            out.append((engine, carrier, "GET", 200, hdrs, ch, "", pace))
                if carrier != "h2c0":
                    out.append((engine, carrier, "GET", 200, "none", "c20k", "", "four"))
            out.extend(config_scenarios(engine, carrier))
    return out


def bounds(tier: str, params: Any) -> dict:
    if pace_of(params[7])["single"]:
        return {"M": 0, "S": 0, "R": 0}
    if tier == "quick":
        return {"M": 1, "S": 2, "R": 0}
    if pace_of(params[7])["streams"] > 1:  # 4 streams, 3 sources, ~25 events: M<=2 alone is > 10^5 executions
        return {"M": 1, "S": 3, "R": 0}
    return {"M": 2, "S": 3, "R": 0}


def script_of(params: Any) -> tuple:
    """(application program, app header list, body chunks, trailers or None)"""
    engine, carrier, method, status, hdrs, ch, extra, pace = params[:8]
    chunks = ALL_CHUNKINGS[ch]
    body = b"".join(c for c, _ in chunks)
    headers = app_headers(hdrs, body)
    start: Dict[str, Any] = {"type": "http.response.start", "status": status, "headers": headers}
    prog: List[tuple] = [("recv_body",)]
    if extra == "hint":
        prog.append(("send", {"type": "http.response.early_hint", "links": [b"</style.css>; rel=preload"]}))
    trailers = None
    if extra.startswith("trailers"):
        start["trailers"] = True
        trailers = TRAILERS
    pc = pace_of(pace)
    if pc["streams"] > 1:  # concurrent requests: every application waits until all of them have arrived
        prog.append(("gate", "g"))
    prog.append(("send", start))
    gated = pc["gates"]
    for data, more in chunks:
        if gated:
            prog.append(("gate", "g"))
        prog.append(("send", {"type": "http.response.body", "body": data, "more_body": more}))
    if trailers is not None:
        if gated:
            prog.append(("gate", "g"))
        prog.append(("send", {"type": "http.response.trailers", "headers": trailers, "more_trailers": False}))
    return prog, headers, body, trailers


def plan(params: Any, chooser: Any) -> tuple:
    engine, carrier, method, status, hdrs, ch, extra, pace = params[:8]
    prog, headers, body, trailers = script_of(params)
    pc = pace_of(pace)
    m = method.encode()
    te = extra == "trailers-te"
    conn: Dict[str, Any] = {"carrier": {"h10": "h1", "h2c0": "h2c"}.get(carrier, carrier), "methods": [m]}
    settings = pc["settings"]  # the client's SETTINGS (INITIAL_WINDOW_SIZE)
    if settings:
        conn["h2_settings"] = dict(settings)
    sids = [1 + 2 * i for i in range(pc["streams"])]
    tef = [(b"te", b"trailers")] if te else []
    if carrier in ("h1", "h10"):
        client = [("data", 0, h1_request(m, b"/r", version=b"1.0" if carrier == "h10" else b"1.1"))]
    elif carrier == "h2":
        conn.update(tls=True, alpn="h2")
        client = [("cmd", 0, "preface")] + [("cmd", 0, "headers", sid, h2_request_headers(m, b"/r", extra=tef), True) for sid in sids]
    else:
        payload = b"" if carrier == "h2c0" else h2c_settings_header(settings)
        hs = [(b"Connection", b"Upgrade, HTTP2-Settings"), (b"Upgrade", b"h2c"), (b"HTTP2-Settings", payload)]
        if te:
            hs.append((b"TE", b"trailers"))
        # (the client's preface leaves it with its next command: the flush, or the next request)
        client = [("data", 0, h1_request(m, b"/r", hs))] + ([("cmd", 0, "flush")] if len(sids) == 1 else []) + \
                 [("cmd", 0, "headers", sid, h2_request_headers(m, b"/r", scheme=b"http", extra=tef), True) for sid in sids[1:]]
    sources = [("client", client)]
    if carrier in H2S and pc["acks"] is None:
        # the live client's own WINDOW_UPDATE / SETTINGS ack frames leave it when a flush event fires
        flush = [("cmd", 0, "flush")] * pc["flushes"]
        if pc["single"]:
            client.extend(flush)
        else:
            sources.append(("flush", flush))
    if not pc["auto_ack"]:
        conn["auto_ack"] = False
    if pc["acks"]:
        sources.append(("acks", [("cmd", 0) + a for a in pc["acks"]]))
    if pc["credit"]:
        sources.append(("credit", [("cmd", 0) + c for c in pc["credit"]]))
    if pc["net"]:
        sources.append(("net", [("pause", 0), ("resume", 0)]))
    releases = (len(ALL_CHUNKINGS[ch]) + 1 if pc["gates"] else 0) + (len(sids) if len(sids) > 1 else 0)
    if releases:
        sources.append(("app", [("release", "g")] * releases))
    sc = {"level": "conn", "conns": {0: conn}, "client_factory": make_xclient,
          "app_factory": paced_app_factory({"http": prog}),
          "config": {"keep_alive_timeout": 5, **CFGS.get(cfg_of(params), {})}, "sources": sources,
          "midflight": not pc["single"], "sigs": not pc["single"]}
    return engine, sc, {"headers": headers, "body": body, "trailers": trailers, "te": te, "sids": sids}


def _kind(got: bytes, want: bytes) -> str:
    if not want and got:
        return "not-suppressed"
    if want.startswith(got):
        return "short"
    if got.startswith(want):
        return "long"
    return "differs"


def oracle(w: Any, params: Any, ctx: Any) -> List[dict]:
    engine, carrier, method, status, hdrs, ch, extra, pace = params[:8]
    cfg = CFGS.get(cfg_of(params), {})
    out: List[dict] = []
    rec = w.conns[0]
    cl = rec.client
    tag = f"{carrier}:{method}:{status}"
    if cl.error is not None:
        out.append(V("client-parse-error", f"{tag}:{cl.error.split(':')[0]}", cl.error))
        return out
    want_body = b"" if body_suppressed(method, status) else ctx["body"]
    h1 = carrier in ("h1", "h10")
    views: List[tuple] = []  # (tag, status, headers, body, trailers, ended properly, how it ended)
    if h1:
        resps = cl.h1.responses
        if len(resps) != 1 or cl.h1.leftover:
            out.append(V("response-count", f"{carrier}:{len(resps)}", [(r["status"], r["complete"]) for r in resps]))
            return out
        r = resps[0]
        views.append((tag, r["status"], r["headers"], r["body"], r["trailers"] or None, r["complete"], "incomplete"))
    else:
        if carrier in H2C:
            resps = cl.h1.responses
            if [x["status"] for x in resps] != [101]:
                out.append(V("response-count", f"{carrier}:no-101", [(x["status"], x["complete"]) for x in resps]))
                return out
        sts = cl.h2.streams
        sids = ctx["sids"]
        if sorted(sts) != sids or any(sts[sid]["status"] is None or sts[sid]["pushes"] for sid in sids):
            out.append(V("response-count", f"{carrier}:streams-{sorted(sts)}", {k: v["status"] for k, v in sts.items()}))
            return out
        for sid in sids:
            st = sts[sid]
            views.append((tag if len(sids) == 1 else f"{tag}:one-of-{len(sids)}-streams", st["status"], st["headers"], st["body"],
                          st["trailers"], st["ended"] == 1 and st["reset"] is None and cl.h2.goaway is None,
                          f"ended-{st['ended']}-reset-{st['reset']}"))
    for tag, got_status, got_headers, got_body, got_trailers, ended_ok, how in views:
        if got_status != status:
            out.append(V("status", f"{tag}:got-{got_status}", ""))
        prob = response_header_problems(list(got_headers), ctx["headers"], h1, carrier == "h10", status, method, len(got_body))
        if prob is None and cfg:
            prob = server_header_config_problems(list(got_headers), ctx["headers"], cfg)
        if prob is not None:
            out.append(V("headers", f"{tag}:{prob}", f"got {got_headers!r} app sent {ctx['headers']!r}"))
        if got_body != want_body:
            out.append(V("body", f"{tag}:{_kind(got_body, want_body)}", f"client got {len(got_body)} bytes {got_body[:30]!r}, "
                                                                         f"wanted {len(want_body)} bytes {want_body[:30]!r}"))
        if not ended_ok:
            out.append(V("end-of-response", f"{tag}:{how}", "end of response not signalled exactly once"))
        if got_trailers:
            if h1 or not ctx["te"]:
                out.append(V("trailers", f"{tag}:unsolicited", repr(got_trailers)))
            elif ctx["trailers"] is None or list(got_trailers) != list(ctx["trailers"]):
                out.append(V("trailers", f"{tag}:altered", f"got {got_trailers!r} app sent {ctx['trailers']!r}"))
        elif not h1 and ctx["te"] and ctx["trailers"] and ended_ok:
            # what the application sends reaches the client: on HTTP/2, to a client that sent te: trailers, that
            # includes the trailers it announced and sent
            out.append(V("trailers", f"{tag}:missing", f"app sent {ctx['trailers']!r}, the response ended without them"))
    return out


def observe(w: Any, params: Any, ctx: Any) -> Any:
    rec = w.conns[0]
    frames = tuple((sid, n) for _, sid, n, _ in rec.client.h2.frames_data) if rec.client.h2 is not None else ()
    return (default_observation(w), tuple(len(c) for _, c in rec.out_chunks), frames)


execute = make_execute(plan, oracle, observe)
