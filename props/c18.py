"""C18 - configured limits and worker recycling are enforced against any client.

Families (all on both engines; Explorer A interleaves application gates / arrival where it matters)
  incomplete   h11_max_incomplete_size in {16, 64, 1024} x request heads of size limit-8 .. limit+40 and >>,
               terminated or never terminated, fed whole / every two-way split on a lattice / byte by byte
  keepalive    keep_alive_max_requests in {1, 2, 3} (HTTP/2 also 0) x 1..max+2 requests, sequential or pipelined
               (HTTP/1) or as HTTP/2 streams one after the other (over TLS; after an h2c upgrade, the upgraded request
               being the first; modes h2p1 / h2p2: the application of every request of the client first pushes one /
               two requests with http.response.push, which the application serves as well); max in {1, 2} also with
               include_date_header and include_server_header off (the server adds no header of its own)
  streams      h2_max_concurrent_streams in {1, 2} x k in 1..3 streams opened at once (applications gated so that
               they really are concurrent), the client ignoring the advertised limit
  headerlist   h2_max_header_list_size in {64, 256} x header blocks below / above the limit
  recycle      max_requests in {1, 2, 3} x max_requests_jitter in {0, 1, 2} with EVERY value randint may return,
               requests spread over 1..3 connections, on the real worker_serve()
  rehist       HISTORIES: ONE Config object (max_requests in {0, 1, 2} x max_requests_jitter in {0, 1, 2}) handed to the
               real worker_serve() two / three times in a row (an in-process supervisor loop), every combination of
               the jitter values drawn by the successive workers, max+jitter+2 requests offered to each worker

Oracle
  incomplete-head-served / incomplete-head-not-rejected   a head still incomplete beyond the limit reached the
               application / did not get a 4xx followed by close
  small-head-rejected        a complete head within the limit was not served
  too-many-requests          a request of the client was taken on although max (HTTP/2: max+1) requests - its own and,
               HTTP/2, those the application pushed - had been taken on with an earlier request of the client
  close-not-announced        the limit was reached (with a request of the client max resp. max+1 requests have been
               taken on) but the client was not told (connection: close / GOAWAY)
  under-limit-refused        a request below the limit was not served (pushing applications: the first request only)
  over-stream-limit-served   more application instances alive at once than h2_max_concurrent_streams
  admitted-stream-broken     a stream within the limit, complete before the excess arrived, lost its response
  oversize-headers-served    a header block above the limit reached the application
  recycle-early / recycle-late   the worker began shutting down with <= max+jitter requests taken on / did not
               begin although more than max+jitter had been taken on (rehist: each worker against the CONFIGURED
               max_requests plus the jitter IT drew, key rehist:...:serve<k>)
  config-changed-by-serve    (rehist) after a worker_serve() the Config no longer holds the configured values: the
               next worker started from it would not enforce the limits that were configured (key rehist:<attribute>)
"""
from __future__ import annotations

import collections
from typing import Any, List

import h2.settings

import os

from mc.clients import Client, h1_request, h2_request_headers
from mc.core import Chooser, Point, digest
from mc.explore import ExecResult, V
from mc.harness import (WATCHDOG_S, NeverYields, default_observation, describe, generic_violations, internal_errors,
                        std_execute, watchdog)

ID = "C18"
LEVEL = "model_checking"
TECHNIQUE = ("bounded exhaustive enumeration of limit values x client behaviour approaching/hitting/exceeding each limit "
             "x segmentation (x pushing applications, x server-header switches), with every randint outcome enumerated as a "
             "data choice, and of histories of several worker_serve() calls sharing one Config object, on the real protocol "
             "and worker code")
RULE = ("scenario = engine x family x limit value x client shape (x split | x number of serves); randint values and gate releases are choice "
        "points; non-trivial = instance ran or the request was refused, and the case is at or beyond a boundary; "
        "distinct by observation digest")
ASSUMPTIONS = [
    "h11 counts an event as incomplete only when a read ends before the head is complete: heads complete within one "
    "read are outside the 'still incomplete after N bytes' clause and are not judged against the size limit",
    "respawning a recycled worker belongs to the master process and is outside",
    "pushed requests (http.response.push) are requests taken on on the connection, but the limit is only judged at the "
    "requests of the client (telling the client to stop does not stop the server's own pushes); how much a pushed "
    "request weighs is left to the server, so with pushing applications 'told to stop too early' is not judged",
    "rehist: the workers follow one another in one process (never two at once) and share nothing but the Config object; "
    "the Logger a Config caches (config._log) is dropped by the harness between serves and is not part of the comparison",
]
BOUNDS_DOC = {"quick": "M=0..1, S<=2; rehist: 2 serves S<=1, 3 serves S=0, all (jitter+1)^serves draws",
              "thorough": "M<=1, S<=3, trio R<=1; every split point; rehist: 2 serves S<=2, 3 serves S<=1, trio R<=1"}
BUDGET = {"quick": 300, "thorough": 1800}

OK = [("recv_body",), ("send", {"type": "http.response.start", "status": 200, "headers": [(b"content-length", b"2")]}),
      ("send", {"type": "http.response.body", "body": b"ok", "more_body": False})]
GATED = [("recv_body",), ("gate", "g")] + OK[1:]
MCS = h2.settings.SettingCodes.MAX_CONCURRENT_STREAMS
# keepalive modes; h2p1 / h2p2: HTTP/2 where the application of every client request pushes one / two requests
# (http.response.push) before it answers - the pushed requests are served by the application like any other
KA_MODES = ("seq", "seq_early", "seq_ka", "pipe", "h2", "h2c", "h2p1", "h2p2")
H2_MODES = ("h2", "h2c", "h2p1", "h2p2")
PUSH_MODES = ("h2p1", "h2p2")
PUSH = ("send", {"type": "http.response.push", "path": "/pushed", "headers": []})
NO_SERVER_HEADERS = {"include_date_header": False, "include_server_header": False}


class LawlessClient(Client):
    """An HTTP/2 client that ignores the server's MAX_CONCURRENT_STREAMS (the h2 library would refuse to send)."""

    def on_server_bytes(self, data: bytes, t: float) -> None:
        super().on_server_bytes(data, t)
        self._lift()

    def command(self, ev: tuple) -> bytes:
        self._lift()
        return super().command(ev)

    def _lift(self) -> None:
        if self.h2 is not None:
            self.h2.conn.remote_settings._settings[MCS] = collections.deque([2 ** 31 - 1])


def lawless(world: Any, k: int, opts: dict) -> Client:
    return LawlessClient(opts)


def head(size: int, terminated: bool) -> bytes:
    base = b"GET /x HTTP/1.1\r\nHost: hypercorn\r\nX-Pad: "
    tail = b"\r\n\r\n" if terminated else b""
    pad = max(0, size - len(base) - len(tail))
    return base + b"p" * pad + tail


def scenarios(tier: str) -> List[Any]:
    out = []
    for engine in ("asyncio", "trio"):
        for limit in (16, 64, 1024) + ((5, 23) if tier != "quick" else ()):
            sizes = [limit - 8, limit - 1, limit, limit + 1, limit + 40, limit * 4]
            for size in sizes:
                for term in (True, False):
                    if size < 44 + (4 if term else 0):
                        continue
                    out.append((engine, "incomplete", limit, size, term, "whole"))
                    cuts = sorted({1, limit - 1, limit, limit + 1, size // 2, size - 1} - {0, size})
                    if tier != "quick":
                        cuts = list(range(1, size, max(1, size // 60)))
                    for c in cuts:
                        if 0 < c < size:
                            out.append((engine, "incomplete", limit, size, term, c))
                    if size <= 130:
                        out.append((engine, "incomplete", limit, size, term, "bytes"))
        for mx in (0, 1, 2, 3):
            for n in range(1, mx + 3):
                for mode in KA_MODES:
                    if mx == 0 and mode not in H2_MODES:
                        continue  # HTTP/1: a connection cannot serve fewer than one request
                    out.append((engine, "keepalive", mx, n, mode, 0))
                    if mx in (1, 2) and mode not in PUSH_MODES:
                        # the server adds no headers of its own (no date, no server, no alt-svc)
                        out.append((engine, "keepalive", mx, n, mode, "nohdr"))
        for mcs in (0, 1, 2):
            for k in (1, 2, 3):
                out.append((engine, "streams", mcs, k, 0, 0))
        for mhl in (64, 256):
            for extra in (0, mhl // 2, mhl, mhl * 3):
                out.append((engine, "headerlist", mhl, extra, 0, 0))
                out.append((engine, "headerlist", mhl, extra, "h2c", 0))
        for mr in (0, 1, 2, 3):
            for jit in (0, 1, 2):
                for nconn in (1, 2, 3):
                    out.append((engine, "recycle", mr, jit, nconn, 0))
                if jit == 0:
                    out.append((engine, "recycle", mr, jit, 1, "no_trigger"))  # serve() without a shutdown trigger
                if mr <= 2 and jit <= 1:
                    # every request on its own connection, taken on through the other protocol paths: an h2c upgrade
                    # (the upgraded request becomes stream 1) and HTTP/2 over TLS
                    out.append((engine, "recycle", mr, jit, mr + jit + 2, "h2c"))
                    out.append((engine, "recycle", mr, jit, mr + jit + 2, "h2"))
        # the SAME Config object handed to worker_serve() two / three times in a row (a supervisor loop in one process)
        for mr in (0, 1, 2):
            for jit in (0, 1, 2):
                for serves in (2, 3):
                    out.append((engine, "rehist", mr, jit, serves, 0))
    return out


def bounds(tier: str, params: Any) -> dict:
    fam = params[1]
    if fam in ("incomplete", "headerlist"):
        return {"M": 0, "S": 1, "R": 0}
    if tier == "quick":
        if fam == "recycle":
            return {"M": 0, "S": 2 if params[4] < 3 else 1, "R": 0}
        if fam == "rehist":  # (the jitter draws are data choices: every combination over the serves, whatever S is)
            return {"M": 0, "S": 1 if params[4] < 3 else 0, "R": 0}
        return {"M": 1, "S": 2, "R": 0}
    if fam == "rehist":
        return {"M": 0, "S": 2 if params[4] < 3 else 1, "R": 1 if params[0] == "trio" else 0}
    return {"M": 1, "S": 3, "R": 1 if params[0] == "trio" else 0}


def build(params: Any) -> tuple:
    engine, fam = params[0], params[1]
    base = {"level": "conn", "client_factory": lawless, "trio_rev": True}
    if fam == "incomplete":
        _, _, limit, size, term, seg = params
        blob = head(size, term)
        if seg == "whole":
            parts = [blob]
        elif seg == "bytes":
            parts = [blob[i:i + 1] for i in range(len(blob))]
        else:
            parts = [blob[:seg], blob[seg:]]
        sc = {**base, "conns": {0: {"carrier": "h1", "methods": [b"GET"]}}, "apps": {"http": OK},
              "config": {"h11_max_incomplete_size": limit, "keep_alive_timeout": 5},
              "sources": [("client", [("data", 0, p) for p in parts if p])], "midflight": False, "sigs": False}
        return engine, sc
    if fam == "keepalive":
        _, _, mx, n, mode, hdr = params
        apps: dict = {"http": OK}
        if mode in ("h2",) + PUSH_MODES:
            if mode in PUSH_MODES:
                apps = {"http": [OK[0]] + [PUSH] * int(mode[3:]) + OK[1:], "http:/pushed": OK}
            client = [("cmd", 0, "preface")]
            for i in range(n):
                client.append(("cmd", 0, "headers", 1 + 2 * i, h2_request_headers(b"GET", b"/r%d" % i), True))
                client.append(("wait_status", 0, 1 + 2 * i))
            conn = {"carrier": "h2", "tls": True, "alpn": "h2"}
        elif mode == "h2c":
            up = h1_request(b"GET", b"/r0", [(b"Connection", b"Upgrade, HTTP2-Settings"), (b"Upgrade", b"h2c"),
                                             (b"HTTP2-Settings", b"AAMAAABkAAQAoAAAAAIAAAAA")])
            client = [("data", 0, up), ("wait_status", 0)]
            for i in range(1, n):
                client.append(("cmd", 0, "headers", 1 + 2 * i, h2_request_headers(b"GET", b"/r%d" % i, scheme=b"http"), True))
                client.append(("wait_h2", 1 + 2 * i))
            conn = {"carrier": "h2c", "methods": [b"GET"]}
        elif mode == "pipe":
            client = [("data", 0, b"".join(h1_request(b"GET", b"/r%d" % i) for i in range(n)))]
            conn = {"carrier": "h1", "methods": [b"GET"] * n}
        elif mode == "seq_early":
            # the application answers on the head alone: the response head leaves between two segments of the request
            client = []
            for i in range(n):
                raw = h1_request(b"POST", b"/r%d" % i, body=b"abcd")
                client.append(("data", 0, raw[:-2]))
                client.append(("resp_heads", i + 1))
                client.append(("data", 0, raw[-2:]))
                client.append(("resp_done", i + 1))
            conn = {"carrier": "h1", "methods": [b"POST"] * n}
            apps = {"http": [OK[1], ("recv_body",), OK[2]]}
        else:
            client = []
            for i in range(n):
                client.append(("data", 0, h1_request(b"GET", b"/r%d" % i)))
                client.append(("resp_count", i + 1))
            conn = {"carrier": "h1", "methods": [b"GET"] * n}
            if mode == "seq_ka":  # the application insists on keep-alive in its own response headers
                apps = {"http": [OK[0], ("send", {**OK[1][1], "headers": OK[1][1]["headers"] + [(b"connection", b"keep-alive")]}), OK[2]]}
        # sequential mode: each request is sent only once the previous response is complete
        sc = {**base, "conns": {0: conn}, "apps": apps,
              "config": {"keep_alive_max_requests": mx, "keep_alive_timeout": 5, **(NO_SERVER_HEADERS if hdr == "nohdr" else {})},
              "sources": [("client", client)], "midflight": False,
              "guards": {"resp_count": _resp_guard, "wait_h2": _wait_h2, "resp_heads": _resp_n_guard, "resp_done": _resp_n_guard}}
        return engine, sc
    if fam == "streams":
        _, _, mcs, k, _, _ = params
        client = [("cmd", 0, "preface")]
        for i in range(k):
            client.append(("cmd", 0, "headers", 1 + 2 * i, h2_request_headers(b"GET", b"/s%d" % i), True))
        sc = {**base, "conns": {0: {"carrier": "h2", "tls": True, "alpn": "h2"}}, "apps": {"http": GATED},
              "config": {"h2_max_concurrent_streams": mcs, "keep_alive_timeout": 5},
              "sources": [("client", client), ("app", [("release", "g")] * k)]}
        return engine, sc
    if fam == "headerlist":
        _, _, mhl, extra, how, _ = params
        if how == "h2c":
            # the connection became HTTP/2 through an h2c upgrade; the judged header block is that of stream 3
            hdrs = h2_request_headers(b"GET", b"/h", scheme=b"http") + ([(b"x-pad", b"v" * extra)] if extra else [])
            up = h1_request(b"GET", b"/up", [(b"Connection", b"Upgrade, HTTP2-Settings"), (b"Upgrade", b"h2c"),
                                             (b"HTTP2-Settings", b"AAMAAABkAAQAoAAAAAIAAAAA")])
            client = [("data", 0, up), ("wait_status", 0), ("cmd", 0, "headers", 3, hdrs, True)]
            conn = {"carrier": "h2c", "methods": [b"GET"]}
        else:
            hdrs = h2_request_headers(b"GET", b"/h") + ([(b"x-pad", b"v" * extra)] if extra else [])
            client = [("cmd", 0, "preface"), ("cmd", 0, "headers", 1, hdrs, True)]
            conn = {"carrier": "h2", "tls": True, "alpn": "h2"}
        sc = {**base, "conns": {0: conn}, "apps": {"http": OK},
              "config": {"h2_max_header_list_size": mhl, "keep_alive_timeout": 5},
              "sources": [("client", client)], "midflight": False,
              "guards": {"resp_count": _resp_guard, "wait_h2": _wait_h2, "resp_heads": _resp_n_guard, "resp_done": _resp_n_guard}}
        return engine, sc
    if fam == "recycle":
        _, _, mr, jit, nconn, trig = params
        total = mr + jit + 2
        sources = []
        per = [[] for _ in range(nconn)]
        for i in range(total):
            per[i % nconn].append(i)
        for c, idxs in enumerate(per):
            if trig == "h2c":
                i = idxs[0]
                up = h1_request(b"GET", b"/q%d" % i, [(b"Connection", b"Upgrade, HTTP2-Settings"), (b"Upgrade", b"h2c"),
                                                      (b"HTTP2-Settings", b"AAMAAABkAAQAoAAAAAIAAAAA")])
                evs: list = [("connect", c, {"carrier": "h2c", "methods": [b"GET"]}), ("data", c, up), ("conn_gone_or_status", c)]
            elif trig == "h2":
                i = idxs[0]
                evs = [("connect", c, {"carrier": "h2", "tls": True, "alpn": "h2"}), ("cmd", c, "preface"),
                       ("cmd", c, "headers", 1, h2_request_headers(b"GET", b"/q%d" % i), True), ("conn_gone_or_status", c)]
            else:
                evs = [("connect", c, {"carrier": "h1", "methods": [b"GET"] * len(idxs)})]
                for j, i in enumerate(idxs):
                    evs.append(("data", c, h1_request(b"GET", b"/q%d" % i)))
                    evs.append(("conn_resp", c, j + 1))
            sources.append((f"c{c}", evs))
        if trig in ("h2c", "h2"):  # one connection after the other (the protocol path is the point, not the interleaving)
            sources = [("c", [e for _, evs in sources for e in evs])]
        sources.append(("clock", [("tick",)] * 3))
        sc = {"level": "serve", "client_factory": lawless, "trio_rev": True, "randint": True, "no_trigger": trig == "no_trigger",
              "apps": {"lifespan": [("lifespan_loop",)], "http": OK},
              "config": {"max_requests": mr, "max_requests_jitter": jit, "keep_alive_timeout": 50, "graceful_timeout": 3,
                         "shutdown_timeout": 2},
              "sources": sources, "midflight": False,
              "guards": {"conn_resp": _conn_resp_guard, "conn_gone_or_status": _gone_or_status}}
        return engine, sc
    raise ValueError(fam)


def _gone_or_status(w: Any, ev: tuple) -> bool:
    """('conn_gone_or_status', c): connection c has seen a response head (h1 / h2 stream 1), or is gone / was refused."""
    rec = w.conns.get(ev[1])
    if rec is None:
        return False
    if rec.refused or rec.closed_at is not None:
        return True
    cl = rec.client
    if cl.h2 is not None and cl.h2.streams.get(1) is not None and cl.h2.streams[1]["status"] is not None:
        return True
    return cl.h1 is not None and any(r["status"] != 101 for r in cl.h1.responses)


def _conn_resp_guard(w: Any, ev: tuple) -> bool:
    """('conn_resp', c, n): connection c has n complete responses, or is gone / was refused."""
    rec = w.conns.get(ev[1])
    if rec is None:
        return False
    if rec.refused or rec.closed_at is not None:
        return True
    return sum(1 for r in rec.client.h1.responses if r["complete"]) >= ev[2]


def _wait_h2(w: Any, ev: tuple) -> bool:
    """('wait_h2', sid): the (upgraded) HTTP/2 client has seen the response head of stream sid, or the connection is gone."""
    rec = w.conns.get(0)
    if rec is None:
        return False
    if rec.closed_at is not None:
        return True
    st = rec.client.h2.streams.get(ev[1]) if rec.client.h2 is not None else None
    return st is not None and st["status"] is not None


def _resp_n_guard(w: Any, ev: tuple) -> bool:
    """('resp_heads' | 'resp_done', n): the client has n response heads / n complete responses, or the connection closed."""
    rec = w.conns.get(0)
    if rec is None or rec.client.h1 is None or rec.closed_at is not None:
        return True
    rs = rec.client.h1.responses
    return (len(rs) if ev[0] == "resp_heads" else sum(1 for r in rs if r["complete"])) >= ev[1]


def _resp_guard(w: Any, ev: Any = None) -> bool:
    """Enabled when every request sent so far on connection 0 has a complete response (or the connection closed)."""
    rec = w.conns.get(0)
    if rec is None or rec.client.h1 is None:
        return True
    sent = sum(1 for _, e in w.driver.fired if e[0] == "data" and e[1] == 0)
    done = sum(1 for r in rec.client.h1.responses if r["complete"])
    return done >= sent or rec.closed_at is not None


def oracle(w: Any, params: Any) -> List[dict]:
    engine, fam = params[0], params[1]
    out: List[dict] = []
    reqs = [i for i in w.instances if i.type == "http"]
    if fam == "incomplete":
        _, _, limit, size, term, seg = params
        rec = w.conns[0]
        cl = rec.client.h1
        blob = head(size, term)
        # read boundaries: the prefix lengths after each read
        if seg == "whole":
            ends = [len(blob)]
        elif seg == "bytes":
            ends = list(range(1, len(blob) + 1))
        else:
            ends = [seg, len(blob)]
        head_len = len(blob) if term else None
        incomplete_beyond = any(e > limit and (head_len is None or e < head_len) for e in ends)
        tag = f"limit{limit}"
        if incomplete_beyond:
            if reqs:
                out.append(V("incomplete-head-served", tag, f"size {size} term {term} seg {seg}: an instance was started"))
            ok = bool(cl.responses) and 400 <= (cl.responses[0]["status"] or 0) < 500 and cl.responses[0]["complete"]
            if not ok or rec.closed_at is None:
                out.append(V("incomplete-head-not-rejected", tag,
                             f"size {size} term {term} seg {seg}: responses {[(r['status'], r['complete']) for r in cl.responses]} closed_at={rec.closed_at}"))
        elif term and head_len <= limit:
            if len(reqs) != 1 or not cl.responses or cl.responses[0]["status"] != 200:
                out.append(V("small-head-rejected", tag, f"size {size} seg {seg}: {len(reqs)} instances, responses {[(r['status']) for r in cl.responses]}"))
    elif fam == "keepalive":
        _, _, mx, n, mode, _ = params
        rec = w.conns[0]
        allowed = mx + 1 if mode in H2_MODES else mx
        tag = f"{mode}:max{mx}"
        # what the property counts: the requests taken on on this connection - the client's own (`mine`) and, on HTTP/2,
        # those the application pushed - in the order in which they were taken on
        mine = [i for i in reqs if i.scope["path"].startswith("/r")]
        # the client's request with which `allowed` requests have been taken on: with it the client has to be told to stop
        stop_at = next((k for k, i in enumerate(reqs) if k + 1 >= allowed and i in mine), None)
        beyond = [] if stop_at is None else [i for i in reqs[stop_at + 1:] if i in mine]
        if beyond:
            out.append(V("too-many-requests", tag, f"{len(reqs)} instances ({len(mine)} of them requests of the client, {n} sent): "
                         f"{[i.scope['path'] for i in reqs]}; the client's {beyond[0].scope['path']} was taken on after "
                         f"{stop_at + 1} requests had been"))
        sent = sum(1 for _, e in w.driver.fired if (e[0] == "cmd" and e[2] == "headers") or e[0] == "data")
        # (how a pushed request counts towards the limit is the server's business - it may well tell the client to stop
        # early -: with a pushing application only the first request of the client is demanded to be served)
        expect = min(n, allowed) if mode not in PUSH_MODES else min(n, 1)
        if mode != "pipe":
            if len(mine) < min(expect, sent if mode not in ("seq", "seq_early", "seq_ka") else n):
                out.append(V("under-limit-refused", tag, f"{len(mine)} instances, {n} requests, allowed {allowed}"))
        else:
            if len(mine) < expect:
                out.append(V("under-limit-refused", tag, f"{len(mine)} instances, {n} pipelined requests, allowed {allowed}"))
        # every request that was taken on is answered completely ("served"), including the last allowed one
        if mode in H2_MODES:
            for i, inst in enumerate(mine):
                sid = 1 + 2 * int(inst.scope["path"][2:])
                st = rec.client.h2.streams.get(sid)
                if st is None or not st["ended"] or st["body"] != b"ok" or st["status"] != 200:
                    # (the known finding is about the ONE request HTTP/2 allows past the limit; a request within the
                    # limit that goes unanswered is something else and gets its own key)
                    within = ":within-limit" if mode not in PUSH_MODES and i < mx else ""
                    out.append(V("served-request-truncated", f"{'h2' if mode in PUSH_MODES else mode}:max{mx}{within}",
                                 f"{mode}: request {i} (stream {sid}) reached the application but its response is {st}"))
        else:
            rs = rec.client.h1.responses
            for i, inst in enumerate(reqs):
                if i >= len(rs) or not rs[i]["complete"] or rs[i]["body"] != b"ok":
                    out.append(V("served-request-truncated", tag, f"request {i} reached the application but its response is incomplete"))
        if stop_at is not None:
            if mode in H2_MODES:
                if rec.client.h2.goaway is None:
                    out.append(V("close-not-announced", tag, f"no GOAWAY although {stop_at + 1} requests have been taken on "
                                 f"({[i.scope['path'] for i in reqs]}), the limit is {mx}"))
            else:
                rs = rec.client.h1.responses
                last = rs[allowed - 1] if len(rs) >= allowed else None
                hdrs = [] if last is None else [(a.lower(), b.lower()) for a, b in last["headers"]]
                if last is None or (b"connection", b"close") not in hdrs:
                    out.append(V("close-not-announced", tag, f"response {allowed - 1} headers {None if last is None else last['headers']}"))
                if rec.closed_at is None:
                    out.append(V("close-not-announced", tag + ":not-closed", "connection still open after the last allowed response"))
    elif fam == "streams":
        _, _, mcs, k, _, _ = params
        rec = w.conns[0]
        tag = f"mcs{mcs}:k{k}"
        # instances alive at once: all applications are gated, so every instance created before the first release
        first_rel = next((i for i, (_, e) in enumerate(w.driver.fired) if e[0] == "release"), 10 ** 9)
        alive = [i for i in reqs if i.seq <= first_rel]
        if len(alive) > mcs:
            out.append(V("over-stream-limit-served", tag, f"{len(alive)} concurrent application instances"))
        if k <= mcs:
            rel = sum(1 for _, e in w.driver.fired if e[0] == "release")
            done = sum(1 for st in rec.client.h2.streams.values() if st["ended"] and st["body"] == b"ok")
            if len(reqs) < k and w.driver.pos[0] == len(w.driver.sources[0][1]):
                out.append(V("under-limit-refused", tag, f"{len(reqs)} instances for {k} streams within the limit"))
            if rel >= k and done < k and rec.closed_at is None:
                out.append(V("admitted-stream-broken", tag, f"{done} of {k} streams completed"))
    elif fam == "headerlist":
        _, _, mhl, extra, how, _ = params
        tag = f"mhl{mhl}" + (":h2c" if how == "h2c" else "")
        # RFC 9113 6.5.2: size = sum(len(name) + len(value) + 32)
        hdrs = h2_request_headers(b"GET", b"/h", scheme=b"http" if how == "h2c" else b"https") + \
            ([(b"x-pad", b"v" * extra)] if extra else [])
        size = sum(len(n) + len(v) + 32 for n, v in hdrs)
        judged = [i for i in reqs if i.scope["path"] == "/h"]  # (h2c: the upgrade request itself is /up)
        if size > mhl and judged:
            out.append(V("oversize-headers-served", tag, f"header list of {size} bytes reached the application"))
        if size <= mhl and not judged:
            out.append(V("under-limit-refused", tag, f"header list of {size} bytes refused"))
    elif fam == "recycle":
        _, _, mr, jit, nconn, _ = params
        jv = next((p.choice for p in w.chooser.trace if p.kind == "data"), 0)  # randint(0, jit) == choice index
        out.extend(_recycle_verdict(w, mr, jv, f"max{mr}:jit{jit}:r{jv}"))
    out.extend(internal_errors(w))
    return out


def _recycle_verdict(w: Any, mr: int, jv: int, tag: str) -> List[dict]:
    """One worker_serve(): `jv` is the jitter this worker drew; it has to begin its exit with request mr + jv + 1."""
    out: List[dict] = []
    reqs = [i for i in w.instances if i.type == "http"]
    threshold = mr + jv
    life = next((i for i in w.instances if i.type == "lifespan"), None)
    began = life is not None and any(m["type"] == "lifespan.shutdown" for m in life.delivered())
    taken = len(reqs)
    if began and taken <= threshold:
        out.append(V("recycle-early", tag, f"shutdown began with {taken} requests taken on, threshold {threshold}"))
    settled = w.driver.remaining() == 0 or w.serve_result is not None or \
        all(w.driver.pos[i] == len(evs) or evs[w.driver.pos[i]][0] == "tick" for i, (_, evs) in enumerate(w.driver.sources))
    if not began and taken > threshold and settled:
        out.append(V("recycle-late", tag, f"{taken} requests taken on, threshold {threshold}, worker still serving"))
    return out


# ---------------------------------------------------------------------------------------------
# family rehist: one Config object, worker_serve() called with it several times in a row


def _config_view(cfg: Any) -> dict:
    """Every data attribute of a Config (class defaults, instance values, the private backing fields)."""
    out = {}
    for name in dir(cfg):
        if name.startswith("__") or name in ("logger_class", "log", "_log"):  # (the engine's recording logger; the Logger cache)
            continue
        if isinstance(getattr(type(cfg), name, None), property) or callable(getattr(cfg, name)):
            continue
        out[name] = repr(getattr(cfg, name))
    return out


def _execute_rehist(params: Any, prefix: List[int]) -> ExecResult:
    from hypercorn.config import Config

    engine, _, mr, jit, serves, _ = params
    _, sc0 = build((engine, "recycle", mr, jit, 1, 0))
    cfg = Config()  # the one Config object of the whole history
    for key, value in sc0["config"].items():
        setattr(cfg, key, value)
    configured = _config_view(cfg)
    chooser = Chooser(prefix)  # one choice sequence over all the serves (randint values, interleaving)
    worlds: List[Any] = []
    viol: List[dict] = []
    views = []
    try:
        with watchdog(WATCHDOG_S):
            for j in range(serves):
                _, sc = build((engine, "recycle", mr, jit, 1, 0))
                sc["config"] = {}
                sc["config_object"] = cfg
                cfg._log = None  # (harness: the Logger a Config caches records into the world it was created in)
                if engine == "asyncio":
                    from mc import aio
                    w = aio.AioWorld(sc, chooser).run()
                else:
                    from mc import tri
                    w = tri.TrioWorld(sc, chooser).run()
                for rec in w.conns.values():
                    if rec.client is not None and (rec.closed_at is not None or rec.server_eof_at is not None):
                        rec.client.on_close(rec.closed_at if rec.closed_at is not None else rec.server_eof_at)
                worlds.append(w)
                draws = [p.choice for p in chooser.trace if p.kind == "data"]
                jv = draws[j] if j < len(draws) else 0
                tag = f"rehist:max{mr}:jit{jit}:serve{j + 1}"
                for v in _recycle_verdict(w, mr, jv, tag):
                    v["detail"] = f"serve #{j + 1} of {serves} with the same Config object (jitter drawn so far {draws}): " + v["detail"]
                    viol.append(v)
                viol.extend(generic_violations(w))
                viol.extend(internal_errors(w))
                # the limits the NEXT worker is started with are the configured ones
                now = _config_view(cfg)
                views.append(tuple(sorted(now.items())))
                for name in sorted(set(now) | set(configured)):
                    if now.get(name) != configured.get(name):
                        viol.append(V("config-changed-by-serve", f"rehist:{name}",
                                      f"after serve #{j + 1} config.{name} = {now.get(name)}, configured {configured.get(name)}"))
                if os.environ.get("MC_VERBOSE"):
                    print(f"======== serve #{j + 1} of {serves}; config.max_requests={cfg.max_requests!r} "
                          f"max_requests_jitter={cfg.max_requests_jitter!r}")
                    describe(w)
    except NeverYields as e:
        return ExecResult([Point(1, c, "replay") for c in prefix],
                          [V("never-yields", str(e)[:80], f"execution exceeded {WATCHDOG_S}s of wall time inside one step")],
                          "never-yields", True, (), {"params": repr(params)[:300], "choices": list(prefix)})
    obs = (tuple(default_observation(w) for w in worlds), tuple(views))
    sigs = set()
    for w in worlds:
        sigs |= set(w.sigs)
    sample = {"params": repr(params)[:400], "engine": engine, "choices": chooser.choices[:40],
              "requests per serve": [sum(1 for i in w.instances if i.type == "http") for w in worlds],
              "serve results": [w.serve_result for w in worlds]}
    return ExecResult(chooser.trace, viol, digest(obs), any(w.instances for w in worlds) and any(chooser.choices), sigs, sample)


_std = std_execute(build, oracle)


def execute(params: Any, prefix: List[int]) -> ExecResult:
    if params[1] == "rehist":
        return _execute_rehist(params, prefix)
    return _std(params, prefix)


# wave h documentation (what was added to the enumeration; see DESIGN.md 11.0)
_WAVE_H = "+ headerlist also on a connection upgraded with h2c (header block on stream 3); an unanswered request WITHIN keep_alive_max_requests has its own key (':within-limit')"
RULE = RULE + " " + _WAVE_H
BOUNDS_DOC = {k: v + " " + _WAVE_H for k, v in BOUNDS_DOC.items()}
