"""C18 - configured limits and worker recycling are enforced against any client.

Families (all on both engines; Explorer A interleaves application gates / arrival where it matters)
  incomplete   h11_max_incomplete_size in {16, 64, 1024} x request heads of size limit-8 .. limit+40 and >>,
               terminated or never terminated, fed whole / every two-way split on a lattice / byte by byte
  keepalive    keep_alive_max_requests in {1, 2, 3} x 1..max+2 requests, sequential or pipelined (HTTP/1) or as
               HTTP/2 streams (one after the other)
  streams      h2_max_concurrent_streams in {1, 2} x k in 1..3 streams opened at once (applications gated so that
               they really are concurrent), the client ignoring the advertised limit
  headerlist   h2_max_header_list_size in {64, 256} x header blocks below / above the limit
  recycle      max_requests in {1, 2, 3} x max_requests_jitter in {0, 1, 2} with EVERY value randint may return,
               requests spread over 1..3 connections, on the real worker_serve()

Oracle
  incomplete-head-served / incomplete-head-not-rejected   a head still incomplete beyond the limit reached the
               application / did not get a 4xx followed by close
  small-head-rejected        a complete head within the limit was not served
  too-many-requests          more than max (HTTP/2: max+1) application instances on one connection
  close-not-announced        the limit was reached but the client was not told (connection: close / GOAWAY)
  under-limit-refused        a request below the limit was not served
  over-stream-limit-served   more application instances alive at once than h2_max_concurrent_streams
  admitted-stream-broken     a stream within the limit, complete before the excess arrived, lost its response
  oversize-headers-served    a header block above the limit reached the application
  recycle-early / recycle-late   the worker began shutting down with <= max+jitter requests taken on / did not
               begin although more than max+jitter had been taken on
"""
from __future__ import annotations

import collections
from typing import Any, List

import h2.settings

from mc.clients import Client, h1_request, h2_request_headers
from mc.explore import V
from mc.harness import internal_errors, std_execute

ID = "C18"
LEVEL = "model_checking"
TECHNIQUE = ("bounded exhaustive enumeration of limit values x client behaviour approaching/hitting/exceeding each limit "
             "x segmentation, with every randint outcome enumerated as a data choice, on the real protocol and worker code")
RULE = ("scenario = engine x family x limit value x client shape (x split); randint values and gate releases are choice "
        "points; non-trivial = instance ran or the request was refused, and the case is at or beyond a boundary; "
        "distinct by observation digest")
ASSUMPTIONS = [
    "h11 counts an event as incomplete only when a read ends before the head is complete: heads complete within one "
    "read are outside the 'still incomplete after N bytes' clause and are not judged against the size limit",
    "respawning a recycled worker belongs to the master process and is outside",
]
BOUNDS_DOC = {"quick": "M=0..1, S<=2", "thorough": "M<=1, S<=3, trio R<=1; every split point"}
BUDGET = {"quick": 300, "thorough": 1800}

OK = [("recv_body",), ("send", {"type": "http.response.start", "status": 200, "headers": [(b"content-length", b"2")]}),
      ("send", {"type": "http.response.body", "body": b"ok", "more_body": False})]
GATED = [("recv_body",), ("gate", "g")] + OK[1:]
MCS = h2.settings.SettingCodes.MAX_CONCURRENT_STREAMS


class LawlessClient(Client):
    """An HTTP/2 client that ignores the server's MAX_CONCURRENT_STREAMS (the h2 library would refuse to send)."""

    def on_server_bytes(self, data: bytes, t: float) -> None:
        super().on_server_bytes(data, t)
        self._lift()

    def command(self, ev: tuple) -> bytes:
        self._lift()
        return super().command(ev)

    def _lift(self) -> None:
        if self.h2 is not None:
            self.h2.conn.remote_settings._settings[MCS] = collections.deque([2 ** 31 - 1])


def lawless(world: Any, k: int, opts: dict) -> Client:
    return LawlessClient(opts)


def head(size: int, terminated: bool) -> bytes:
    base = b"GET /x HTTP/1.1\r\nHost: hypercorn\r\nX-Pad: "
    tail = b"\r\n\r\n" if terminated else b""
    pad = max(0, size - len(base) - len(tail))
    return base + b"p" * pad + tail


def scenarios(tier: str) -> List[Any]:
    out = []
    for engine in ("asyncio", "trio"):
        for limit in (16, 64, 1024) + ((5, 23) if tier != "quick" else ()):
            sizes = [limit - 8, limit - 1, limit, limit + 1, limit + 40, limit * 4]
            for size in sizes:
                for term in (True, False):
                    if size < 44 + (4 if term else 0):
                        continue
                    out.append((engine, "incomplete", limit, size, term, "whole"))
                    cuts = sorted({1, limit - 1, limit, limit + 1, size // 2, size - 1} - {0, size})
                    if tier != "quick":
                        cuts = list(range(1, size, max(1, size // 60)))
                    for c in cuts:
                        if 0 < c < size:
                            out.append((engine, "incomplete", limit, size, term, c))
                    if size <= 130:
                        out.append((engine, "incomplete", limit, size, term, "bytes"))
        for mx in (1, 2, 3):
            for n in range(1, mx + 3):
                for mode in ("seq", "seq_early", "seq_ka", "pipe", "h2", "h2c"):
                    out.append((engine, "keepalive", mx, n, mode, 0))
        for mcs in (0, 1, 2):
            for k in (1, 2, 3):
                out.append((engine, "streams", mcs, k, 0, 0))
        for mhl in (64, 256):
            for extra in (0, mhl // 2, mhl, mhl * 3):
                out.append((engine, "headerlist", mhl, extra, 0, 0))
        for mr in (0, 1, 2, 3):
            for jit in (0, 1, 2):
                for nconn in (1, 2, 3):
                    out.append((engine, "recycle", mr, jit, nconn, 0))
                if jit == 0:
                    out.append((engine, "recycle", mr, jit, 1, "no_trigger"))  # serve() without a shutdown trigger
                if mr <= 2 and jit <= 1:
                    # every request on its own connection, taken on through the other protocol paths: an h2c upgrade
                    # (the upgraded request becomes stream 1) and HTTP/2 over TLS
                    out.append((engine, "recycle", mr, jit, mr + jit + 2, "h2c"))
                    out.append((engine, "recycle", mr, jit, mr + jit + 2, "h2"))
    return out


def bounds(tier: str, params: Any) -> dict:
    fam = params[1]
    if fam in ("incomplete", "headerlist"):
        return {"M": 0, "S": 1, "R": 0}
    if tier == "quick":
        if fam == "recycle":
            return {"M": 0, "S": 2 if params[4] < 3 else 1, "R": 0}
        return {"M": 1, "S": 2, "R": 0}
    return {"M": 1, "S": 3, "R": 1 if params[0] == "trio" else 0}


def build(params: Any) -> tuple:
    engine, fam = params[0], params[1]
    base = {"level": "conn", "client_factory": lawless, "trio_rev": True}
    if fam == "incomplete":
        _, _, limit, size, term, seg = params
        blob = head(size, term)
        if seg == "whole":
            parts = [blob]
        elif seg == "bytes":
            parts = [blob[i:i + 1] for i in range(len(blob))]
        else:
            parts = [blob[:seg], blob[seg:]]
        sc = {**base, "conns": {0: {"carrier": "h1", "methods": [b"GET"]}}, "apps": {"http": OK},
              "config": {"h11_max_incomplete_size": limit, "keep_alive_timeout": 5},
              "sources": [("client", [("data", 0, p) for p in parts if p])], "midflight": False, "sigs": False}
        return engine, sc
    if fam == "keepalive":
        _, _, mx, n, mode, _ = params
        if mode == "h2":
            client = [("cmd", 0, "preface")]
            for i in range(n):
                client.append(("cmd", 0, "headers", 1 + 2 * i, h2_request_headers(b"GET", b"/r%d" % i), True))
                client.append(("wait_status", 0, 1 + 2 * i))
            conn = {"carrier": "h2", "tls": True, "alpn": "h2"}
        elif mode == "h2c":
            up = h1_request(b"GET", b"/r0", [(b"Connection", b"Upgrade, HTTP2-Settings"), (b"Upgrade", b"h2c"),
                                             (b"HTTP2-Settings", b"AAMAAABkAAQAoAAAAAIAAAAA")])
            client = [("data", 0, up), ("wait_status", 0)]
            for i in range(1, n):
                client.append(("cmd", 0, "headers", 1 + 2 * i, h2_request_headers(b"GET", b"/r%d" % i, scheme=b"http"), True))
                client.append(("wait_h2", 1 + 2 * i))
            conn = {"carrier": "h2c", "methods": [b"GET"]}
        elif mode == "pipe":
            client = [("data", 0, b"".join(h1_request(b"GET", b"/r%d" % i) for i in range(n)))]
            conn = {"carrier": "h1", "methods": [b"GET"] * n}
        elif mode == "seq_early":
            # the application answers on the head alone: the response head leaves between two segments of the request
            client = []
            for i in range(n):
                raw = h1_request(b"POST", b"/r%d" % i, body=b"abcd")
                client.append(("data", 0, raw[:-2]))
                client.append(("resp_heads", i + 1))
                client.append(("data", 0, raw[-2:]))
                client.append(("resp_done", i + 1))
            conn = {"carrier": "h1", "methods": [b"POST"] * n}
            apps = {"http": [OK[1], ("recv_body",), OK[2]]}
        else:
            client = []
            for i in range(n):
                client.append(("data", 0, h1_request(b"GET", b"/r%d" % i)))
                client.append(("resp_count", i + 1))
            conn = {"carrier": "h1", "methods": [b"GET"] * n}
            if mode == "seq_ka":  # the application insists on keep-alive in its own response headers
                apps = {"http": [OK[0], ("send", {**OK[1][1], "headers": OK[1][1]["headers"] + [(b"connection", b"keep-alive")]}), OK[2]]}
        # sequential mode: each request is sent only once the previous response is complete
        sc = {**base, "conns": {0: conn}, "apps": apps if mode in ("seq_early", "seq_ka") else {"http": OK},
              "config": {"keep_alive_max_requests": mx, "keep_alive_timeout": 5},
              "sources": [("client", client)], "midflight": False,
              "guards": {"resp_count": _resp_guard, "wait_h2": _wait_h2, "resp_heads": _resp_n_guard, "resp_done": _resp_n_guard}}
        return engine, sc
    if fam == "streams":
        _, _, mcs, k, _, _ = params
        client = [("cmd", 0, "preface")]
        for i in range(k):
            client.append(("cmd", 0, "headers", 1 + 2 * i, h2_request_headers(b"GET", b"/s%d" % i), True))
        sc = {**base, "conns": {0: {"carrier": "h2", "tls": True, "alpn": "h2"}}, "apps": {"http": GATED},
              "config": {"h2_max_concurrent_streams": mcs, "keep_alive_timeout": 5},
              "sources": [("client", client), ("app", [("release", "g")] * k)]}
        return engine, sc
    if fam == "headerlist":
        _, _, mhl, extra, _, _ = params
        hdrs = h2_request_headers(b"GET", b"/h") + ([(b"x-pad", b"v" * extra)] if extra else [])
        client = [("cmd", 0, "preface"), ("cmd", 0, "headers", 1, hdrs, True)]
        sc = {**base, "conns": {0: {"carrier": "h2", "tls": True, "alpn": "h2"}}, "apps": {"http": OK},
              "config": {"h2_max_header_list_size": mhl, "keep_alive_timeout": 5},
              "sources": [("client", client)], "midflight": False}
        return engine, sc
    if fam == "recycle":
        _, _, mr, jit, nconn, trig = params
        total = mr + jit + 2
        sources = []
        per = [[] for _ in range(nconn)]
        for i in range(total):
            per[i % nconn].append(i)
        for c, idxs in enumerate(per):
            if trig == "h2c":
                i = idxs[0]
                up = h1_request(b"GET", b"/q%d" % i, [(b"Connection", b"Upgrade, HTTP2-Settings"), (b"Upgrade", b"h2c"),
                                                      (b"HTTP2-Settings", b"AAMAAABkAAQAoAAAAAIAAAAA")])
                evs: list = [("connect", c, {"carrier": "h2c", "methods": [b"GET"]}), ("data", c, up), ("conn_gone_or_status", c)]
            elif trig == "h2":
                i = idxs[0]
                evs = [("connect", c, {"carrier": "h2", "tls": True, "alpn": "h2"}), ("cmd", c, "preface"),
                       ("cmd", c, "headers", 1, h2_request_headers(b"GET", b"/q%d" % i), True), ("conn_gone_or_status", c)]
            else:
                evs = [("connect", c, {"carrier": "h1", "methods": [b"GET"] * len(idxs)})]
                for j, i in enumerate(idxs):
                    evs.append(("data", c, h1_request(b"GET", b"/q%d" % i)))
                    evs.append(("conn_resp", c, j + 1))
            sources.append((f"c{c}", evs))
        if trig in ("h2c", "h2"):  # one connection after the other (the protocol path is the point, not the interleaving)
            sources = [("c", [e for _, evs in sources for e in evs])]
        sources.append(("clock", [("tick",)] * 3))
        sc = {"level": "serve", "client_factory": lawless, "trio_rev": True, "randint": True, "no_trigger": trig == "no_trigger",
              "apps": {"lifespan": [("lifespan_loop",)], "http": OK},
              "config": {"max_requests": mr, "max_requests_jitter": jit, "keep_alive_timeout": 50, "graceful_timeout": 3,
                         "shutdown_timeout": 2},
              "sources": sources, "midflight": False,
              "guards": {"conn_resp": _conn_resp_guard, "conn_gone_or_status": _gone_or_status}}
        return engine, sc
    raise ValueError(fam)


def _gone_or_status(w: Any, ev: tuple) -> bool:
    """('conn_gone_or_status', c): connection c has seen a response head (h1 / h2 stream 1), or is gone / was refused."""
    rec = w.conns.get(ev[1])
    if rec is None:
        return False
    if rec.refused or rec.closed_at is not None:
        return True
    cl = rec.client
    if cl.h2 is not None and cl.h2.streams.get(1) is not None and cl.h2.streams[1]["status"] is not None:
        return True
    return cl.h1 is not None and any(r["status"] != 101 for r in cl.h1.responses)


def _conn_resp_guard(w: Any, ev: tuple) -> bool:
    """('conn_resp', c, n): connection c has n complete responses, or is gone / was refused."""
    rec = w.conns.get(ev[1])
    if rec is None:
        return False
    if rec.refused or rec.closed_at is not None:
        return True
    return sum(1 for r in rec.client.h1.responses if r["complete"]) >= ev[2]


def _wait_h2(w: Any, ev: tuple) -> bool:
    """('wait_h2', sid): the (upgraded) HTTP/2 client has seen the response head of stream sid, or the connection is gone."""
    rec = w.conns.get(0)
    if rec is None:
        return False
    if rec.closed_at is not None:
        return True
    st = rec.client.h2.streams.get(ev[1]) if rec.client.h2 is not None else None
    return st is not None and st["status"] is not None


def _resp_n_guard(w: Any, ev: tuple) -> bool:
    """('resp_heads' | 'resp_done', n): the client has n response heads / n complete responses, or the connection closed."""
    rec = w.conns.get(0)
    if rec is None or rec.client.h1 is None or rec.closed_at is not None:
        return True
    rs = rec.client.h1.responses
    return (len(rs) if ev[0] == "resp_heads" else sum(1 for r in rs if r["complete"])) >= ev[1]


def _resp_guard(w: Any, ev: Any = None) -> bool:
    """Enabled when every request sent so far on connection 0 has a complete response (or the connection closed)."""
    rec = w.conns.get(0)
    if rec is None or rec.client.h1 is None:
        return True
    sent = sum(1 for _, e in w.driver.fired if e[0] == "data" and e[1] == 0)
    done = sum(1 for r in rec.client.h1.responses if r["complete"])
    return done >= sent or rec.closed_at is not None


def oracle(w: Any, params: Any) -> List[dict]:
    engine, fam = params[0], params[1]
    out: List[dict] = []
    reqs = [i for i in w.instances if i.type == "http"]
    if fam == "incomplete":
        _, _, limit, size, term, seg = params
        rec = w.conns[0]
        cl = rec.client.h1
        blob = head(size, term)
        # read boundaries: the prefix lengths after each read
        if seg == "whole":
            ends = [len(blob)]
        elif seg == "bytes":
            ends = list(range(1, len(blob) + 1))
        else:
            ends = [seg, len(blob)]
        head_len = len(blob) if term else None
        incomplete_beyond = any(e > limit and (head_len is None or e < head_len) for e in ends)
        tag = f"limit{limit}"
        if incomplete_beyond:
            if reqs:
                out.append(V("incomplete-head-served", tag, f"size {size} term {term} seg {seg}: an instance was started"))
            ok = bool(cl.responses) and 400 <= (cl.responses[0]["status"] or 0) < 500 and cl.responses[0]["complete"]
            if not ok or rec.closed_at is None:
                out.append(V("incomplete-head-not-rejected", tag,
                             f"size {size} term {term} seg {seg}: responses {[(r['status'], r['complete']) for r in cl.responses]} closed_at={rec.closed_at}"))
        elif term and head_len <= limit:
            if len(reqs) != 1 or not cl.responses or cl.responses[0]["status"] != 200:
                out.append(V("small-head-rejected", tag, f"size {size} seg {seg}: {len(reqs)} instances, responses {[(r['status']) for r in cl.responses]}"))
    elif fam == "keepalive":
        _, _, mx, n, mode, _ = params
        rec = w.conns[0]
        allowed = mx + 1 if mode in ("h2", "h2c") else mx
        tag = f"{mode}:max{mx}"
        if len(reqs) > allowed:
            out.append(V("too-many-requests", tag, f"{len(reqs)} instances with {n} requests sent"))
        sent = sum(1 for _, e in w.driver.fired if (e[0] == "cmd" and e[2] == "headers") or e[0] == "data")
        if mode != "pipe":
            expect = min(n, allowed)
            if len(reqs) < min(expect, sent if mode not in ("seq", "seq_early", "seq_ka") else n):
                out.append(V("under-limit-refused", tag, f"{len(reqs)} instances, {n} requests, allowed {allowed}"))
        else:
            if len(reqs) < min(n, allowed):
                out.append(V("under-limit-refused", tag, f"{len(reqs)} instances, {n} pipelined requests, allowed {allowed}"))
        # every request that was taken on is answered completely ("served"), including the last allowed one
        if mode in ("h2", "h2c"):
            for i, inst in enumerate(reqs):
                sid = 1 + 2 * int(inst.scope["path"][2:])
                st = rec.client.h2.streams.get(sid)
                if st is None or not st["ended"] or st["body"] != b"ok" or st["status"] != 200:
                    out.append(V("served-request-truncated", tag, f"request {i} (stream {sid}) reached the application but its response is {st}"))
        else:
            rs = rec.client.h1.responses
            for i, inst in enumerate(reqs):
                if i >= len(rs) or not rs[i]["complete"] or rs[i]["body"] != b"ok":
                    out.append(V("served-request-truncated", tag, f"request {i} reached the application but its response is incomplete"))
        if n >= allowed and len(reqs) >= allowed:
            if mode in ("h2", "h2c"):
                if rec.client.h2.goaway is None:
                    out.append(V("close-not-announced", tag, "no GOAWAY although the request limit was reached"))
            else:
                rs = rec.client.h1.responses
                last = rs[allowed - 1] if len(rs) >= allowed else None
                hdrs = [] if last is None else [(a.lower(), b.lower()) for a, b in last["headers"]]
                if last is None or (b"connection", b"close") not in hdrs:
                    out.append(V("close-not-announced", tag, f"response {allowed - 1} headers {None if last is None else last['headers']}"))
                if rec.closed_at is None:
                    out.append(V("close-not-announced", tag + ":not-closed", "connection still open after the last allowed response"))
    elif fam == "streams":
        _, _, mcs, k, _, _ = params
        rec = w.conns[0]
        tag = f"mcs{mcs}:k{k}"
        # instances alive at once: all applications are gated, so every instance created before the first release
        first_rel = next((i for i, (_, e) in enumerate(w.driver.fired) if e[0] == "release"), 10 ** 9)
        alive = [i for i in reqs if i.seq <= first_rel]
        if len(alive) > mcs:
            out.append(V("over-stream-limit-served", tag, f"{len(alive)} concurrent application instances"))
        if k <= mcs:
            rel = sum(1 for _, e in w.driver.fired if e[0] == "release")
            done = sum(1 for st in rec.client.h2.streams.values() if st["ended"] and st["body"] == b"ok")
            if len(reqs) < k and w.driver.pos[0] == len(w.driver.sources[0][1]):
                out.append(V("under-limit-refused", tag, f"{len(reqs)} instances for {k} streams within the limit"))
            if rel >= k and done < k and rec.closed_at is None:
                out.append(V("admitted-stream-broken", tag, f"{done} of {k} streams completed"))
    elif fam == "headerlist":
        _, _, mhl, extra, _, _ = params
        tag = f"mhl{mhl}"
        # RFC 9113 6.5.2: size = sum(len(name) + len(value) + 32)
        hdrs = h2_request_headers(b"GET", b"/h") + ([(b"x-pad", b"v" * extra)] if extra else [])
        size = sum(len(n) + len(v) + 32 for n, v in hdrs)
        if size > mhl and reqs:
            out.append(V("oversize-headers-served", tag, f"header list of {size} bytes reached the application"))
        if size <= mhl and not reqs:
            out.append(V("under-limit-refused", tag, f"header list of {size} bytes refused"))
    elif fam == "recycle":
        _, _, mr, jit, nconn, _ = params
        j = next((p.info for p in w.chooser.trace if p.kind == "data"), None)
        jv = next((p.choice for p in w.chooser.trace if p.kind == "data"), 0)  # randint(0, jit) == choice index
        threshold = mr + jv
        life = next((i for i in w.instances if i.type == "lifespan"), None)
        began = life is not None and any(m["type"] == "lifespan.shutdown" for m in life.delivered())
        tag = f"max{mr}:jit{jit}:r{jv}"
        taken = len(reqs)
        if began and taken <= threshold:
            out.append(V("recycle-early", tag, f"shutdown began with {taken} requests taken on, threshold {threshold}"))
        settled = w.driver.remaining() == 0 or w.serve_result is not None or \
            all(w.driver.pos[i] == len(evs) or evs[w.driver.pos[i]][0] == "tick" for i, (_, evs) in enumerate(w.driver.sources))
        if not began and taken > threshold and settled:
            out.append(V("recycle-late", tag, f"{taken} requests taken on, threshold {threshold}, worker still serving"))
    out.extend(internal_errors(w))
    return out


execute = std_execute(build, oracle)
