"""C04 - no client input causes an internal error; HTTP/2 faults stay on their stream.

Bounded exhaustive enumeration of client inputs, each executed against the real TCPServer / H11Protocol /
H2Protocol / stream classes on the virtual-time asyncio loop and on instrumented trio.  Ten families:

  short   every byte string of length <= 3 (quick) / 4 (thorough) over a 12 byte alphabet, as the first bytes of
          an HTTP/1 connection and directly after the HTTP/2 client preface, followed by EOF or by a valid
          request; on HTTP/2 also as the type / flags / stream-id bytes of an empty frame.
  mut     every single-point mutation (delete, duplicate, flip low bit, replace by 00 0a 0d 20 3a 80 ff,
          truncate here + EOF, unmutated but cut here) of every byte of nine valid sessions (HTTP/1.1 keep-alive
          pair, chunked POST, h2c upgrade + second request, WebSocket over h1, HTTP/2 with two streams, WebSocket
          over HTTP/2, the two WebSocket sessions once more with Sec-WebSocket-Protocol / -Extensions token
          lists in the handshake - over HTTP/2 in literal HPACK so that header bytes are mutated as such - and a
          ping frame after the close frame, and plain HTTP/2 requests POST + GET in literal HPACK so that the bytes
          of :method / :path / :scheme / :authority are mutated as such), fed in one read and split at the mutation
          point; connection ended by EOF (and, thorough, left to the idle timer).  Quick runs the full set on
          asyncio and a subset of the operators on trio.
          Configuration axis: the mutations of four of the sessions (keep-alive pair, h2c, WebSocket over h1, literal
          HTTP/2) again under server_names = [the host the sessions name] - the server then looks at the Host /
          :authority bytes - and under server_names + h11_pass_raw_headers (quick: the four-operator subset, both
          engines); the HTTP/1 reference then stops judging at a request whose Host names no configured server (404,
          connection not reused).
  h2cup   h2c upgrade requests: method {GET, OPTIONS *, HEAD, CONNECT, DELETE} x HTTP2-Settings payload (absent, empty,
          valid, truncated, not base64, non-ASCII, 40 settings) x what follows (nothing, preface, preface + GET,
          garbage) x one read / two, under the default configuration, under server_names naming the request's host and
          under server_names naming another host (every request is then to be answered 404, none served).
  splice  prefix of session A up to a structural boundary (line / chunk / frame) followed by the suffix of
          session B from a structural boundary; every A, B (the first six sessions) and pair of boundaries; whole
          and split at the joint.
  flood   one legal frame repeated 1100 times (PRIORITY: idle streams below the root / each below an idle parent of
          its own / each below the idle stream prioritised next, i.e. a chain / one open stream re-parented onto
          ever new idle streams; PING, SETTINGS, WINDOW_UPDATE on the connection / a closed stream, RST_STREAM on
          a closed stream, empty DATA, unknown type, GET), in one read, in reads of 64 frames, and 'mixed': every
          flood frame followed by a GET on a fresh stream (reads of 64 such rounds), so that each prefix of the flood
          is followed by an ordinary request and a server-side limit the flood fills exactly is met whatever its
          value; followed by an ordinary request.  All requests must be served unless the server says GOAWAY.
  wsafter Explorer A over what follows the end of a WebSocket: handshake (over HTTP/1.1 and over HTTP/2), a
          message, the WebSocket closed by {client close frame, application returns, application sends close,
          application raises} (the application ones released by the explorer), then {ping, text, second close
          frame, one zero byte} from the client - as a later data event injected at every point the server still
          has work to do (M), and, client close, inside one segment that is longer than a single read of the server
          (2^16 bytes) with the late bytes reaching into the second read.
          Also what follows a REFUSED handshake: the application answers websocket.connect with websocket.close (403),
          with a complete websocket.http.response, or with one whose body is still open, and stays alive (gated, released
          by the explorer, then returns); the client sends the same late inputs on that connection (HTTP/1.1) / as DATA
          on that stream (HTTP/2, followed by a GET on a sibling stream that must complete) - as a later data event and
          inside a segment longer than one read.
  late    Explorer A over uploads that go on after the response: the application answers POST on the headers
          alone, the client (a real h2 client connection, every DATA command enabled only while the windows granted
          by the server cover it) keeps sending DATA on the answered stream(s) until the whole initial connection
          window (65535 bytes, in frames of 16384) has gone into late DATA - on one stream, with END_STREAM, or
          spread over two streams - while a sibling POST with a 5 byte body (opened before or after) must still
          be able to upload and complete.
  odd     Explorer A (deviation-bounded interleavings, M mid-flight injections, S pre-emptions, trio R) of the
          HTTP-level oddities the property names (DATA / trailers after the response completed, CONNECT without
          :path, non-ASCII :path on a request and on an extended CONNECT; also RST_STREAM on an open / closed
          stream, WINDOW_UPDATE and an unknown frame on a closed stream, and a plain POST as control) next to a
          healthy sibling stream that is answered before (application gated, released by the explorer) or after.
  gram    Explorer B (breadth-first over operation histories with canonical-state de-duplication) over an HTTP/2
          frame grammar of ~35 client-legal-but-rare operations on two streams (HEADERS in 10-12 shapes incl.
          CONTINUATION / padding / priority / plain and extended CONNECT / non-ASCII path, DATA +-END_STREAM
          +-padding, trailers, RST_STREAM on open and closed streams, WINDOW_UPDATE on connection / open / closed
          stream, PRIORITY before HEADERS / on idle parents / self-dependency, SETTINGS window 0 / 1 / 2^20, PING,
          GOAWAY, unknown frame type, release of a gated application); quick: depth 3 on asyncio, 2 on trio;
          thorough: depth 4 with the full alphabet on both engines plus depth 5 with the core alphabet (28 operations:
          without padded DATA / padded and prioritised HEADERS / unknown frame on a stream / window size 1) on asyncio.
  rto     the read_timeout axis (config.read_timeout = R set, every other family runs with the default None): every
          prefix of the valid sessions of the corpus cut at a structural boundary, in the middle of an atom and after the
          first byte - no byte at all, a partial request head / frame header, a partial body, a complete request or
          WebSocket handshake followed by silence, the whole session - fed in one read and atom by atom, after which the
          client stays SILENT (no EOF) while the clock jumps from armed deadline to armed deadline; R = 2 (shorter
          than keep_alive_timeout = 5: the read deadline is what ends the connection, also with a request in
          progress; thorough also R = 7, where an idle connection is ended by the idle timer first).

Oracle clauses
  handler-exception / loop-exception-handler
        the per-connection server task ended with an exception / the loop's exception handler was called.
        key = <carrier>:<ExceptionType>@<innermost hypercorn file:function>[<protocol event being dispatched>]
  handler-stuck-with-exception   (asyncio)
        at final quiescence the server task is parked in TaskGroup.__aexit__ carrying an exception while a child
        that can never finish keeps it (and the socket) alive for ever; same key format.
  h1-malformed-no-hinted-response / h1-malformed-not-closed
        a fresh h11 server connection (reference, mc.x_c04_ref.h1_expect) calls the bytes malformed while plain
        HTTP/1 request syntax is still expected: the n-th response must carry exactly the hinted status and the
        server must close (before the client's EOF, unless the EOF itself is what makes the input malformed).
  h2-violation-not-closed
        a never-answering reference h2 server connection raises a connection error on the bytes: the server must
        end the connection (GOAWAY optional) before the client's EOF / the idle timer.
  other-stream-incomplete / stream-not-served   (odd, gram)
        the client stayed within RFC 7540 (reference raises nothing, no client GOAWAY): every stream carrying a
        complete ordinary request that the client did not reset gets 200 + full body + END_STREAM (only the
        status is demanded once the client shrank its window below the body size); a sibling that could not even
        be sent because the server closed the connection counts as incomplete.  Streams that are themselves the
        unusual request are never judged ("affects at most its own stream").  key = h2:<oddities sent so far>
        (other-stream-incomplete) or h2:<request kind>:<what is missing> (stream-not-served: no oddity involved).
        wsafter, refused handshake: key = h2:data-after-refused-websocket:<application>.
        late: key = h2:data-after-response:<upload-blocked | no-response | status-N | partial | reset-N>; upload-blocked
        = the sibling's DATA never became sendable for a client that respects flow control.
        flood: stream-not-served key = h2:after-flood | h2:during-flood.
  read-timeout-not-closed   (rto)
        read_timeout is set, the client has gone silent with the server waiting for its bytes, and at final quiescence
        (four clock jumps were on offer) the connection is still open: no deadline was armed, or firing it did not end
        the connection.  key = <carrier>:<R>.
  h2c-upgraded-request-unanswered / handler-never-terminates / unknown-server-name-served   (h2cup)
        the server wrote the 101: from then on the upgrade request is HTTP/2 stream 1 and the handler "terminates or keeps
        serving" - stream 1 gets a complete response or RST_STREAM, or the connection is ended (GOAWAY / close); after the
        client's EOF, with no application still running, the connection is closed; with server_names naming another host no
        application instance is started and stream 1 is not answered with a status below 400.
        key = h2c:<configuration>:<method>.
  Once an execution has reported an internal error the not-closed clauses are not evaluated for it (the connection
  is already dead or stuck; one root cause, one report).
"""
from __future__ import annotations

import asyncio
import gc
import os
import time
from typing import Any, Dict, List, Optional, Tuple

from mc import aio
from mc.clients import OP_PING, OP_TEXT, make_client, ws_close_frame, ws_frame, ws_h1_handshake, ws_h2_headers
from mc.core import HarnessError, digest
from mc.explore import ExecResult, V, _blank_result, bfs, explore_item
from mc.harness import default_observation, describe, exc_site, generic_violations, run_world, std_execute
from mc.x_c04_gen import (ANSWERED_AT_ONCE, APPS, CORPUS, H1_GET, H2_GET, SESSIONS, SPLICE_SESSIONS, ClientModel, boundaries,
                          case_events, grammar_enabled, grammar_events, grammar_roots, mutation_cases, session_bytes,
                          short_strings)
from mc.x_c04_ref import (H2FrameView, f_data, f_headers, f_ping, f_priority, f_rst, f_settings, f_winup, frame,
                          h1_expect, h2_expect, h2_preamble, make_raw_client)

ID = "C04"
LEVEL = "model_checking"
TECHNIQUE = ("bounded exhaustive input enumeration (short strings, distance-1 mutations - also under server_names / raw "
             "header names -, h2c upgrade requests under server_names matching / not matching, structural splices, frame "
             "floods in three feeds incl. interleaved with ordinary requests; with config.read_timeout set: every "
             "structural / mid-atom prefix of the valid sessions followed by client silence under clock jumps) plus "
             "stateless deviation-bounded "
             "exploration (HTTP-level oddities next to a sibling stream, bytes after the end of a WebSocket, uploads "
             "continuing after the response up to the connection window through a flow-control respecting h2 client) "
             "and explicit-state breadth-first search over an HTTP/2 frame grammar, all executing the real connection "
             "handler under a virtual-time loop / instrumented trio; oracles from independent h11 / h2 reference "
             "connections, a real h2 client connection and a frame-level reader of server output")
RULE = ("one evaluation = one execution of the real handler on one input (family x engine x carrier x input x "
        "segmentation x ending) or one BFS transition; non-trivial = at least one application instance started; "
        "distinct by digest of (per-instance message sequences, parsed client view, handler result, close flags)")
ASSUMPTIONS = [
    "environment model (fake transport/stream, virtual loop) is bound to real sockets by ./check selftest",
    "'all byte strings' is decided for all strings up to the stated length, the distance-1 ball around nine valid "
    "sessions, structural splices and all grammar words to the stated depth, not for arbitrary long input",
    "configuration axis: server_names / h11_pass_raw_headers add nothing to what is demanded except that a request naming "
    "no configured server is not served (documented: answered 404); the HTTP/1 reference does not judge what follows "
    "such a request on the same connection",
    "a data event is delivered only while the server's transport still reads (as a socket would): bytes 'after the "
    "close' reach the asyncio worker either while it is still busy or inside a segment longer than one read",
    "malformedness of HTTP/1 input and its status hint are taken from a fresh h11 server connection, HTTP/2 "
    "connection errors from a fresh h2 server connection that never answers (used only as: reference error => the "
    "server must end the connection)",
    "scripted applications answer every complete request with 200 and a 3 byte body",
    "rto: time passes only at quiescence (clock jumps to the next armed deadline); in these sessions the reader is "
    "never parked inside the protocol at quiescence, so with read_timeout set a silent client is expected to be "
    "disconnected by the read deadline or, where it comes first, the idle timer",
]
BOUNDS_DOC = {
    "quick": "short strings len<=3; mutations of 9 sessions: all on asyncio, 4 operators on trio; 4 of them again under "
             "server_names / server_names + raw headers (4 operators, both engines); 360 h2c upgrade requests x {default, "
             "server_names matching, not matching}; splices of 6 sessions "
             "whole+split (trio whole); 12 floods of 1100 frames whole / reads of 64 / (the 4 PRIORITY floods) mixed "
             "with 1100 GETs; odd and wsafter (2 carriers x 4 closers x 4 late inputs, + one-segment-two-reads on "
             "ws/h1; 3 refusing applications x 4 late inputs, + one-segment-two-reads for the text frame): M<=1,S<=2; late (window 65535 in 16384 byte frames; shapes one, two; sibling before/after): "
             "M<=1,S<=1; grammar BFS depth 3 on asyncio, 2 on trio; rto: read_timeout 2, every corpus session x every boundary / "
             "mid-atom prefix x {one read, atom by atom} x 4 clock jumps, both engines",
    "thorough": "short strings len<=4 (asyncio; 3 on trio); all mutations on both engines with EOF and idle-timer "
                "endings (configuration axis: all operators); h2c upgrade requests as quick; splices; all floods in all three feeds; odd and wsafter (two-reads segment on both "
                "carriers, refused handshakes with every late input in both feeds): M<=2,S<=3 (trio: M<=1,S<=3,R<=1); late (shapes one, one_end, two): M<=1,S<=2 (trio R<=1); "
                "grammar BFS depth 4 (full alphabet, both engines) and depth 5 (core alphabet, asyncio); rto: read_timeout "
                "2 and 7, every byte offset of every corpus session as the cut",
}
BUDGET = {"quick": 300, "thorough": 1200}

H1_CARRIERS = ("h1", "ws/h1", "h2c", "h2pk")
# configuration axis (documented options that make the server look at more of the client's bytes)
CFGS: Dict[str, dict] = {
    "sn": {"server_names": ["hypercorn"]},  # the host every corpus session names
    "raw+sn": {"server_names": ["hypercorn"], "h11_pass_raw_headers": True},
    "snx": {"server_names": ["example.org"]},  # a host no session names: every request is to be answered 404
}
MUT_CFGS = ("sn", "raw+sn")
CFG_SESSIONS = ("h1pair", "h2c", "wsh1", "h2lit")
H2CUP_CFGS = ("", "sn", "snx")
H2_TLS: Dict[str, Any] = {"carrier": "h2", "tls": True, "alpn": "h2"}

# ---------------------------------------------------------------------------------------------
# scenarios

SHORT_BATCH = 160
MUT_POSITIONS = 8
ODDITIES = {
    # name: operations of the odd stream (ClientModel ops, slot filled in at build time)
    "control": [("H", "post_body"), ("D", None, 1, 0)],
    "data_after_resp": [("H", "post_now"), ("D", None, 1, 0)],
    "trailers_after_resp": [("H", "post_now"), ("T", None)],
    "connect_plain": [("H", "connect_plain")],
    "nonascii": [("H", "nonascii")],
    "nonascii_ws": [("H", "nonascii_ws")],
    # legal-but-rare frames of the quantifier that concern one stream only
    "rst_open": [("H", "never"), ("R", None)],
    "rst_closed": [("H", "get"), ("R", None)],
    "winup_closed": [("H", "get"), ("W", "slot+1")],
    "unknown_closed": [("H", "get"), ("U", "slot+1")],
    # RST_STREAM of the first stream of the session, then a PRIORITY frame that names it as parent again
    "rst_prio": [("H", "get"), ("R", 0), ("P", "dep")],
}


FLOOD_N = 1100
FLOODS = ("priority_idle", "priority_idle_parent", "priority_idle_chain", "priority_reparent", "ping", "settings",
          "winup0", "unknown", "winup_closed", "rst_closed", "data_empty", "get")
FLOOD_IDS = {"priority_idle": 1, "priority_idle_parent": 2, "priority_idle_chain": 1, "priority_reparent": 1, "get": 1}
FLOOD_HEAD = ("priority_reparent", "winup_closed", "rst_closed", "data_empty")  # stream 1 is opened before the flood

# ws-after: what closes the WebSocket x what the client sends afterwards x how it reaches the server
WSAFTER_CLOSERS = {"client_close": b"/w", "app_return": b"/ret", "app_close": b"/close", "app_raise": b"/raise"}
# ... and what REFUSES it: the application answers the handshake with websocket.close (403) / with the
# websocket.http.response extension (complete, or its body still open) and then stays alive on a gate, as frameworks
# do that wait for websocket.disconnect; the explorer releases it (the application then returns)
WSAFTER_REJECTERS = {"app_reject": b"/rej", "app_response": b"/resp", "app_response_open": b"/respopen"}
_WS_START = {"type": "websocket.http.response.start", "status": 403, "headers": [(b"content-length", b"2")]}
_WS_START_OPEN = {"type": "websocket.http.response.start", "status": 403, "headers": []}
WSAFTER_APPS = {
    **APPS,
    "websocket:/rej": [("recv",), ("send", {"type": "websocket.close"}), ("gate", "g"), ("return",)],
    "websocket:/resp": [("recv",), ("send", _WS_START),
                        ("send", {"type": "websocket.http.response.body", "body": b"no"}), ("gate", "g"), ("return",)],
    "websocket:/respopen": [("recv",), ("send", _WS_START_OPEN),
                            ("send", {"type": "websocket.http.response.body", "body": b"n", "more_body": True}),
                            ("gate", "g"), ("return",)],
}
WSAFTER_LATE = {"ping": ws_frame(OP_PING, b"late"), "text": ws_frame(OP_TEXT, b"more"),
                "close": ws_close_frame(1000, "again"), "byte": b"\x00"}
MAX_RECV = 2 ** 16  # what one read of either worker returns at most (documented constant of both TCP servers)

# late: DATA for streams whose response has completed, amounting to the whole connection window
H2_WINDOW = 65535  # initial flow-control window of the connection and of every stream (RFC 7540 6.9.2)
H2_FRAME = 16384  # default SETTINGS_MAX_FRAME_SIZE
LATE_SHAPES = {
    # name: ((late stream index, bytes of late DATA), ...), END_STREAM on the last late frame of each stream
    "one": (((0, H2_WINDOW),), False),
    "one_end": (((0, H2_WINDOW),), True),
    "two": (((0, 2 * H2_FRAME), (1, H2_WINDOW - 2 * H2_FRAME)), False),
}
EXPLORER_A = ("odd", "wsafter", "late")


def scenarios(tier: str) -> List[Any]:
    out: List[Any] = []
    thorough = tier == "thorough"
    for engine in ("asyncio", "trio"):
        maxlen = (4 if engine == "asyncio" else 3) if thorough else 3
        n = len(short_strings(maxlen))
        carriers = ("h1", "h2", "h2pk") if thorough else ("h1", "h2")
        for carrier in carriers:
            for variant in ("eof", "req") + (("hdr",) if carrier != "h1" else ()):
                for lo in range(0, n, SHORT_BATCH * (4 if maxlen == 4 else 1)):
                    out.append(("short", engine, carrier, variant, maxlen, lo,
                                min(n, lo + SHORT_BATCH * (4 if maxlen == 4 else 1))))
        for name in SESSIONS:
            size = len(session_bytes(name))
            for lo in range(0, size, MUT_POSITIONS):
                out.append(("mut", engine, name, lo, min(size, lo + MUT_POSITIONS), tier))
        # configuration axis: the mutations of four sessions again with server_names configured (the Host / :authority
        # bytes are then looked at by the server) and with raw header names on top
        for cfg in MUT_CFGS:
            for name in CFG_SESSIONS:
                size = len(session_bytes(name))
                for lo in range(0, size, 2 * MUT_POSITIONS):
                    out.append(("mut", engine, name, lo, min(size, lo + 2 * MUT_POSITIONS), tier, cfg))
        for a in SPLICE_SESSIONS:
            for b in SPLICE_SESSIONS:
                out.append(("splice", engine, a, b, tier))
        for cfg in H2CUP_CFGS:
            out.append(("h2cup", engine) + ((cfg,) if cfg else ()))
        for name in SESSIONS:
            for rt in RTO_TIMEOUTS[tier]:
                out.append(("rto", engine, name, rt, tier))
        for op in FLOODS:
            out.append(("flood", engine, op, FLOOD_N, tier))
        for odd in ODDITIES:
            for arr in ("sib_first", "sib_after"):
                out.append(("odd", engine, odd, arr))
        for carrier in ("ws/h1", "ws/h2"):
            for closer in WSAFTER_CLOSERS:
                for late in WSAFTER_LATE:
                    out.append(("wsafter", engine, carrier, closer, late, "events"))
                    if closer == "client_close" and (thorough or carrier == "ws/h1"):
                        out.append(("wsafter", engine, carrier, closer, late, "bigread"))
            for closer in WSAFTER_REJECTERS:
                for late in WSAFTER_LATE:
                    out.append(("wsafter", engine, carrier, closer, late, "events"))
                    if thorough or late == "text":
                        out.append(("wsafter", engine, carrier, closer, late, "bigread"))
        for shape in LATE_SHAPES:
            if thorough or shape != "one_end":
                for arr in ("sib_open", "sib_after"):
                    out.append(("late", engine, shape, arr))
        for depth, alphabet in GRAMMAR[(tier, engine)]:
            for root in grammar_roots(alphabet, 2 if depth >= 4 else 1):
                out.append(("gram", engine, depth, tuple(root), alphabet))
    return out


RTO_TIMEOUTS = {"quick": (2,), "thorough": (2, 7)}  # keep_alive_timeout is 5 in every C04 scenario

# (depth, alphabet) of the breadth-first searches; alphabets are defined in mc.x_c04_gen.grammar_kinds/enabled
GRAMMAR = {
    ("quick", "asyncio"): [(3, "quick")],
    ("quick", "trio"): [(2, "quick")],
    ("thorough", "asyncio"): [(4, "full"), (5, "core")],
    ("thorough", "trio"): [(4, "full")],
}


def bounds(tier: str, params: Any) -> dict:
    if params[0] == "late":  # long histories of large frames: one pre-emption less than the other families
        return {"M": 1, "S": 1, "R": 0} if tier == "quick" else {"M": 1, "S": 2, "R": 1 if params[1] == "trio" else 0}
    if tier == "quick":
        return {"M": 1, "S": 2, "R": 0}
    if params[1] == "trio":
        return {"M": 1, "S": 3, "R": 1}
    return {"M": 2, "S": 3, "R": 0}


# ---------------------------------------------------------------------------------------------
# building and judging one execution on raw client bytes


def _scenario(conn: dict, sources: List[tuple], midflight: bool = False, trio_rev: bool = False,
              apps: Optional[dict] = None) -> dict:
    return {"level": "conn", "conns": {0: conn}, "client_factory": make_raw_client, "apps": apps or APPS,
            "config": {"keep_alive_timeout": 5, **conn.get("cfg", {})}, "sources": sources, "midflight": midflight,
            "trio_rev": trio_rev}


def _fired_bytes(w: Any) -> Tuple[List[bytes], bool, bool]:
    """(data segments that reached the server, client EOF fired, any ending event fired)."""
    segs = [e[2] for _, e in w.driver.fired if e[0] == "data"]
    eof = any(e[0] == "eof" for _, e in w.driver.fired)
    ending = any(e[0] in ("eof", "tick") for _, e in w.driver.fired)
    return segs, eof, ending


def _tag(conn: dict) -> str:
    return conn["carrier"]


def _leaves(e: BaseException) -> List[BaseException]:
    if isinstance(e, BaseExceptionGroup):
        return [x for sub in e.exceptions for x in _leaves(sub)]
    return [e]


def _site(e: Optional[BaseException]) -> str:
    """<ExcType>@<innermost hypercorn function> of the primary exception(s); errors that only say 'the task group
    is already shutting down' are consequences of another member of the same group and are left out."""
    if e is None:
        return "unknown"
    leaves = _leaves(e)
    primary = [x for x in leaves if not (isinstance(x, RuntimeError) and "is shutting down" in str(x))]
    return "+".join(sorted({_exc_site(x) for x in (primary or leaves)}))


def _exc_site(e: BaseException) -> str:
    """harness.exc_site plus, when the innermost hypercorn frame was dispatching on a protocol event, the type of
    that event (tells DATA-for-a-forgotten-stream from END_STREAM-for-a-forgotten-stream in the same function)."""
    site = exc_site(e)
    tb = e.__traceback__
    frame = None
    while tb is not None:
        if "/hypercorn/" in tb.tb_frame.f_code.co_filename:
            frame = tb.tb_frame
        tb = tb.tb_next
    if frame is not None and "event" in frame.f_locals:
        site += f"[{type(frame.f_locals['event']).__name__}]"
    return site


def _internal(w: Any, tag: str) -> List[dict]:
    out: List[dict] = []
    for k, rec in sorted(w.conns.items()):
        if rec.handler is not None and rec.handler.startswith("exc:"):
            out.append(V("handler-exception", f"{tag}:{_site(getattr(rec, 'handler_exc', None))}",
                         f"conn {k}: {rec.handler}"))
        pend = getattr(w, "pending_exc", {}).get(k)
        if pend is not None:
            out.append(V("handler-stuck-with-exception", f"{tag}:{_site(pend)}",
                         f"conn {k}: handler never finishes: task group exit waits for children that cannot end; "
                         f"pending {pend!r}; live tasks {getattr(w, 'live_tasks', None)}"))
    for ctx in w.exc_contexts:
        exc = ctx.get("exception")
        msg = ctx.get("message", "")
        key = _site(exc) if exc is not None else "noexc:" + msg[:40]
        out.append(V("loop-exception-handler", f"{tag}:{key}", f"{msg}: {exc!r}"))
    return out


def _pending_exception(task: Any) -> Optional[BaseException]:
    """asyncio: the exception a not-yet-finished handler task is carrying while its TaskGroup.__aexit__ waits for
    the children (the body of `async with TaskGroup` raised, or a child failed)."""
    coro = task.get_coro()
    for _ in range(64):
        if coro is None:
            return None
        frame = getattr(coro, "cr_frame", None) or getattr(coro, "gi_frame", None)
        if frame is None:
            return None
        code = frame.f_code
        if code.co_name == "__aexit__" and code.co_filename.endswith("taskgroups.py"):
            exc = frame.f_locals.get("exc")
            errors = list(getattr(frame.f_locals.get("self"), "_errors", []) or [])
            if exc is not None and not isinstance(exc, asyncio.CancelledError):
                errors.append(exc)
            if errors:
                return errors[0] if len(errors) == 1 else BaseExceptionGroup("pending", errors)
            return None
        coro = getattr(coro, "cr_await", None) or getattr(coro, "gi_yieldfrom", None)
    return None


def _install_finish_hook() -> None:
    """Engine work-around: AioWorld.finish() records handler results only for finished tasks; an exception that is
    parked inside TaskGroup.__aexit__ for ever would be invisible.  Record it before the teardown."""
    if getattr(aio.AioWorld, "_c04_hook", False):
        return
    orig = aio.AioWorld.finish

    def finish(self: Any) -> None:
        self.pending_exc = {}
        for k, task in self.handler_tasks.items():
            if not task.done():
                exc = _pending_exception(task)
                if exc is not None:
                    self.pending_exc[k] = exc
        orig(self)

    aio.AioWorld.finish = finish  # type: ignore[method-assign]
    aio.AioWorld._c04_hook = True  # type: ignore[attr-defined]


_install_finish_hook()


def judge_bytes(w: Any, conn: dict) -> List[dict]:
    """Clauses that apply to any raw byte input on one connection."""
    tag = _tag(conn)
    out = generic_violations(w) + _internal(w, tag)
    rec = w.conns[0]
    segs, eof, ending = _fired_bytes(w)
    if conn.get("rto") is not None and rec.closed_at is None and not any(v["clause"].startswith("handler-") for v in out):
        # the client is silent, the server waits for its bytes, four jumps to the next armed deadline were on offer
        ticks = [t for t, e in w.driver.fired if e[0] == "tick"]
        out.append(V("read-timeout-not-closed", f"{tag}:{conn['rto']}",
                     f"{sum(len(x) for x in segs)} bytes sent, then silence; clock jumps fired at {ticks}; now "
                     f"{w.final_time}; handler={rec.handler} live tasks {getattr(w, 'live_tasks', None)}"))
    if conn.get("alpn") == "h2" or conn["carrier"] == "h2pk":  # h2pk: cleartext prior knowledge, same framing
        # mixed flood: the reference never answers, so the interleaved (complete, at once answered) requests would
        # pile up against its concurrency limit; it judges the flood frames alone
        ref = conn.get("flood_ref")
        err = h2_expect(segs if ref is None else ref[:len(segs)])
        broken = any(v["clause"].startswith("handler-") for v in out)  # already dead/stuck: reported above
        if err is not None and not broken and (ending or rec.closed_at is None):
            out.append(V("h2-violation-not-closed", f"{tag}:{err}",
                         f"reference: {err}; closed_at={rec.closed_at} goaway={rec.client.h2.goaway}"))
        last = conn.get("flood_last")
        # the requests after (and, mixed feed, in between) a legal flood must be served, unless the server chose to
        # end the connection (GOAWAY / close is an accepted way of refusing a flood)
        if last is not None and err is None and not broken and ending and rec.client.h2.goaway is None:
            for sid in tuple(conn.get("flood_gets", ())) + (last,):
                st = rec.client.h2.streams.get(sid)
                if st is None or st["status"] != 200 or st["body"] != b"abc" or not st["ended"]:
                    where = "after-flood" if sid == last else "during-flood"
                    out.append(V("stream-not-served", f"{tag}:{where}", f"stream {sid}: {st}; closed_at={rec.closed_at} "
                                 f"goaway={rec.client.h2.goaway} handler={rec.handler}"))
                    break
        return out
    if conn["carrier"] not in H1_CARRIERS:
        return out
    names = conn.get("cfg", {}).get("server_names")
    verdict = h1_expect(segs, False, server_names=names)["verdict"]
    by_eof = False
    if verdict[0] == "ok" and eof:
        verdict = h1_expect(segs, True, server_names=names)["verdict"]
        by_eof = True
    if verdict[0] == "malformed":
        _, n, hint = verdict
        h1 = rec.client.h1
        rs = [r for r in h1.responses if r["status"] != 101]
        got: Any = "none"
        if h1.error is not None and len(rs) <= n:
            got = "unparseable"
        elif len(rs) > n:
            got = rs[n]["status"] if rs[n]["complete"] else f"{rs[n]['status']}-incomplete"
        if got != hint:
            out.append(V("h1-malformed-no-hinted-response", f"{tag}:want{hint}:got-{got}",
                         f"request #{n} malformed (by_eof={by_eof}); responses={[(r['status'], r['complete']) for r in rs]} "
                         f"client error={h1.error} out={bytes(rec.out)[:120]!r}"))
        if rec.closed_at is None or (ending and not by_eof):
            out.append(V("h1-malformed-not-closed", f"{tag}:want{hint}",
                         f"request #{n} malformed; closed_at={rec.closed_at} ending fired={ending}"))
    return out


def _methods_for(conn: dict, events: List[tuple]) -> dict:
    """The response parser must know the request methods: take them from the reference parse of the input."""
    if conn["carrier"] in H1_CARRIERS:
        segs = [e[2] for e in events if e[0] == "data"]
        conn = dict(conn)
        conn["methods"] = h1_expect(segs, False)["methods"]
    return conn


def _result(w: Any, viol: List[dict], sample: dict) -> ExecResult:
    obs = default_observation(w)
    if os.environ.get("MC_VERBOSE"):
        describe(w)
    sample = dict(sample)
    sample.update({"engine": w.engine, "handler": w.conns[0].handler, "closed_at": w.conns[0].closed_at,
                   "instances": [(i.scope["type"], i.scope.get("path"), i.outcome) for i in w.instances][:4],
                   "out": repr(bytes(w.conns[0].out)[:160])})
    return ExecResult([], viol, digest(obs), bool(w.instances), w.sigs, sample)


def run_bytes(engine: str, conn: dict, events: List[tuple], label: Any, extra: Any = None) -> ExecResult:
    conn = _methods_for(conn, events)
    carrier = conn["carrier"]
    if carrier == "h2pk":  # prior knowledge over cleartext: the client parser is the HTTP/2 one from the start
        conn = {**conn, "carrier": "h2"}
    w = run_world(engine, _scenario(conn, [("client", events)]), [])
    conn = {**conn, "carrier": carrier}
    viol = judge_bytes(w, conn)
    if extra is not None:
        viol += extra(w, viol)
    return _result(w, viol, {"case": repr(label)[:300]})


# ---- the three enumerations of raw inputs


def short_case(params: tuple, s: bytes) -> Tuple[dict, List[tuple]]:
    _, engine, carrier, variant, maxlen, lo, hi = params
    if carrier == "h1":
        conn: dict = {"carrier": "h1"}
        data = [s + (H1_GET if variant == "req" else b"")]
    else:
        conn = dict(H2_TLS) if carrier == "h2" else {"carrier": "h2pk"}
        if variant == "hdr":  # an empty frame whose type, flags and high stream-id bytes are the short string
            tail = b"\x00\x00\x00" + s + b"\x00" * (6 - len(s))
        else:
            tail = s + (H2_GET if variant == "req" else b"")
        data = [h2_preamble(), tail]
    return conn, [("data", 0, d) for d in data if d] + [("eof", 0)]


def mut_case(params: tuple, case: tuple) -> Tuple[dict, List[tuple]]:
    name = params[2]
    pos, op, feed, ending = case
    conn = dict(CORPUS[name][0])
    if len(params) > 6:
        conn["cfg"] = CFGS[params[6]]
    return conn, case_events(session_bytes(name), pos, tuple(op), feed, ending)


def splice_cases(params: tuple) -> List[tuple]:
    _, engine, a, b, tier = params
    feeds = ("whole", "split") if (engine == "asyncio" or tier == "thorough") else ("whole",)
    return [(i, j, f) for i in boundaries(a) for j in boundaries(b) for f in feeds
            if not (f == "split" and (i == 0 or j == len(session_bytes(b))))]


def splice_case(params: tuple, case: tuple) -> Tuple[dict, List[tuple]]:
    _, engine, a, b, tier = params
    i, j, feed = case
    head, tail = session_bytes(a)[:i], session_bytes(b)[j:]
    segs = [head, tail] if feed == "split" else [head + tail]
    return dict(CORPUS[a][0]), [("data", 0, s) for s in segs if s] + [("eof", 0)]


def flood_case(params: tuple, case: tuple) -> Tuple[dict, List[tuple]]:
    """One legal frame repeated n times, then an ordinary GET.  Feeds: 'whole' one read, 'reads' reads of 64 frames,
    'mixed' reads of 64 rounds of (flood frame, GET on a fresh stream): every prefix of the flood is followed by an
    ordinary request, so a limit that the flood fills up exactly is met whatever its value."""
    _, engine, op, n = params[:4]
    feed = case[0]
    mixed = feed == "mixed"
    get = lambda sid: f_headers(sid, _GET_NOW, True)  # noqa: E731
    per = FLOOD_IDS.get(op, 0)  # fresh stream ids one flood frame uses
    stride = 2 * (per + (1 if mixed else 0))
    base = 3 if op in FLOOD_HEAD else 1
    head = b""
    if op in ("winup_closed", "rst_closed"):
        head = get(1)
    elif op in ("data_empty", "priority_reparent"):  # stream 1 stays open: the application never answers
        head = f_headers(1, [(b":method", b"POST"), (b":path", b"/never"), (b":scheme", b"https"),
                             (b":authority", b"hypercorn")], False)
    frames: List[bytes] = []
    gets: List[int] = []
    for i in range(n):
        a = base + stride * i
        if op == "priority_idle":  # idle streams below the root
            fr = f_priority(a, 0, 10)
        elif op == "priority_idle_parent":  # idle streams, each below an idle stream of its own
            fr = f_priority(a, a + 2, 10)
        elif op == "priority_idle_chain":  # idle streams, each below the idle stream that is prioritised next
            fr = f_priority(a, a + stride, 10)
        elif op == "priority_reparent":  # one open stream moved below ever new idle streams
            fr = f_priority(1, a, 10 + i % 2, bool(i % 2))
        elif op == "ping":
            fr = f_ping()
        elif op == "settings":
            fr = f_settings({4: 65535 + (i % 2)})
        elif op == "winup0":
            fr = f_winup(0, 1)
        elif op == "unknown":
            fr = frame(0x7F, 0, 0, b"zz")
        elif op == "winup_closed":
            fr = f_winup(1, 1)
        elif op == "rst_closed":
            fr = f_rst(1, 8)
        elif op == "data_empty":
            fr = f_data(1, b"", False)
        elif op == "get":
            fr = get(a)
        else:
            raise ValueError(op)
        frames.append(fr)
        if mixed:
            gets.append(a + 2 * per)
    last = base + stride * n + 2  # above every id used, also as a parent
    conn: dict = {**H2_TLS, "flood_last": last}
    if feed == "whole":
        segs = [head + b"".join(frames)]
        ref = None
    else:
        rounds = [fr + (get(g) if mixed else b"") for fr, g in zip(frames, gets or frames)]
        segs = ([head] if head else []) + [b"".join(rounds[i:i + 64]) for i in range(0, n, 64)]
        ref = ([head] if head else []) + [b"".join(frames[i:i + 64]) for i in range(0, n, 64)]
    if mixed:
        # the flood is what is looked at: the number of requests per connection must not end it first
        conn.update({"flood_gets": tuple(gets), "flood_ref": [h2_preamble()] + ref + [get(last)],
                     "cfg": {"keep_alive_max_requests": 10 ** 6}})
    events = [("data", 0, h2_preamble())] + [("data", 0, x) for x in segs if x] + [("data", 0, get(last)), ("eof", 0)]
    return conn, events


_GET_NOW = [(b":method", b"GET"), (b":path", b"/now"), (b":scheme", b"https"), (b":authority", b"hypercorn")]


# h2c upgrade requests: method x HTTP2-Settings payload x what follows the request x segmentation
H2CUP_METHODS = (b"GET /u", b"OPTIONS *", b"HEAD /u", b"CONNECT example.com:443", b"DELETE /u?x")
H2CUP_SETTINGS = (None, b"", b"AAMAAABkAAQAoAAAAAIAAAAA", b"AAAA", b"AAIAAAAC", b"!!!notbase64", b"AAM\xe9", b"A", b"AAQAAAAB" * 40)
H2CUP_TAILS = ("none", "preface", "preface+get", "garbage")


def h2cup_cases() -> List[tuple]:
    return [(m, st, t, seg) for m in H2CUP_METHODS for st in H2CUP_SETTINGS for t in H2CUP_TAILS for seg in ("whole", "split")]


def judge_h2cup(params: tuple, case: tuple) -> Any:
    """After the 101 the upgrade request is HTTP/2 stream 1: the handler 'terminates or keeps serving', i.e. that stream is
    answered (or reset, or the connection ended with GOAWAY / close), and once the client has half-closed the handler
    ends.  With server_names configured a request naming another host is answered 404 (documented), never served."""
    m, st, tail, seg = case
    cfg = params[2] if len(params) > 2 else ""

    def judge(w: Any, sofar: List[dict]) -> List[dict]:
        out: List[dict] = []
        if any(v["clause"].startswith(("handler-", "loop-")) for v in sofar):
            return out  # (one root cause, one report)
        rec = w.conns[0]
        h1 = rec.client.h1
        if [r["status"] for r in h1.responses][:1] != [101]:
            return out  # the offer was not taken: an HTTP/1.1 exchange, judged by the common clauses
        view = H2FrameView()
        view.feed(bytes(h1.after_switch), 0.0)
        s1 = view.streams.get(1)
        tag = f"h2c:{cfg or 'default'}:{m.split()[0].decode()}"
        eof = any(e[0] == "eof" for _, e in w.driver.fired)
        over = rec.closed_at is not None or view.goaway is not None
        answered = s1 is not None and ((s1["status"] is not None and s1["ended"]) or s1["reset"] is not None)
        if not answered and not over:
            out.append(V("h2c-upgraded-request-unanswered", tag,
                         f"101 sent, stream 1 {s1}, no GOAWAY, closed_at={rec.closed_at} handler={rec.handler} "
                         f"after {bytes(h1.after_switch)[:60]!r}"))
        elif eof and rec.closed_at is None and not any(i.outcome == "running" for i in w.instances):
            out.append(V("handler-never-terminates", tag, f"client EOF fired, closed_at=None handler={rec.handler}"))
        # (a request that is refused for another reason - 400 for a CONNECT without :protocol - is not served either)
        if cfg == "snx" and (w.instances or (s1 is not None and s1["status"] is not None and s1["status"] < 400)):
            out.append(V("unknown-server-name-served", tag, f"instances={[(i.type, i.scope.get('path')) for i in w.instances]} "
                                                            f"stream 1 status {s1 and s1['status']}"))
        return out

    return judge


def h2cup_case(params: tuple, case: tuple) -> Tuple[dict, List[tuple]]:
    m, st, tail, seg = case
    head = m + b" HTTP/1.1\r\nHost: hypercorn\r\nConnection: Upgrade, HTTP2-Settings\r\nUpgrade: h2c\r\n"
    if st is not None:
        head += b"HTTP2-Settings: " + st + b"\r\n"
    head += b"\r\n"
    follow = {"none": b"", "preface": h2_preamble(), "preface+get": h2_preamble() + H2_GET, "garbage": b"\x00\x01garbage\xff" * 3}[tail]
    data = [head + follow] if seg == "whole" else [head, follow]
    conn: dict = {"carrier": "h1", "upgrade": "h2c"}
    if len(params) > 2:
        conn["cfg"] = CFGS[params[2]]
    return conn, [("data", 0, d) for d in data if d] + [("eof", 0)]


def rto_cases(params: tuple) -> List[tuple]:
    """(cut, feed): the client sends the first `cut` bytes of the session - in one read / atom by atom - and then
    nothing.  Cuts: no byte, the first byte, every structural boundary, the middle of every atom, the whole session
    (thorough: every offset)."""
    _, engine, name, rt, tier = params
    bs = boundaries(name)
    if tier == "thorough":
        cuts = list(range(bs[-1] + 1))
    else:
        cuts = sorted(set(bs) | {(a + b) // 2 for a, b in zip(bs, bs[1:])} | {1})
    return [(c, f) for c in cuts for f in ("whole", "atoms") if not (f == "atoms" and c <= bs[1])]


def rto_case(params: tuple, case: tuple) -> Tuple[dict, List[tuple]]:
    _, engine, name, rt, tier = params
    cut, feed = case
    raw = session_bytes(name)[:cut]
    if feed == "whole":
        segs = [raw]
    else:
        bs = boundaries(name)
        segs = [raw[a:b] for a, b in zip(bs, bs[1:]) if a < len(raw)]
    conn = {**CORPUS[name][0], "cfg": {"read_timeout": rt}, "rto": rt}
    return conn, [("data", 0, sg) for sg in segs if sg] + [("tick",)] * 4


def _cases(params: tuple) -> Any:
    kind = params[0]
    if kind == "h2cup":
        return h2cup_cases()
    if kind == "rto":
        return rto_cases(params)
    if kind == "flood":
        # mixed: quick only for the floods that make the server remember new streams
        mixed = params[2] in FLOOD_IDS if params[4] == "quick" else True
        return [("whole",), ("reads",)] + ([("mixed",)] if mixed and params[2] != "get" else [])
    if kind == "short":
        return short_strings(params[4])[params[5]:params[6]]
    if kind == "mut":
        # (configuration axis, quick tier: the four-operator subset on both engines)
        return mutation_cases(params[2], params[3], params[4], params[5], params[1] if len(params) <= 6 else "trio")
    if kind == "splice":
        return splice_cases(params)
    raise ValueError(kind)


def _exec_case(params: tuple, case: Any) -> ExecResult:
    kind = params[0]
    conn, events = {"short": short_case, "mut": mut_case, "splice": splice_case, "flood": flood_case,
                    "h2cup": h2cup_case, "rto": rto_case}[kind](params, case)
    extra = judge_h2cup(params, case) if kind == "h2cup" else None
    return run_bytes(params[1], conn, events, (params[:3], case), extra)


# ---------------------------------------------------------------------------------------------
# stream level demands shared by the odd and gram families


def _stream_demands(w: Any, model: ClientModel, fired_ops: List[tuple], released: int, label: str) -> List[dict]:
    """Healthy streams must be answered; `model` reflects exactly the operations that were fired."""
    rec = w.conns[0]
    view = rec.client.h2
    out: List[dict] = []
    cause = "+".join(sorted(model.tags)) or "none"
    for s in model.slots:
        kind = s["kind"]
        if s["reset"] or s["odd"]:
            continue  # reset by the client / itself the unusual request: "affects at most its own stream"
        want_full = False
        if kind in ANSWERED_AT_ONCE:
            want_full = True
        elif kind == "post_body":
            want_full = s["ended"]
        elif kind == "gated":
            want_full = s["released"] and released > 0
        elif kind == "connect_ext":
            st = view.streams.get(s["sid"], {})
            if st.get("status") != 200:
                out.append(V("other-stream-incomplete" if model.tags else "stream-not-served",
                             f"h2:{cause}" if model.tags else f"h2:{kind}:status-{st.get('status')}",
                             f"{label}: websocket stream {s['sid']} not accepted: {st}"))
            continue
        if not want_full:
            continue
        st = view.streams.get(s["sid"])
        if st is None or st["status"] != 200:
            what = "no-response" if st is None or st["status"] is None else f"status-{st['status']}"
        elif model.small_window:
            continue
        elif st["body"] != b"abc" or not st["ended"]:
            what = "partial" if st["reset"] is None else f"reset-{st['reset']}"
        else:
            continue
        clause = "other-stream-incomplete" if model.tags else "stream-not-served"
        out.append(V(clause, f"h2:{cause}" if model.tags else f"h2:{kind}:{what}",
                     f"{label}: stream {s['sid']} ({kind}) got {st}; closed_at={rec.closed_at} goaway={view.goaway} "
                     f"handler={rec.handler}"))
    return out


# ---------------------------------------------------------------------------------------------
# odd: Explorer A


def _odd_plan(odd: str, arr: str) -> Tuple[List[tuple], int]:
    """(operations, index of the sibling's HEADERS operation)."""
    ops: List[tuple] = []
    own = ODDITIES[odd]
    if arr == "sib_first":
        ops.append(("H", "gated"))
        slot = 1
    else:
        slot = 0
    for op in own:
        ops.append(tuple(slot if x is None else slot + 1 if x == "slot+1" else x for x in op))
    if arr == "sib_after":
        ops.append(("H", "get"))
        return ops, len(ops) - 1
    return ops, 0


def build_odd(params: tuple) -> tuple:
    _, engine, odd, arr = params
    ops, _ = _odd_plan(odd, arr)
    events, _, _ = grammar_events(ops)
    sources = [("client", events), ("app", [("release", "g")])]
    return engine, _scenario(dict(H2_TLS), sources, midflight=True, trio_rev=True)


def oracle_odd(w: Any, params: tuple) -> List[dict]:
    _, engine, odd, arr = params
    ops, sib = _odd_plan(odd, arr)
    out = _internal(w, "h2")
    fired = [e for _, e in w.driver.fired]
    ndata = sum(1 for e in fired if e[0] == "data") - 1  # minus the preamble
    released = sum(1 for e in fired if e[0] == "release")
    segs = [e[2] for e in fired if e[0] == "data"]
    rec = w.conns[0]
    err = h2_expect(segs)
    if err is not None:
        if rec.closed_at is None and not out:
            out.append(V("h2-violation-not-closed", f"h2:{err}", f"{odd}/{arr}: reference {err}"))
        return out
    done = ops[:max(ndata, 0)]
    model = ClientModel()
    for op in done:
        model.apply(op)
    if released:
        model.apply(("REL",))
    out += _stream_demands(w, model, done, released, f"{odd}/{arr}")
    if ndata < len(ops):  # the server closed the connection under a client that did nothing wrong
        out.append(V("other-stream-incomplete", "h2:" + ("+".join(sorted(model.tags)) or "none"),
                     f"server closed after {ndata} of {len(ops)} operations; closed_at={rec.closed_at} "
                     f"goaway={rec.client.h2.goaway} handler={rec.handler}"))
    return out


# ---------------------------------------------------------------------------------------------
# wsafter: Explorer A over what a client sends once its WebSocket has been closed


WSAFTER_SIBLING = 3  # ws/h2, refused handshake: an ordinary GET on the same connection, sent after the late DATA


def _wsafter_refused_events(carrier: str, closer: str, late: str, feed: str) -> List[tuple]:
    """The handshake that the application refuses, then bytes on that connection / stream: as a data event of their
    own (reaching the server while the application is still alive, or after), or as one segment longer than a
    single read of the server.  Over HTTP/2 a GET on a sibling stream follows."""
    path, more = WSAFTER_REJECTERS[closer], WSAFTER_LATE[late]
    if carrier == "ws/h1":
        tail = more if feed == "events" else more * (MAX_RECV // len(more) + 2)
        data = [ws_h1_handshake(path), tail]
    else:
        hs = h2_preamble() + f_headers(1, ws_h2_headers(path), False)
        sib = f_headers(WSAFTER_SIBLING, _GET_NOW, True)
        if feed == "events":
            data = [hs, f_data(1, more, False), sib]
        else:  # PING frames up to the end of the first read, late DATA and the sibling reach into the second
            seg = f_data(1, more, False) + f_ping() * (MAX_RECV // len(f_ping()) + 1)
            data = [hs, seg + f_data(1, more, False) + sib]
    # (ws/h2: no EOF, which - injected mid-flight - would rightly cut the sibling's response short)
    return [("data", 0, d) for d in data] + ([("eof", 0)] if carrier == "ws/h1" else [])


def _wsafter_events(carrier: str, closer: str, late: str, feed: str) -> List[tuple]:
    if closer in WSAFTER_REJECTERS:
        return _wsafter_refused_events(carrier, closer, late, feed)
    path = WSAFTER_CLOSERS[closer]
    text, close, more = ws_frame(OP_TEXT, b"yo"), ws_close_frame(1000, "bye"), WSAFTER_LATE[late]
    if feed == "bigread":
        # one segment longer than a single read of the server: a message that is echoed, the close frame, and the
        # late bytes repeated until they reach into the second read
        body = ws_frame(OP_TEXT, b"a" * (MAX_RECV - 600 if carrier == "ws/h1" else 3 * H2_FRAME - 600)) + close
    if carrier == "ws/h1":
        hs = ws_h1_handshake(path)
        if feed == "bigread":
            seg = body + more * ((MAX_RECV - len(body)) // len(more) + 2)
            data = [hs, seg]
        else:
            data = [hs, text + close if closer == "client_close" else text, more]
    else:
        hs = h2_preamble() + f_headers(1, ws_h2_headers(path), False)
        if feed == "bigread":
            # the WebSocket bytes in full DATA frames (within the stream's window), PING frames as filler up to the
            # end of the first read, then the late bytes in a DATA frame of their own
            seg = b"".join(f_data(1, body[i:i + H2_FRAME], False) for i in range(0, len(body), H2_FRAME))
            seg += f_ping() * ((MAX_RECV - len(seg)) // len(f_ping()) + 1)
            data = [hs, seg + f_data(1, more, False)]
        else:
            first = [f_data(1, text, False)] + ([f_data(1, close, False)] if closer == "client_close" else [])
            data = [hs, b"".join(first), f_data(1, more, False)]
    return [("data", 0, d) for d in data] + [("eof", 0)]


def build_wsafter(params: tuple) -> tuple:
    _, engine, carrier, closer, late, feed = params
    conn = {"carrier": "ws/h1"} if carrier == "ws/h1" else {**H2_TLS, "carrier": "ws/h2", "ws_streams": (1,)}
    sources = [("client", _wsafter_events(carrier, closer, late, feed))]
    if closer != "client_close":
        sources.append(("app", [("release", "g")]))
    return engine, _scenario(conn, sources, midflight=True, trio_rev=True, apps=WSAFTER_APPS)


def oracle_wsafter(w: Any, params: tuple) -> List[dict]:
    _, engine, carrier, closer, late, feed = params
    out = _internal(w, carrier)
    if carrier == "ws/h2":
        rec = w.conns[0]
        segs = [e[2] for _, e in w.driver.fired if e[0] == "data"]
        err = h2_expect(segs)
        if err is not None and rec.closed_at is None and not out:
            out.append(V("h2-violation-not-closed", f"{carrier}:{err}", f"{closer}/{late}/{feed}: reference {err}"))
        if closer in WSAFTER_REJECTERS and err is None:
            # DATA on the stream of a refused handshake concerns that stream alone: the GET next to it completes
            nsegs = len(_wsafter_refused_events(carrier, closer, late, feed))
            st = rec.client.h2.streams.get(WSAFTER_SIBLING)
            served = st is not None and st["status"] == 200 and st["body"] == b"abc" and st["ended"]
            if not served and (len(segs) == nsegs or rec.closed_at is not None):
                sent = "sent" if len(segs) == nsegs else "could not be sent: the server closed the connection"
                out.append(V("other-stream-incomplete", f"h2:data-after-refused-websocket:{closer}",
                             f"{late}/{feed}: sibling stream {WSAFTER_SIBLING} ({sent}) got {st}; closed_at={rec.closed_at} "
                             f"goaway={rec.client.h2.goaway} handler={rec.handler}"))
    return out


# ---------------------------------------------------------------------------------------------
# late: Explorer A over uploads that continue after the response, as far as flow control lets the client go


def _post(path: bytes) -> List[Tuple[bytes, bytes]]:
    return [(b":method", b"POST"), (b":path", path), (b":scheme", b"https"), (b":authority", b"hypercorn")]


def _late_plan(shape: str, arr: str) -> Tuple[List[tuple], List[tuple], int]:
    """(commands of the uploading source, commands of the sibling source, stream id of the sibling).

    Every command goes through the client's own h2 connection (mc.clients.H2Client): a DATA command is enabled only
    while the flow-control windows the *server* has granted cover it, exactly like a client that respects RFC 7540
    6.9; nothing is ever sent that the peer has not made room for."""
    parts, end_last = LATE_SHAPES[shape]
    nlate = 1 + max(i for i, _ in parts)
    if arr == "sib_open":  # the sibling's HEADERS go first, its body after the late DATA
        sib, late_sids = 1, [3 + 2 * i for i in range(nlate)]
    else:
        sib, late_sids = 1 + 2 * nlate, [1 + 2 * i for i in range(nlate)]
    up: List[tuple] = [("cmd", 0, "preface")]
    sib_head = ("cmd", 0, "headers", sib, _post(b"/body"), False)
    if arr == "sib_open":
        up.append(sib_head)
    for sid in late_sids:  # answered on the headers alone, the request body has not ended
        up.append(("cmd", 0, "headers", sid, _post(b"/now"), False))
    for i, total in parts:
        while total:
            n = min(total, H2_FRAME)
            total -= n
            up.append(("cmd", 0, "datan", late_sids[i], b"x" * n, end_last and not total))
    side: List[tuple] = [("late_go", 0)]
    if arr == "sib_after":
        side.append(sib_head)
    side.append(("cmd", 0, "datan", sib, b"hello", True))
    return up, side, sib


def _late_go(w: Any, ev: tuple) -> bool:
    """The sibling's source starts once the client has seen the first early response (it then interleaves freely
    with the late DATA, within the S bound)."""
    return any(st["status"] is not None for st in w.conns[0].client.h2.streams.values())


def build_late(params: tuple) -> tuple:
    _, engine, shape, arr = params
    up, side, _ = _late_plan(shape, arr)
    sc = _scenario(dict(H2_TLS), [("client", up), ("sibling", side)], midflight=True, trio_rev=True)
    sc["client_factory"] = make_client
    sc["guards"] = {"late_go": _late_go}
    return engine, sc


def oracle_late(w: Any, params: tuple) -> List[dict]:
    _, engine, shape, arr = params
    up, side, sib = _late_plan(shape, arr)
    out = _internal(w, "h2")
    rec = w.conns[0]
    view = rec.client.h2
    st = view.streams.get(sib)
    if st is not None and st["status"] == 200 and st["body"] == b"abc" and st["ended"]:
        return out
    unfired = [evs[w.driver.pos[i]:] for i, (_, evs) in enumerate(w.driver.sources)]
    if any(e[2] == "datan" and e[3] == sib for e in unfired[1] if e[0] == "cmd") and rec.closed_at is None:
        what = "upload-blocked"  # the windows the server left the client do not allow the sibling's body
    elif st is None or st["status"] is None:
        what = "no-response"
    elif st["status"] != 200:
        what = f"status-{st['status']}"
    else:
        what = "partial" if st["reset"] is None else f"reset-{st['reset']}"
    out.append(V("other-stream-incomplete", f"h2:data-after-response:{what}",
                 f"{shape}/{arr}: sibling stream {sib} got {st}; client send window: connection "
                 f"{view.conn.outbound_flow_control_window}; commands not sent {[e[2:5] for u in unfired for e in u][:6]}; "
                 f"refused by the client library {view.skipped}; closed_at={rec.closed_at} goaway={view.goaway} "
                 f"client error={view.error} handler={rec.handler}"))
    return out


_BUILD = {"odd": build_odd, "wsafter": build_wsafter, "late": build_late}
_ORACLE = {"odd": oracle_odd, "wsafter": oracle_wsafter, "late": oracle_late}
execute = std_execute(lambda params: _BUILD[params[0]](params), lambda w, params: _ORACLE[params[0]](w, params))

# ---------------------------------------------------------------------------------------------
# gram: Explorer B


def _snapshot(store: dict) -> Any:
    def probe(w: Any) -> None:
        store["parked"] = w.gate_parked("g")
        tcp = w.tcp_of_conn.get(0)
        proto = getattr(getattr(tcp, "protocol", None), "protocol", None)
        if proto is None or type(proto).__name__ != "H2Protocol":
            store["server"] = ("noproto",)
            return
        c = proto.connection
        h2s = tuple(sorted(
            (sid, s.state_machine.state.name, s.outbound_flow_control_window,
             s._inbound_window_manager.current_window_size) for sid, s in c.streams.items()))
        tree = tuple(sorted(
            (sid, s.active, s.weight, s.parent.stream_id if s.parent is not None else None)
            for sid, s in proto.priority._streams.items()))
        store["server"] = (
            c.state_machine.state.name, c.outbound_flow_control_window,
            c._inbound_flow_control_window_manager.current_window_size, h2s,
            tuple(sorted((sid, type(s).__name__, s.state.name, s.closed) for sid, s in proto.streams.items())),
            tuple(sorted((sid, len(b.buffer), b._complete) for sid, b in proto.stream_buffers.items())),
            tree, proto.closed)

    return probe


def gram_run(engine: str, alphabet: str, history: List[tuple], verbose: bool = False) -> Tuple[Any, List[dict], List[tuple], Any]:
    history = [tuple(op) for op in history]
    events, _, _ = grammar_events(history)
    store: dict = {}
    sc = _scenario(dict(H2_TLS), [("client", events), ("probe", [("call", _snapshot(store))])])
    w = run_world(engine, sc, [])
    rec = w.conns[0]
    fired = [e for _, e in w.driver.fired if e[0] != "call"]
    nops = len(fired) - 1
    done = history[:max(nops, 0)]
    model = ClientModel()
    for op in done:
        model.apply(op)
    released = sum(1 for e in fired if e[0] == "release")
    segs = [e[2] for e in fired if e[0] == "data"]
    viol = generic_violations(w) + _internal(w, "h2")
    err = h2_expect(segs)
    if err is not None:
        if rec.closed_at is None and not any(v["clause"].startswith("handler-") for v in viol):
            viol.append(V("h2-violation-not-closed", f"h2:{err}", f"history {done}: reference {err}"))
    elif not model.goaway:
        viol += _stream_demands(w, model, done, released, f"history {done}")
    view = rec.client.h2
    cview = tuple((sid, st["status"], st["body"], st["ended"], st["reset"], st["trailers"] is not None)
                  for sid, st in sorted(view.streams.items()))
    insts = tuple((i.scope.get("path"), i.pc, i.outcome, len(i.delivered())) for i in w.instances)
    alive = rec.closed_at is None and rec.handler is None
    canon = (model.key(), err, alive, store.get("server"), store.get("parked"), insts, cview,
             view.goaway[:2] if view.goaway else None, view.settings_acks, view.ping_acks, view.error,
             rec.handler, tuple(sorted((v["clause"], v["key"]) for v in viol)))
    ops: List[tuple] = []
    if nops == len(history) and err is None:
        for op in grammar_enabled(model, alphabet):
            if op == ("REL",):
                if store.get("parked"):
                    ops.append(op)
            elif alive:
                ops.append(op)
    if verbose:
        describe(w)
        print("server state:", store.get("server"))
    return canon, viol, ops, w


# ---------------------------------------------------------------------------------------------
# driver


_SEEN: set = set()  # (clause, key) this worker process has already handed to the explorer


def _fresh(violations: List[dict]) -> List[dict]:
    """Each worker process reports every (clause, key) once: the framework caps the number of violation records
    it carries (400 per scenario, 2000 per run); without this a frequent violation would crowd out a rare one.
    Every key that occurs anywhere is still reported by the first process that meets it."""
    out = []
    for v in violations:
        k = (v["clause"], v["key"])
        if k not in _SEEN:
            _SEEN.add(k)
            out.append(v)
    return out


def _account(res: dict, r: ExecResult, params: Any, case: Any) -> None:
    res["executions"] += 1
    res["digests"].add(r.digest)
    if r.nontrivial:
        res["nontrivial"].add(r.digest)
    for s in r.sigs:
        res["sigs"].add(hash(s))
    for v in _fresh(r.violations):
        res["violations"].append({**v, "params": params, "history": [case]})


def explore_item_custom(params: tuple, tier: str, deadline: float) -> dict:
    kind = params[0]
    if kind in EXPLORER_A:
        last: List[Any] = []

        def execute_fresh(p: Any, prefix: List[int]) -> ExecResult:
            r = execute(p, prefix)
            r.violations = _fresh(r.violations)
            last[:] = [list(prefix), [(pt.kind, pt.n, pt.choice) for pt in r.trace]]
            return r

        try:
            return explore_item(execute_fresh, params, bounds(tier, params), deadline)
        except HarnessError as e:
            raise HarnessError(f"{e}; prefix={last[0] if last else None} trace={last[1] if last else None}")
    if kind == "gram":
        _, engine, depth, root, alphabet = params
        count = [0]

        def run(history: List[tuple]) -> Tuple[Any, List[dict], List[tuple]]:
            count[0] += 1
            if count[0] % 200 == 0:
                gc.collect()
            canon, viol, ops, _ = gram_run(engine, alphabet, history)
            return canon, _fresh(viol), ops

        res = bfs(run, depth - len(root), deadline, roots=[list(root)])
        for v in res["violations"]:
            v["params"] = params
        c1 = gram_run(engine, alphabet, list(root))[0]
        c2 = gram_run(engine, alphabet, list(root))[0]
        res["replay_checks"] += 1
        if c1 != c2:
            res["replay_divergences"] += 1
            res["divergent"].append({"params": repr(params)})
        return res
    res = _blank_result()
    first = True
    for n, case in enumerate(_cases(params)):
        if time.time() > deadline:
            res["capped"] = True
            res["cap_pending"] = 1
            break
        r = _exec_case(params, case)
        _account(res, r, params, case)
        if first:
            first = False
            r2 = _exec_case(params, case)
            res["replay_checks"] += 1
            if r2.digest != r.digest:
                res["replay_divergences"] += 1
                res["divergent"].append({"params": repr(params), "case": repr(case)})
            if r.sample is not None:
                res["samples"].append(r.sample)
        if n % 100 == 99:
            gc.collect()
    res["points"] = res["executions"]
    return res


def replay_history(params: tuple, history: List[Any]) -> Tuple[List[dict], Any]:
    if params[0] == "gram":
        canon, viol, ops, w = gram_run(params[1], params[4], [tuple(op) for op in history],
                                       verbose=bool(os.environ.get("MC_VERBOSE")))
        return viol, {"history": repr(history), "enabled_next": repr(ops)[:400], "handler": w.conns[0].handler,
                      "closed_at": w.conns[0].closed_at}
    case = history[0]
    if params[0] == "mut":
        case = (case[0], tuple(case[1]), case[2], case[3])
    r1 = _exec_case(params, case)
    os.environ.pop("MC_VERBOSE", None)
    r2 = _exec_case(params, case)
    if r1.digest != r2.digest:
        return [V("harness-problem", "replay-divergence", "two replays of the same case differ")], r1.sample
    return r1.violations, r1.sample


# wave h documentation (what was added to the enumeration; see DESIGN.md 11.0)
_WAVE_H = '+ corpus session h1uplist (an Upgrade protocol list next to websocket: every byte mutated, also into obs-text)'
RULE = RULE + " " + _WAVE_H
BOUNDS_DOC = {k: v + " " + _WAVE_H for k, v in BOUNDS_DOC.items()}
