"""C03 - exactly-once disconnect, one access record, sends after close are no-ops.

Explorer A over (carrier x application script x closure/fault kind x engine); the fault and the
application's gate releases are separate sources, so the explorer interleaves them at every
position, including mid-flight (while the server still has runnable work).

Where the connection's reader task is when the closure happens is a dimension of its own: waiting on
the socket (carriers h1, h1x2, h2, ws/*: the reader notices the closure and reports it itself) or
parked inside the protocol behind a pipelined request (carrier h1pipe: two requests in one segment,
the first application streams / waits for its disconnect): there a failed write, a reset or a
server-side close is the only thing that can tell the application, whose "stream" script keeps
writing chunk after chunk (write failure at each write) and only stops on http.disconnect.

The access logger is a dimension too ("ylog" scenarios: a logger_class whose access() yields to the
event loop after writing its record, like the statsd logger): the closure is then also placed INSIDE
the access-log call of the completing response / the WebSocket handshake.
"""
from __future__ import annotations

from typing import Any, List

from mc.core import RecordingLogger
from mc.clients import (OP_TEXT, h1_request, h2_request_headers, make_client, ws_close_frame, ws_frame,
                        ws_h1_handshake, ws_h2_headers)
from mc.explore import V
from mc.harness import std_execute
from mc.refmodels import HttpSendModel, WsSendModel

ID = "C03"
LEVEL = "model_checking"
TECHNIQUE = ("stateless deviation-bounded exploration (CHESS-style) of the real TCPServer/H11/H2/stream code "
             "under a virtual-time event loop and an in-memory transport; per-execution monitor")
RULE = ("scenario = engine x carrier(h1,h1 keep-alive pair,h1 pipelined pair (reader parked),h2 two streams,ws/h1,ws/h2) x "
        "app script x closure kind x access logger (plain | access() yields: h1,h2,ws/h1,ws/h2 x 2 scripts x "
        "eof/reset/terminate); every placement of "
        "the closure event, gate releases and timer ticks within bounds (M mid-flight injections, S source "
        "preemptions); non-trivial = an app instance ran and at least one non-default choice was taken; distinct "
        "by digest of (per-instance message sequences, send outcomes, parsed client events, close instants, logs)")
ASSUMPTIONS = [
    "environment model (fake transport/stream, virtual loop) is bound to real sockets by ./check selftest",
    "instances cancelled by the harness at teardown are exempt; instances still parked on an unreleased gate are "
    "judged on what was queued for them",
    "only messages the reference ASGI automaton allows (given what the app itself sent) must be accepted silently",
    "the yielding access logger writes its record when access() is called and yields afterwards (as the statsd logger "
    "does): two records of one request are ordered by their access() calls; a second record FOLLOWING the record of the "
    "complete response is keyed ...:after-complete, the premature closure record followed by the accurate one keeps "
    "the key of the registered finding",
]
BOUNDS_DOC = {"quick": "M<=1 mid-flight injections, S<=2 preemptions, R=0 (trio keep-alive pair: M<=1,S<=1,R<=1); "
                       "6 carriers (h1pipe: 3 scripts x 4 closure kinds) x 7 HTTP / 5 WebSocket scripts x 6 closure kinds x 2 engines; "
                       "+ yielding access logger: 4 carriers x 2 scripts x 3 closure kinds x 2 engines (same bounds)",
              "thorough": "M<=2, S<=3, trio R<=1"}
BUDGET = {"quick": 300, "thorough": 1800}

START = {"type": "http.response.start", "status": 200, "headers": [(b"content-length", b"4")]}
START_CHUNKED = {"type": "http.response.start", "status": 200, "headers": []}
B1 = {"type": "http.response.body", "body": b"ab", "more_body": True}
B2 = {"type": "http.response.body", "body": b"cd", "more_body": False}

HTTP_APPS = {
    "gated": [("recv_body",), ("send", START), ("gate", "g1"), ("send", B1), ("gate", "g2"), ("send", B2),
              ("recv_until_disconnect",)],
    "early": [("send", START_CHUNKED), ("send", B1), ("send", B2), ("recv_until_disconnect",)],
    "noresp": [("recv",), ("return",)],
    "crash_mid": [("recv_body",), ("send", START), ("gate", "g1"), ("raise",)],
    "late": [("recv_until_disconnect",), ("send", START), ("send", B1), ("send", B2)],
    "send_after": [("recv_body",), ("send", START), ("gate", "g1"), ("send", B1), ("recv_until_disconnect",),
                   ("send", B2)],
    # server-sent-events style: streams chunks of an unbounded response, each behind its own gate, and stops only
    # when told the client has gone (then completes the response: a send after closure)
    "stream": [("send", START_CHUNKED), ("send", B1), ("gate", "g1"), ("send", B1), ("gate", "g2"), ("send", B1),
               ("recv_until_disconnect",), ("send", B2)],
}
WS_APPS = {
    "session": [("recv",), ("send", {"type": "websocket.accept"}), ("gate", "g1"),
                ("send", {"type": "websocket.send", "text": "hi"}), ("recv",), ("gate", "g2"),
                ("send", {"type": "websocket.close", "code": 1000}), ("recv_until_disconnect",)],
    "reject": [("recv",), ("send", {"type": "websocket.close"}), ("recv_until_disconnect",)],
    "exit_handshake": [("recv",), ("return",)],
    "crash_open": [("recv",), ("send", {"type": "websocket.accept"}), ("gate", "g1"), ("raise",)],
    "send_after": [("recv",), ("send", {"type": "websocket.accept"}), ("recv_until_disconnect",),
                   ("send", {"type": "websocket.send", "text": "late"})],
}
FAULTS = ["none", "eof", "reset", "wfail", "terminate", "client_close"]
# h1x2: a keep-alive pair, the scripted application serves the second request
# h1pipe: two requests pipelined in ONE segment, the scripted application serves the first: while it responds the
#         connection's reader is parked inside the protocol (behind the second request), not waiting on the socket,
#         so a closure the reader would otherwise notice and report by itself has to reach the application some
#         other way
CARRIERS = ["h1", "h1x2", "h1pipe", "h2", "ws/h1", "ws/h2"]
PIPE_APPS = ("gated", "send_after", "stream")
# Reported on the unchanged tree, awaiting triage (witness replays/C03/candidate-parked-reader-reset.json): asyncio
# worker, the client resets the connection while the reader is parked behind the pipelined request and the
# application is waiting in receive(): asyncio's transport closes the socket, nobody tells the protocol, the
# application never gets http.disconnect (confirmed with real sockets).  Left out of the scenario list so that the
# check stays quiet; remove the entries once the finding is registered.
PENDING_FINDING: set = set()  # registered as KF-C03-reset-behind-parked-reader (known_findings.json)

# The access logger is configuration (config.logger_class / statsd_host): hypercorn's plain Logger.access() never
# gives up control, the statsd logger awaits its UDP sends after writing the record (on trio every call is a
# checkpoint).  "ylog" scenarios record through a logger whose access() writes the record at once and THEN yields to
# the event loop, so that the closure (and every other source) can be placed inside the access-log call itself.
# The record is taken before the yield on purpose: the order of two records of one request is then the order of the
# two access() calls, which is what tells "logged again after the complete record" from the known premature record.
YLOG_CARRIERS = ("h1", "h2", "ws/h1", "ws/h2")
YLOG_APPS = {"http": ("gated", "early"), "ws": ("session", "reject")}
YLOG_FAULTS = ("eof", "reset", "terminate")
REAL_LOGGERS = ("reallog", "statsd")
REAL_APPS = {"http": ("gated", "early", "crash_mid", "late"), "ws": ("session", "reject", "crash_open")}


class YieldingLoggerAsyncio(RecordingLogger):
    async def access(self, request: dict, response: Any, request_time: float) -> None:
        import asyncio

        await super().access(request, response, request_time)
        await asyncio.sleep(0)


class YieldingLoggerTrio(RecordingLogger):
    async def access(self, request: dict, response: Any, request_time: float) -> None:
        import trio

        await super().access(request, response, request_time)
        await trio.lowlevel.checkpoint()


def scenarios(tier: str) -> List[Any]:
    out = []
    for engine in ("asyncio", "trio"):
        for carrier in CARRIERS:
            apps = WS_APPS if carrier.startswith("ws") else HTTP_APPS
            for app in apps:
                for fault in FAULTS:
                    if fault == "client_close" and not carrier.startswith("ws") and carrier != "h2":
                        continue
                    if carrier == "h1x2" and (app not in ("gated", "early", "late") or fault in ("wfail",)):
                        continue
                    if app == "stream" and carrier != "h1pipe":
                        continue
                    if carrier == "h1pipe" and (app not in PIPE_APPS or fault == "none"):
                        continue
                    if (engine, carrier, app, fault) in PENDING_FINDING:
                        continue
                    out.append((engine, carrier, app, fault))
        for carrier in YLOG_CARRIERS:
            for app in YLOG_APPS["ws" if carrier.startswith("ws") else "http"]:
                for fault in YLOG_FAULTS:
                    out.append((engine, carrier, app, fault, "ylog"))
        # the shipped Logger / StatsdLogger classes themselves (mc.core.real_logger_class): the record exists only
        # if Logger.access -> atoms -> AccessLogAtoms -> the configured format went through; the statsd logger awaits
        # its datagrams after the record (asyncio: the first datagram of the worker opens the endpoint and yields)
        for kind in REAL_LOGGERS:
            for carrier in YLOG_CARRIERS:
                for app in REAL_APPS["ws" if carrier.startswith("ws") else "http"]:
                    for fault in ("none",) + YLOG_FAULTS:
                        out.append((engine, carrier, app, fault, kind))
    return out


def bounds(tier: str, params: Any) -> dict:
    if tier == "quick":
        if params[0] == "trio" and params[1] == "h1x2":
            return {"M": 1, "S": 1, "R": 1}  # the recycle between two requests depends on trio's batch order
        return {"M": 1, "S": 2, "R": 0}
    return {"M": 2, "S": 3, "R": 1 if params[0] == "trio" else 0}


# real-logger variants: header values are octets, not text - one request and one response header carry a byte that
# is not UTF-8 (obs-text, legal in HTTP/1.1 and HTTP/2); the access-log atoms have to cope
OBS_REQ = [(b"x-name", b"Caf\xe9")]
OBS_RESP = (b"x-tag", b"na\xefve")


def _obs(prog: list) -> list:
    out = []
    for op in prog:
        if op[0] == "send" and op[1].get("type") in ("http.response.start", "websocket.accept"):
            op = ("send", dict(op[1], headers=list(op[1].get("headers", [])) + [OBS_RESP]))
        out.append(op)
    return out


def build(params: Any) -> tuple:
    engine, carrier, app, fault = params[:4]
    sources = []
    conn = {"carrier": carrier}
    real = params[4:] in (("reallog",), ("statsd",))
    xh = OBS_REQ if real else []
    if carrier == "h1":
        req = h1_request(b"POST", b"/x", xh, body=b"hello")
        client = [("data", 0, req[:25]), ("data", 0, req[25:])]
        conn["methods"] = [b"POST"]
        apps = {"http": HTTP_APPS[app]}
    elif carrier == "h1x2":
        pre = h1_request(b"GET", b"/pre")
        req = h1_request(b"POST", b"/x", body=b"hello")
        client = [("data", 0, pre), ("data", 0, req)]  # whole, so that one mid-flight injection can land inside the recycle
        conn["carrier"] = "h1"
        conn["methods"] = [b"GET", b"POST"]
        apps = {"http:/pre": [("recv_body",), ("send", START), ("send", B1), ("send", B2)], "http:/x": HTTP_APPS[app]}
    elif carrier == "h1pipe":
        req = h1_request(b"POST", b"/x", body=b"hello")
        nxt = h1_request(b"GET", b"/next")
        client = [("data", 0, req + nxt)]
        conn["carrier"] = "h1"
        conn["methods"] = [b"POST", b"GET"]
        apps = {"http:/x": HTTP_APPS[app], "http:/next": [("recv_body",), ("send", START), ("send", B1), ("send", B2),
                                                          ("recv_until_disconnect",)]}
    elif carrier == "h2":
        conn.update(tls=True, alpn="h2")
        client = [("cmd", 0, "preface"),
                  ("cmd", 0, "headers", 1, h2_request_headers(b"POST", b"/x", extra=xh), False),
                  ("cmd", 0, "datan", 1, b"hello", True),
                  ("cmd", 0, "headers", 3, h2_request_headers(b"GET", b"/y"), True)]
        apps = {"http:/x": HTTP_APPS[app], "http:/y": [("recv_body",), ("send", START), ("send", B1), ("send", B2),
                                                       ("recv_until_disconnect",)]}
    elif carrier == "ws/h1":
        client = [("data", 0, ws_h1_handshake(b"/w", xh)), ("data", 0, ws_frame(OP_TEXT, b"yo"))]
        apps = {"websocket": WS_APPS[app]}
    else:
        conn.update(tls=True, alpn="h2")
        client = [("cmd", 0, "preface"), ("cmd", 0, "ws_open", 1), ("cmd", 0, "headers", 1, ws_h2_headers(b"/w", xh), False),
                  ("cmd", 0, "ws_data", 1, ws_frame(OP_TEXT, b"yo"))]
        apps = {"websocket": WS_APPS[app]}
    fault_src = []
    if fault == "eof":
        fault_src = [("eof", 0)]
    elif fault == "reset":
        fault_src = [("reset", 0)]
    elif fault == "wfail":
        fault_src = [("wfail", 0)]
    elif fault == "terminate":
        fault_src = [("terminate",)]
    elif fault == "client_close":
        if carrier == "ws/h1":
            fault_src = [("data", 0, ws_close_frame(1001, "bye"))]
        elif carrier == "ws/h2":
            fault_src = [("cmd", 0, "ws_data", 1, ws_close_frame(1001, "bye"))]
        else:
            fault_src = [("cmd", 0, "rst", 1, 8)]
    sources = [("client", client), ("app", [("release", "g1"), ("release", "g2")]), ("fault", fault_src),
               ("clock", [("tick",), ("tick",)])]
    sc = {
        "level": "conn", "conns": {0: conn}, "client_factory": make_client, "apps": apps,
        "config": {"keep_alive_timeout": 5}, "sources": sources, "trio_rev": True,
    }
    if params[4:] == ("ylog",):
        sc["logger_base"] = YieldingLoggerTrio if engine == "trio" else YieldingLoggerAsyncio
    if real:
        sc["apps"] = {k: _obs(v) for k, v in apps.items()}
    if params[4:] == ("reallog",):
        sc["logger"] = "real"
        sc["config"]["access_log_format"] = '%(h)s %(S)s "%(R)s" %(s)s %(st)s %(b)s "%(f)s" "%(a)s" %(D)s %({host}i)s %({content-length}o)s %({x-name}i)s %({x-tag}o)s'
    elif params[4:] == ("statsd",):
        sc["logger"] = "statsd"
        sc["config"]["statsd_prefix"] = "hc"
    return engine, sc


def oracle(w: Any, params: Any) -> List[dict]:
    out: List[dict] = []
    engine, carrier, app, fault = params[:4]
    rec = w.conns[0]
    for inst in w.instances:
        if inst.outcome == "cancelled":
            continue
        if inst.type not in ("http", "websocket"):
            continue
        tag = f"{carrier}:{inst.type}"
        # access records are a matter of one request's stream: keyed by the wire protocol
        wtag = f"{'h1' if carrier == 'h1pipe' else carrier}:{inst.type}"
        msgs = inst.delivered()
        disc = [i for i, m in enumerate(msgs) if m["type"].endswith("disconnect")]
        if len(disc) > 1:
            out.append(V("disconnect-more-than-once", f"{tag}:{len(disc)}", [m["type"] for m in msgs]))
        if disc and disc[0] != len(msgs) - 1:
            out.append(V("message-after-disconnect", f"{tag}:{msgs[disc[0] + 1]['type']}", [m["type"] for m in msgs]))
        # An instance that is still running when its connection is gone must have been sent the disconnect
        # (an instance that already returned cannot observe it, so nothing is demanded for those).
        if inst.outcome == "running" and rec.closed_at is not None and not disc:
            out.append(V("no-disconnect", f"{tag}:{inst.outcome}" + (f":{fault}:{engine}" if carrier == "h1pipe" else ""),
                         [m["type"] for m in msgs]))
        # sends of state-valid messages never raise
        model = WsSendModel() if inst.type == "websocket" else HttpSendModel(inst.scope["http_version"])
        for t0, t1, msg, outcome in inst.sends:
            ok = model.allows(msg)
            if ok and outcome not in ("ok", "pending", "cancelled"):
                out.append(V("valid-send-raised", f"{tag}:{msg['type']}:{outcome}", f"state={model.state} msg={msg}"))
            if ok:
                model.advance(msg)
        # one access record per request
        mine = [a for a in w.access if a[5] is inst.scope]
        n = len(mine)
        if n > 1:
            # which record came first is part of the key: a request logged AGAIN after the record of its complete
            # response is another situation than a premature closure record followed by the accurate one
            order = "" if mine[0][4] is None else ":after-complete"
            out.append(V("access-log-more-than-once", f"{wtag}:{n}{order}", [(a[0], a[4]) for a in mine]))
        if n == 0 and disc:
            out.append(V("access-log-missing", f"{wtag}", inst.outcome))
    seen = {}
    for a in w.access:
        seen.setdefault(a[1], []).append(a)
    for sid, lst in seen.items():
        if len(lst) > 1 and not any(lst[0][5] is i.scope for i in w.instances):
            out.append(V("access-log-more-than-once", f"{carrier}:noinstance:{len(lst)}", [(a[0], a[4]) for a in lst]))
    return out


execute = std_execute(build, oracle)


# wave h documentation (what was added to the enumeration; see DESIGN.md 11.0)
_WAVE_H = "+ hypercorn's own Logger / StatsdLogger (scenario logger=real|statsd: records come out of Logger.access -> AccessLogAtoms -> the configured format; statsd datagrams through an owned UDP seam): 4 carriers x 4 HTTP / 3 WebSocket scripts x {none,eof,reset,terminate} x 2 loggers x 2 engines, obs-text bytes in one request and one response header"
RULE = RULE + " " + _WAVE_H
BOUNDS_DOC = {k: v + " " + _WAVE_H for k, v in BOUNDS_DOC.items()}
