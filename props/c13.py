"""C13 - protocol selection and upgrades lose no bytes and ignore segmentation.

What is enumerated (real TCPServer / ProtocolWrapper / H11Protocol / H2Protocol / streams, both engines):

* a table of *openings* (OPENINGS), each followed by further traffic in the same byte string:
  TLS with ALPN h2 / http/1.1 / no ALPN; cleartext HTTP/2 preface (prior knowledge); h2c upgrade with
  HTTP2-Settings payloads {default, empty, INITIAL_WINDOW_SIZE=1, not base64} immediately followed by
  the client preface, SETTINGS and a second request with DATA on stream 3; h2c upgrade *with a body*
  (must stay HTTP/1.1, body delivered byte for byte) followed by a pipelined request - the body framed
  with Content-Length or with Transfer-Encoding: chunked, the framing header behind or in front of the
  upgrade headers; WebSocket upgrade (GET) followed, after the
  handshake response, by a text frame; WebSocket upgrade immediately followed by one / two frames by a client
  that does not wait for the 101 (request and frames in the same read, the cut between them, inside a frame;
  the application answers the handshake only after the last read); POST with Upgrade: websocket (must stay
  HTTP); unknown Upgrade token; plain GET+POST and chunked POST+GET pipelines; HTTP/1.0; the asterisk-form target
  (OPTIONS *) as an h2c upgrade (the preflight hypercorn's own comment recommends: served as HTTP/2 stream 1, method
  OPTIONS, path "*"), on a prior-knowledge HTTP/2 connection and as a plain HTTP/1.1 request;
* a *configuration axis*: 14 of the openings again under h11_pass_raw_headers = True (field names written as the RFCs
  print them, all lower case, all upper case), under server_names = [the host the requests name] and under both - the
  expectation is the one of the default configuration (what the client opens with selects the protocol, whatever the
  configuration and however the field names are spelt); the lower / upper case spellings of the WebSocket and h2c
  openings under the default configuration as controls;
* segmentation as *data choice points* (always fully enumerated): "2way" every split point of the whole
  byte string (so the further traffic is in the same read as the opening, starts a later read, or the
  cut falls inside the opening, between the head of an upgrade request and its body, inside the body),
  "3way" every pair of split points, "bytes" one byte per read.  Bytes a
  conforming client can only send after the server's answer (the WebSocket frame) form a second
  *stage* that always starts a new read and is only written once the client has seen the 101;
* "switch"/gated: the applications wait on a gate before answering, the reads are cut at the switch point
  (end of the opening request / preface; for chunked requests end of the head and end of the body) and one
  byte either side, and Explorer A interleaves the gate
  releases with the reads (also mid-flight), so that trailing bytes arrive while stream 1 is still open.

Oracle clauses:
  selection        application scopes (type, http_version, path) differ from the reference selection rule
  byte-loss        request body / websocket payload received by an instance != bytes the client sent; a WebSocket
                   handshake answered 101 although the frames sent behind the upgrade request never reached the app
  client-parse     the independent client parser (h11, then h2 after the 101 / for the preface) failed
  response         a request did not get exactly its own response (wrong/missing/duplicated)
  split-dependence the normalised observation differs from the unsplit delivery of the same bytes
                   (metamorphic: needs no hand-written expectation; the only clause for the not-base64 payload and,
                   as long as the server refuses the handshake, for the frames-before-the-101 openings)
"""
from __future__ import annotations

from typing import Any, Dict, List, Optional

from mc.clients import OP_TEXT, h1_request, h2_request_headers, ws_frame, ws_h1_handshake
from mc.explore import V
from mc.harness import client_view, norm_msg
from mc.x_c01c02c13_lib import (choose_cuts, h2_script_bytes, h2c_settings_header, lattice, make_execute,
                                make_xclient, paced_app_factory, segments, three_way_modes)

ID = "C13"
LEVEL = "model_checking"
TECHNIQUE = ("bounded exhaustive enumeration of connection openings (incl. h2c upgrade requests carrying a Content-Length "
             "or chunked body, h2c / WebSocket upgrade requests with the next protocol's first bytes in the same read, "
             "OPTIONS * as h2c upgrade / prior knowledge / HTTP/1.1) x a configuration axis (raw header names with the field "
             "names in RFC / lower / upper case, server_names naming the requests' host, both) "
             "x every segmentation of the client's byte string "
             "(data choice points, fully enumerated) on the real TCPServer/ProtocolWrapper/H11/H2 code; reference "
             "selection rule + independent client parsers + metamorphic comparison with the unsplit delivery")
RULE = ("scenario = engine x opening x segmentation mode x application pacing; one execution per split point (2way), per "
        "pair of split points (3way), one-byte reads, and - with gated applications - per interleaving of gate releases "
        "with the reads around the switch point; non-trivial = an application instance ran and a non-default "
        "split/interleaving was chosen; distinct by digest of the normalised observation (scopes, delivered bodies, "
        "sends, parsed client view, close state) + body message sizes + delivery points relative to the reads")
ASSUMPTIONS = [
    "environment model (fake transport/stream, virtual loop) is bound to real sockets by ./check selftest",
    "ALPN is read from a fake ssl_object; real TLS is outside",
    "each segment is handed to the server at quiescence (one network read each); mid-flight only in the gated scenarios",
    "a WebSocket client sends frames only after the handshake response (RFC 6455 4.1), so the frame starts a later read "
    "(openings ws, ws-tokens); the ws-early openings model the client that does not wait: there the application answers "
    "the handshake only after the client's last read, no outcome is prescribed for a frame that precedes the handshake "
    "response except that it is the same for every split, and that a handshake answered 101 implies the frames are delivered",
    "an h2c client may send its preface right behind the upgrade request (the property's 'same or later reads')",
    "the not-base64 HTTP2-Settings opening is judged by split-independence only",
    "configuration axis: h11_pass_raw_headers and a server_names list that contains the host the requests name change "
    "nothing of what is expected (selection, bodies, responses); field names are case-insensitive (RFC 7230 3.2)",
    "OPTIONS * : the ASGI path of the asterisk-form target is expected to be '*' (the target, which has no escapes to decode)",
]
BOUNDS_DOC = {"quick": "every 2-way split and one-byte reads of every opening (25, 5 of them h2c upgrades with a body, 2 "
                       "WebSocket upgrades with frames before the 101, 3 with OPTIONS *); configuration axis: 14 openings x "
                       "{raw, sn, raw+sn} x {RFC, lower, upper case names under raw} = 54 more openings + 4 spelling controls, "
                       "every 2-way split (one-byte reads for the RFC spelling, gated switch for 6 of them); "
                       "every 3-way split of the 3 shortest; "
                       "gated applications with cuts at the switch point +-1: M<=1,S<=2 (not the frames-before-the-101 openings)",
              "thorough": "every 3-way split of every opening of the default configuration; configuration axis: every 2-way "
                          "split, one-byte reads and the gated switch for every variant; gated: M<=2,S<=3"}
BUDGET = {"quick": 300, "thorough": 1500}

OK = [(b"content-length", b"2")]


def _resp(tag: bytes, gated: bool) -> List[tuple]:
    return ([("gate", "g")] if gated else []) + [
        ("recv_body",), ("send", {"type": "http.response.start", "status": 200, "headers": OK}),
        ("send", {"type": "http.response.body", "body": tag, "more_body": False})]


def apps(gated: bool, hold: bool = False) -> Dict[str, list]:
    """hold: the WebSocket application answers the handshake only when gate "h" is released, which the environment does
    after the client's last read - every split of the client's bytes then meets the same application progress."""
    return {
        "http:/r1": _resp(b"r1", gated), "http:/r2": _resp(b"r2", gated), "http:*": _resp(b"r1", gated),
        "websocket": [("recv",)] + ([("gate", "h")] if hold else []) + [("send", {"type": "websocket.accept"})] + (
            [("gate", "g")] if gated else []) + [
            ("recv",), ("send", {"type": "websocket.send", "text": "pong"}), ("recv_until_disconnect",)],
    }

H2_TWO = [("headers", 1, h2_request_headers(b"GET", b"/r1"), True),
          ("headers", 3, h2_request_headers(b"POST", b"/r2"), False), ("datan", 3, b"hel", False), ("datan", 3, b"lo", True)]
H2_SECOND = H2_TWO[1:]


def _spell(raw: bytes, spelling: str) -> bytes:
    """The same HTTP/1 request head with every field NAME written in lower / upper case (field names are
    case-insensitive, RFC 7230 3.2); the request line, the values and whatever follows the head are untouched."""
    if spelling == "rfc":
        return raw
    end = raw.index(b"\r\n\r\n")
    lines = raw[:end].split(b"\r\n")
    out = [lines[0]]
    for line in lines[1:]:
        n, _, v = line.partition(b":")
        out.append((n.lower() if spelling == "lower" else n.upper()) + b":" + v)
    return b"\r\n".join(out) + raw[end:]


def _upgrade(settings_value: Optional[bytes], method: bytes = b"GET", body: Optional[bytes] = None,
             chunked: Optional[List[bytes]] = None, framing_first: bool = False, target: bytes = b"/r1") -> bytes:
    """An h2c upgrade request; a body is framed with Content-Length (`body`) or Transfer-Encoding: chunked (`chunked`),
    the framing header written behind the upgrade headers or (framing_first) in front of them."""
    hs = [(b"Connection", b"Upgrade, HTTP2-Settings"), (b"Upgrade", b"h2c")]
    if settings_value is not None:
        hs.append((b"HTTP2-Settings", settings_value))
    if not framing_first:
        return h1_request(method, target, hs, body=body, chunked=chunked)
    framing = (b"Content-Length", str(len(body)).encode()) if body is not None else (b"Transfer-Encoding", b"chunked")
    head = h1_request(method, b"/r1", [framing] + hs)
    if body is not None:
        return head + body
    return head + b"".join(b"%x\r\n" % len(c) + c + b"\r\n" for c in chunked or [] if c) + b"0\r\n\r\n"


def _openings() -> Dict[str, dict]:
    o: Dict[str, dict] = {}
    two_h1 = h1_request(b"GET", b"/r1") + h1_request(b"POST", b"/r2", body=b"hello")
    exp11 = [("http", "1.1", "/r1", b""), ("http", "1.1", "/r2", b"hello")]
    exp2 = [("http", "2", "/r1", b""), ("http", "2", "/r2", b"hello")]
    # --- ALPN
    o["alpn-h2"] = {"conn": {"carrier": "h2", "tls": True, "alpn": "h2", "h2_script": [("preface",)] + H2_TWO},
                    "expect": exp2}
    o["alpn-h11"] = {"conn": {"carrier": "h1", "tls": True, "alpn": "http/1.1", "methods": [b"GET", b"POST"]},
                     "stages": [two_h1], "expect": exp11}
    o["alpn-none"] = {"conn": {"carrier": "h1", "tls": True, "alpn": None, "methods": [b"GET", b"POST"]},
                      "stages": [two_h1], "expect": exp11}
    # --- cleartext
    o["preface"] = {"conn": {"carrier": "h2pk", "h2_script": [("preface",)] + H2_TWO}, "expect": exp2}
    o["plain-get-post"] = {"conn": {"carrier": "h1", "methods": [b"GET", b"POST"]}, "stages": [two_h1], "expect": exp11}
    o["plain-chunked-get"] = {
        "conn": {"carrier": "h1", "methods": [b"POST", b"GET"]},
        "stages": [h1_request(b"POST", b"/r1", chunked=[b"he", b"llo"]) + h1_request(b"GET", b"/r2")],
        "expect": [("http", "1.1", "/r1", b"hello"), ("http", "1.1", "/r2", b"")]}
    o["plain-10"] = {"conn": {"carrier": "h1", "methods": [b"POST"]},
                     "stages": [h1_request(b"POST", b"/r1", body=b"hello", version=b"1.0")],
                     "expect": [("http", "1.0", "/r1", b"hello")]}
    o["upgrade-unknown"] = {
        "conn": {"carrier": "h1", "methods": [b"GET", b"GET"]},
        "stages": [h1_request(b"GET", b"/r1", [(b"Connection", b"upgrade"), (b"Upgrade", b"foo/2")]) + h1_request(b"GET", b"/r2")],
        "expect": [("http", "1.1", "/r1", b""), ("http", "1.1", "/r2", b"")]}
    # --- h2c upgrade (no body): 101, the request becomes stream 1, trailing bytes are HTTP/2
    for name, settings in (("h2c-default", None), ("h2c-win1", {4: 1})):
        script = [("upgrade_preface",)] + H2_SECOND
        if settings:
            script += [("winup", 1, 100), ("winup", 3, 100)]
        o[name] = {"conn": {"carrier": "h2c", "h2_script": script, "h2_settings": settings},
                   "head": _upgrade(h2c_settings_header(settings)), "expect": exp2}
    o["h2c-empty"] = {"conn": {"carrier": "h2c", "h2_script": [("upgrade_preface",)] + H2_SECOND},
                      "head": _upgrade(b""), "expect": exp2}
    o["h2c-notb64"] = {"conn": {"carrier": "h2c", "h2_script": [("upgrade_preface",)] + H2_SECOND},
                       "head": _upgrade(b"!!*not*base64*!!"), "expect": None}
    # --- h2c upgrade carrying a body: ignored, stays HTTP/1.1
    o["h2c-body"] = {"conn": {"carrier": "h1", "methods": [b"POST", b"GET"]},
                     "stages": [_upgrade(h2c_settings_header(None), b"POST", b"hello") + h1_request(b"GET", b"/r2")],
                     "expect": [("http", "1.1", "/r1", b"hello"), ("http", "1.1", "/r2", b"")]}
    # --- websocket
    o["ws"] = {"conn": {"carrier": "ws/h1"}, "stages": [ws_h1_handshake(b"/ws"), ws_frame(OP_TEXT, b"hi")],
               "expect": [("websocket", "1.1", "/ws", "hi")]}
    # the same opening as browsers spell it: several Connection tokens, mixed case, token order reversed
    ws_tokens = h1_request(b"GET", b"/ws", [(b"Connection", b"keep-alive, Upgrade"), (b"UPGRADE", b"WebSocket"),
                                            (b"Sec-WebSocket-Key", b"dGhlIHNhbXBsZSBub25jZQ=="),
                                            (b"Sec-WebSocket-Version", b"13")])
    o["ws-tokens"] = {"conn": {"carrier": "ws/h1"}, "stages": [ws_tokens, ws_frame(OP_TEXT, b"hi")],
                      "expect": [("websocket", "1.1", "/ws", "hi")]}
    # an h2c upgrade with a body whose framing header comes *after* the Upgrade header (curl's order)
    body_late = (b"POST /r1 HTTP/1.1\r\nHost: hypercorn\r\nConnection: Upgrade, HTTP2-Settings\r\nUpgrade: h2c\r\n"
                 b"HTTP2-Settings: " + h2c_settings_header(None) + b"\r\nContent-Length: 5\r\n\r\nhello")
    o["h2c-body-late"] = {"conn": {"carrier": "h1", "methods": [b"POST", b"GET"]},
                          "stages": [body_late + h1_request(b"GET", b"/r2")],
                          "expect": [("http", "1.1", "/r1", b"hello"), ("http", "1.1", "/r2", b"")]}
    # --- the same with the body framed by Transfer-Encoding: chunked (a body all the same: stays HTTP/1.1, every chunk
    # reaches the application), framing header behind / in front of the upgrade headers; Content-Length in front
    exp_body = [("http", "1.1", "/r1", b"hello"), ("http", "1.1", "/r2", b"")]
    for name, kw in (("h2c-chunked", {"chunked": [b"he", b"llo"]}),
                     ("h2c-chunked-first", {"chunked": [b"he", b"llo"], "framing_first": True}),
                     ("h2c-body-first", {"body": b"hello", "framing_first": True})):
        o[name] = {"conn": {"carrier": "h1", "methods": [b"POST", b"GET"]},
                   "stages": [_upgrade(h2c_settings_header(None), b"POST", **kw) + h1_request(b"GET", b"/r2")],
                   "expect": exp_body}
    # --- a WebSocket client that does not wait for the 101: the upgrade request is immediately followed by its first
    # frame(s), in the same read, in the next one, or with the cut inside a frame.  The application answers the handshake
    # only after the client's last read (gate "h"), so whatever the server makes of a frame that precedes its handshake
    # response, it has to make the same of it for every split (split-dependence); and if it does accept the connection
    # the frames it was sent must reach the application (byte-loss).
    o["ws-early"] = {"conn": {"carrier": "ws/h1"}, "stages": [ws_h1_handshake(b"/ws") + ws_frame(OP_TEXT, b"hi")],
                     "expect": None, "hold": True, "early": ["hi"]}
    o["ws-early2"] = {"conn": {"carrier": "ws/h1"},
                      "stages": [ws_tokens + ws_frame(OP_TEXT, b"hi") + ws_frame(OP_TEXT, b"x" * 130)],
                      "expect": None, "hold": True, "early": ["hi", "x" * 130]}
    o["ws-post"] = {
        "conn": {"carrier": "h1", "methods": [b"POST", b"GET"]},
        "stages": [h1_request(b"POST", b"/r1", [(b"Upgrade", b"websocket"), (b"Connection", b"Upgrade"),
                                                  (b"Sec-WebSocket-Key", b"dGhlIHNhbXBsZSBub25jZQ=="),
                                                  (b"Sec-WebSocket-Version", b"13")], body=b"hello") + h1_request(b"GET", b"/r2")],
        "expect": [("http", "1.1", "/r1", b"hello"), ("http", "1.1", "/r2", b"")]}
    # --- the asterisk-form target (RFC 9112 3.2.4, RFC 9113 8.3.1: "OPTIONS *"): the preflight hypercorn's own comment
    # recommends for an h2c upgrade, and the same request on a prior-knowledge connection - served like any other request
    h2_options = [("headers", 1, h2_request_headers(b"OPTIONS", b"*", scheme=b"http"), True)] + H2_SECOND
    exp_opt = [("http", "2", "*", b""), ("http", "2", "/r2", b"hello")]
    o["h2c-options"] = {"conn": {"carrier": "h2c", "h2_script": [("upgrade_preface",)] + H2_SECOND, "methods": [b"OPTIONS"]},
                        "head": _upgrade(h2c_settings_header(None), b"OPTIONS", target=b"*"), "expect": exp_opt}
    o["preface-options"] = {"conn": {"carrier": "h2pk", "h2_script": [("preface",)] + h2_options}, "expect": exp_opt}
    o["plain-options"] = {"conn": {"carrier": "h1", "methods": [b"OPTIONS", b"POST"]},
                          "stages": [h1_request(b"OPTIONS", b"*") + h1_request(b"POST", b"/r2", body=b"hello")],
                          "expect": [("http", "1.1", "*", b""), ("http", "1.1", "/r2", b"hello")]}
    # --- the configuration axis: a subset of the openings under non-default configuration.  What the client opens with
    # selects the protocol whatever the configuration: raw = h11_pass_raw_headers (the application is handed the field
    # names as the client spelt them - the selection must not depend on that spelling: names as the RFCs print them, all
    # lower case, all upper case), sn = server_names naming the host the requests use (everything is served as before)
    base = dict(o)
    raw = {"h11_pass_raw_headers": True}
    sn = {"server_names": ["hypercorn"]}
    for name, cfgs in (("ws", ("raw", "sn", "raw+sn")), ("ws-tokens", ("raw",)), ("ws-early", ("raw",)), ("ws-post", ("raw",)),
                       ("h2c-default", ("raw", "sn", "raw+sn")), ("h2c-win1", ("raw",)), ("h2c-body", ("raw", "raw+sn")),
                       ("h2c-chunked-first", ("raw",)), ("h2c-options", ("raw",)), ("upgrade-unknown", ("raw",)),
                       ("plain-get-post", ("raw", "sn", "raw+sn")), ("plain-10", ("raw+sn",)), ("preface", ("raw", "sn")),
                       ("alpn-h2", ("sn",))):
        for cfg in cfgs:
            spellings = ("rfc", "lower", "upper") if "raw" in cfg and base[name]["conn"]["carrier"] not in ("h2", "h2pk") else ("rfc",)
            for sp in spellings:
                op = dict(base[name])
                op["config"] = {**(raw if "raw" in cfg else {}), **(sn if "sn" in cfg else {})}
                if "stages" in op:
                    op["stages"] = [_spell(op["stages"][0], sp)] + list(op["stages"][1:])
                elif "head" in op:
                    op["head"] = _spell(op["head"], sp)
                op["variant"] = True
                o[f"{name}@{cfg}" + ("" if sp == "rfc" else f"/{sp}")] = op
    # the spellings under the default configuration as well (cheap controls)
    for name in ("ws", "h2c-default"):
        for sp in ("lower", "upper"):
            op = dict(base[name])
            key = "stages" if "stages" in op else "head"
            op[key] = [_spell(op[key][0], sp)] + list(op[key][1:]) if key == "stages" else _spell(op[key], sp)
            op["variant"] = True
            o[f"{name}/{sp}"] = op
    return o


OPENINGS = _openings()


def stages_of(op: dict) -> List[bytes]:
    if "stages" in op:
        return list(op["stages"])
    conn = op["conn"]
    raw = b"".join(h2_script_bytes(list(conn["h2_script"]), conn.get("h2_settings")))
    return [op.get("head", b"") + raw]


LENGTHS = {n: sum(len(s) for s in stages_of(op)) for n, op in OPENINGS.items()}


def scenarios(tier: str) -> List[Any]:
    out: List[Any] = []
    plain = [n for n in OPENINGS if not OPENINGS[n].get("variant")]
    by_len = sorted(plain, key=lambda n: LENGTHS[n])
    three = by_len[:3] if tier == "quick" else by_len
    for engine in ("asyncio", "trio"):
        for name in OPENINGS:
            variant = OPENINGS[name].get("variant")
            out.append((engine, name, "2way", "eager"))
            if not variant or tier != "quick" or name.endswith(("@raw", "@raw+sn", "@sn")):
                out.append((engine, name, "bytes", "eager"))
            if name in three:
                for mode in three_way_modes(LENGTHS[name]):
                    out.append((engine, name, mode, "eager"))
            if OPENINGS[name].get("hold"):  # (held openings: the release order is fixed, nothing to interleave)
                continue
            if not variant or tier != "quick" or name in GATED_VARIANTS:
                out.append((engine, name, "switch", "gated"))
    return out


GATED_VARIANTS = ("ws@raw", "ws@raw+sn/lower", "h2c-default@raw", "h2c-default@raw+sn/upper", "h2c-body@raw", "h2c-options@raw")


def bounds(tier: str, params: Any) -> dict:
    if params[3] != "gated":
        return {"M": 0, "S": 0, "R": 0}
    return {"M": 1, "S": 2, "R": 0} if tier == "quick" else {"M": 2, "S": 3, "R": 0}


def switch_points(name: str) -> List[int]:
    """Offsets at which the opening request (its head, and its body if it has one) ends and the further traffic starts."""
    op = OPENINGS[name]
    data = b"".join(stages_of(op))
    if op["conn"]["carrier"] in ("h2", "h2pk"):
        return [24]  # the 24-byte connection preface
    head_end = data.index(b"\r\n\r\n") + 4
    head = data[:head_end].lower()
    if b"content-length: 5" in head:
        return [head_end + 5]
    if b"transfer-encoding: chunked" in head:  # body in the same read as the head / in a later one; end of the body
        return [head_end, data.index(b"0\r\n\r\n", head_end) + 5]
    return [head_end]


def scenario_for(params: Any, cuts: Any) -> tuple:
    engine, name, mode, pace = params
    op = OPENINGS[name]
    stages = stages_of(op)
    data = b"".join(stages)
    forced, off = [], 0
    for s in stages[:-1]:
        off += len(s)
        forced.append(off)
    events = []
    pos = 0
    for seg in segments(data, cuts, forced):
        # bytes of a later stage can only be written by a client that has seen the server's 101
        events.append(("data", 0, seg) if not forced or pos < forced[0] else ("cmd", 0, "after101", seg))
        pos += len(seg)
    gated = pace == "gated"
    sources = [("client", events)]
    if gated:
        sources.append(("app", [("release", "g")] * 3))
    if op.get("hold"):
        # fires once the client source has nothing left that can be delivered (bound S = 0: the reads come first)
        sources.append(("hold", [("release", "h")]))
    sc = {"level": "conn", "conns": {0: dict(op["conn"])}, "client_factory": make_xclient,
          "app_factory": paced_app_factory(apps(gated, bool(op.get("hold")))),
          "config": {"keep_alive_timeout": 5, **op.get("config", {})},
          "sources": sources, "midflight": gated, "sigs": gated}
    return engine, sc, {"n_client": len(events)}


def plan(params: Any, chooser: Any) -> tuple:
    if params[2] == "switch":  # cut at the protocol switch point, one byte before and one byte after it
        mode: Any = ("list", lattice(switch_points(params[1]), LENGTHS[params[1]])[1:])
    else:
        mode = params[2]
    cuts = choose_cuts(chooser, LENGTHS[params[1]], mode)
    return scenario_for(params, cuts)


def normalised(w: Any) -> tuple:
    """Observation in which only segmentation-independent facts remain."""
    insts = []
    for i in w.instances:
        msgs = i.delivered()
        body = b"".join(bytes(m.get("body", b"")) for m in msgs if m["type"] == "http.request")
        finals = sum(1 for m in msgs if m["type"] == "http.request" and not m.get("more_body", False))
        other = tuple(norm_msg(m) for m in msgs if m["type"] != "http.request")
        insts.append((i.scope["type"], i.scope.get("http_version"), i.scope.get("path"), i.scope.get("method"),
                      i.scope.get("scheme"), body, finals, other, tuple((norm_msg(s[2]), s[3]) for s in i.sends), i.outcome))
    rec = w.conns[0]
    return (tuple(insts), client_view(rec), rec.handler, rec.closed_at is not None, rec.server_eof_at is not None,
            tuple(sorted(((a[2], a[3], a[4]) for a in w.access), key=repr)))


_BASE: Dict[Any, tuple] = {}


def baseline(params: Any) -> tuple:
    key = (params[0], params[1])
    if key not in _BASE:
        from mc.core import Chooser
        from mc.x_c01c02c13_lib import run_world

        engine, sc, _ = scenario_for((params[0], params[1], "one", "eager"), ())
        _BASE[key] = normalised(run_world(engine, sc, Chooser([])))
    return _BASE[key]


def _diff(a: tuple, b: tuple) -> str:
    names = ("instances", "client-view", "handler", "closed", "server-eof", "access-log")
    return ",".join(n for n, x, y in zip(names, a, b) if x != y)


def oracle(w: Any, params: Any, ctx: Any) -> List[dict]:
    engine, name, mode, pace = params
    op = OPENINGS[name]
    out: List[dict] = []
    obs = normalised(w)
    base = baseline(params)
    if obs != base:
        reads = [len(e[-1]) if e[0] != "release" else e[0] for _, e in w.driver.fired]
        out.append(V("split-dependence", f"{name}:{_diff(obs, base)}",
                     f"events={reads} split: {repr(obs)[:220]} unsplit: {repr(base)[:220]}"))
    exp = op["expect"]
    rec = w.conns[0]
    cl = rec.client
    if op.get("early") is not None and [r["status"] for r in cl.h1.responses][:1] == [101]:
        # the server took the connection as a WebSocket: the frames sent behind the upgrade request are client bytes
        texts = [m.get("text") for i in w.instances if i.scope["type"] == "websocket" for m in i.delivered()
                 if m["type"] == "websocket.receive"]
        if texts != op["early"]:
            out.append(V("byte-loss", f"{name}:accepted-without-the-early-frames",
                         f"handshake answered 101, websocket.receive texts {[t[:8] for t in texts]!r}, client sent "
                         f"{[t[:8] for t in op['early']]!r} behind the upgrade request"))
    if exp is None:
        return out
    if w.driver.pos[0] < ctx["n_client"]:
        out.append(V("byte-loss", f"{name}:client-blocked", f"the connection stopped taking client bytes after "
                                                            f"{w.driver.pos[0]} of {ctx['n_client']} reads"))
    got = [(i.scope["type"], i.scope.get("http_version"), i.scope.get("path")) for i in w.instances]
    if got != [e[:3] for e in exp]:
        out.append(V("selection", f"{name}:" + ("+".join(f"{t}/{v}" for t, v, _ in got) or "none"),
                     f"scopes {got} wanted {[e[:3] for e in exp]}"))
        return out
    for inst, e in zip(w.instances, exp):
        msgs = inst.delivered()
        if e[0] == "http":
            body = b"".join(bytes(m.get("body", b"")) for m in msgs if m["type"] == "http.request")
            finals = [m for m in msgs if m["type"] == "http.request" and not m.get("more_body", False)]
            if body != e[3] or len(finals) != 1:
                out.append(V("byte-loss", f"{name}:{e[2]}", f"instance received {body!r} ({len(finals)} final) client sent {e[3]!r}"))
        else:
            texts = [m.get("text") for m in msgs if m["type"] == "websocket.receive"]
            if texts != [e[3]]:
                out.append(V("byte-loss", f"{name}:{e[2]}", f"websocket.receive texts {texts!r} client sent {[e[3]]!r}"))
    if cl.error is not None:
        out.append(V("client-parse", f"{name}:{cl.error.split(':')[0]}", cl.error))
        return out
    # every request got exactly its response
    if exp[0][0] == "websocket":
        st = [r["status"] for r in cl.h1.responses]
        if st != [101] or cl.ws.messages != [("text", "pong")]:
            out.append(V("response", f"{name}:ws", f"statuses {st} messages {cl.ws.messages}"))
    elif exp[0][1] == "2":
        if op["conn"]["carrier"] == "h2c" and [r["status"] for r in cl.h1.responses] != [101]:
            out.append(V("response", f"{name}:no-101", [r["status"] for r in cl.h1.responses]))
        want = {1: b"r1", 3: b"r2"}
        gotr = {sid: (st["status"], st["body"], st["ended"], st["reset"]) for sid, st in cl.h2.streams.items()}
        if gotr != {sid: (200, b, 1, None) for sid, b in want.items()} or cl.h2.goaway is not None:
            out.append(V("response", f"{name}:h2-streams", f"{gotr} goaway={cl.h2.goaway}"))
    else:
        gotr = [(r["status"], r["body"], r["complete"]) for r in cl.h1.responses]
        want1 = [(200, b"r%d" % (k + 1), True) for k in range(len(exp))]
        if gotr != want1 or cl.h1.leftover:
            out.append(V("response", f"{name}:h1", f"{gotr} wanted {want1}"))
    return out


def observe(w: Any, params: Any, ctx: Any) -> Any:
    # message segmentation seen by the application is part of the outcome digest (not of the metamorphic oracle)
    marks = tuple(tuple(d for _, what, d in i.log if what == "recv-at") for i in w.instances) if params[3] == "gated" else ()
    return (normalised(w), tuple(tuple(len(bytes(m.get("body", b""))) for m in i.delivered() if m["type"] == "http.request")
                                 for i in w.instances), marks)


execute = make_execute(plan, oracle, observe)
