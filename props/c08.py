"""C08 - send back-pressure is applied, bounded, and always released.

An application writes N pieces while the client accepts nothing (transport not reading, or HTTP/2 window
exhausted and no credit).  A *release* event is a separate source, so Explorer A injects it at every point at
which a send can be waiting - mid-body and on the final end-of-body drain.  A sibling HTTP/2 stream and a second
connection must keep progressing.  Three scenario families:

A  placement   N in {1, 4, 16, 64} chunks of 16 KiB (16 KiB .. 1 MiB) on h1 / h2 / ws-over-h2, the client stalled
               before the request; releases: WINDOW_UPDATE, transport resume, RST_STREAM, client EOF, reset, failed
               write, shutdown.  Full (M, S) bounds: the release lands at every boundary.  (Quick tier: sizes whose
               executions cannot differ from N=16 are left to the thorough tier, see _same_as_n16.)
B  close       the SERVER decides to close while a write is blocked at the socket level: client GOAWAY, a
               malformed HTTP/2 frame (connection error: GOAWAY + close), a malformed pipelined HTTP/1 request
               (not a release: a response in flight is never truncated), and a stall that begins after the
               response head ("midpause": the application is parked on a gate, the peer stops reading, the gate
               opens) so that on trio the socket write is held by the HTTP/2 send task and the application's sends
               queue behind it in the stream buffer.  Also WebSocket-over-HTTP/1.  Single path per order of the
               sources (M=0): the stall is established at quiescence, the interleaving is not the point (only
               h2 / pause / GOAWAY gets the full quick bounds).
   read timeout  (release kind "rtimeout", families A, B and C) config.read_timeout = 3 (every other scenario: None)
               and the release source is two jumps of the clock to the next armed deadline: the stalled client is also
               SILENT, the server's reader waits for its bytes and gives up after read_timeout, which closes the
               connection.  Demanded from the moment the transport is closed (a close that waits behind data the
               peer does not take is not yet one): no send is left waiting.
   PRIORITY    (release kinds winprio1 / winprio2 / prio_resume, HTTP/2) the client lifts the pressure AND re-prioritises
               the stalled stream: connection credit, then WINDOW_UPDATE(stream) + PRIORITY(stream) in one segment
               (one read) or in two (N=1, the PRIORITY placed mid-flight); PRIORITY(stream) while the transport is
               stalled (before the request / after the response head), then the peer resumes reading.  N=16 (sends
               waiting mid-body) and N=1 (only the final end-of-body drain waits).  Single path (M=0) otherwise.
C  piece size  the same response written in SMALL pieces (1000 B x 400 and 512 B x 640 in the quick tier: 2.4x /
               2x BOUND, so a response that is buffered whole is seen whatever the size) on h1 (chunked), ws-over-h1
               (one message per piece), h2 and ws-over-h2 (the application yields after each piece, so every piece is
               its own small DATA frame) against a transport that does not read or a closed window.  M=0.

Oracle (black box)
  held-exceeds-bound   at a quiescent point: bytes submitted through send() minus body bytes the client has
                       received > BOUND (a constant, independent of N and of the piece size) while the client
                       grants nothing
  sibling-blocked      the sibling stream / the other connection did not complete
  send-never-released  after the release event, at final quiescence a send() is still pending
  not-delivered        pressure was lifted (credit / resume) but the response did not complete
"""
from __future__ import annotations

from typing import Any, List

import h2.settings

from mc.clients import (OP_BIN, Client, h1_request, h2_request_headers, make_client, raw_h2_frame, ws_frame, ws_h1_handshake,
                        ws_h2_headers)
from mc.explore import V
from mc.harness import internal_errors, std_execute

ID = "C08"
LEVEL = "model_checking"
TECHNIQUE = ("stateless deviation-bounded exploration of release events (credit, resume, credit/resume combined with a "
             "PRIORITY frame for the stalled stream, reset, EOF, failed write, "
             "client GOAWAY, connection error, shutdown, expiry of config.read_timeout under clock jumps) against continuous application writes of several piece "
             "sizes on the real H11Protocol/H2Protocol/StreamBuffer/WSStream/TCPServer; black-box held-bytes "
             "monitor at every quiescent point")
RULE = ("scenario = engine x carrier(h1,ws/h1,h2,ws/h2) x N pieces x piece size x pressure kind(transport stalled "
        "before the request | after the response head | window 0) x release kind; release event injected at every "
        "boundary within (M,S) bounds; non-trivial = instance ran and non-default choice taken; distinct by "
        "observation digest")
ASSUMPTIONS = [
    "BOUND = 160 KiB covers the documented buffers (HTTP/2 stream buffer high-water 32 KiB + asyncio transport "
    "high-water 64 KiB + one 16 KiB chunk in flight in each) with slack; the check is that it grows neither with N "
    "nor with a smaller piece size (the same constant is used for 512 B pieces)",
    "trio's stream has no user-space buffer (send_all blocks at once), asyncio's transport buffers up to its high-water mark",
    "a client GOAWAY / a connection error closes the connection as far as the sender is concerned: a release is "
    "demanded from the moment the server has read it, whether or not the close has completed on the wire",
    "read timeout: time passes only at quiescence, by jumps to the next armed deadline (any connection's); the release "
    "of waiting sends is demanded only once the server's transport of the stalled connection is closed - with the "
    "peer not reading, asyncio's close waits for its write buffer to drain and nothing is demanded meanwhile",
]
BOUNDS_DOC = {
    "quick": "PRIORITY kinds: M=0, S<=1 (h2 window 0 N in {1,16} one read; h2 pause / midpause N=16 PRIORITY then resume), two "
             "reads: N=1, M<=1, S=0; family A: M<=1, S<=2 on N in {1,4,16} (N=64, and the no-op failed write under a transport stall: M=0, "
             "S<=1; N=4 only none/eof; N=1,4,64 skipped where identical to N=16); family B: M=0, S<=1, N=16 "
             "(h2/pause/GOAWAY: M<=1, S<=2); family C: M=0, S<=1, pieces 1000 B x 400, 512 B x 640; read timeout (3 s, two "
             "clock jumps): family A on N in {1,16} with M=0, S<=2, family B (midpause on h1/h2/ws-h2, ws/h1 "
             "pause) and family C (window 0) with theirs",
    "thorough": "family A: M<=2, S<=3, trio R<=1 (N=64: M<=1, S<=2); family B: M<=1, S<=2; family C: M=0, S<=2, "
                "pieces 100 B x 2400, 512 B x 640, 1000 B x 400, 1023/1024 B x 320, 4096 B x 96; read timeout on every N "
                "and piece size",
}
BUDGET = {"quick": 300, "thorough": 1800}

IWS = h2.settings.SettingCodes.INITIAL_WINDOW_SIZE
CHUNK = 16384
SIB, BIG = 1, 3  # HTTP/2 stream ids: the sibling is requested first
BOUND = 160 * 1024

CARRIER_PRESSURE = [("h1", "pause"), ("h2", "win0"), ("h2", "pause"), ("ws/h2", "win0")]
RELEASES = {
    "h1": ["none", "resume", "eof", "reset", "terminate", "rtimeout"],
    "h2": ["none", "credit", "resume", "rst", "eof", "reset", "wfail", "terminate", "rtimeout"],
    "ws/h2": ["none", "credit", "rst", "eof", "reset", "rtimeout"],
}
READ_TIMEOUT = 3  # release kind "rtimeout": config.read_timeout (shorter than keep_alive_timeout = 5)
# Family B: (carrier, pressure, releases).  "midpause": the peer stops reading once the response head is out.
CLOSE_FAMILY = [
    ("h2", "pause", ["goaway", "badframe"]),
    ("h2", "midpause", ["none", "resume", "goaway", "badframe", "rst", "eof", "reset", "terminate", "rtimeout"]),
    ("h2", "win0", ["goaway", "badframe"]),
    # HTTP/2 in the clear (prior knowledge): the transport is a plain socket stream - it HAS send_eof(), which on trio
    # refuses (BusyResourceError) while another task is inside the blocked send_all(): closing must still close
    ("h2pk", "pause", ["goaway"]),
    ("h2pk", "midpause", ["goaway", "eof", "reset"]),
    ("ws/h2", "win0", ["goaway", "badframe"]),
    ("ws/h2", "midpause", ["none", "resume", "goaway", "reset", "rtimeout"]),
    ("h1", "pause", ["badreq"]),
    ("h1", "midpause", ["none", "resume", "badreq", "eof", "reset", "terminate", "rtimeout"]),
    ("ws/h1", "pause", ["none", "resume", "eof", "reset", "terminate", "rtimeout"]),
    ("ws/h1", "midpause", ["none", "resume", "reset"]),
]
# Family C: piece size -> number of pieces (total well above BOUND, whatever the size)
PIECES = {"quick": {1000: 400, 512: 640},
          "thorough": {100: 2400, 512: 640, 1000: 400, 1023: 320, 1024: 320, 4096: 96}}
PIECE_FAMILY = [
    ("h1", "pause", ["none", "resume", "reset"]),
    ("ws/h1", "pause", ["none", "resume", "reset"]),
    ("h2", "pause", ["none", "resume", "goaway"]),
    ("h2", "win0", ["none", "credit", "rtimeout"]),
    ("ws/h2", "win0", ["none", "credit", "rtimeout"]),
]
# PRIORITY family: release kinds in which the client, while lifting the pressure, also re-prioritises the stalled stream
# (RFC 9113 5.3: PRIORITY is legal for a stream in any state; the priority tree is part of "which streams may send").
#   winprio1     connection credit, then WINDOW_UPDATE(stream) + PRIORITY(stream) in ONE segment (one read)
#   winprio2     the same frames in two segments (N=1: the PRIORITY is placed mid-flight, M<=1)
#   prio_resume  PRIORITY(stream) while the transport is stalled, then the peer resumes reading
# N=16: sends waiting mid-body; N=1: the only waiting send is the final end-of-body drain.  Single path (M=0).
PRIO_RELEASES = ("winprio1", "winprio2", "prio_resume")
PRIO_FAMILY = [
    ("h2", "win0", 16, "winprio1"), ("h2", "win0", 1, "winprio1"), ("h2", "win0", 1, "winprio2"),
    ("h2", "pause", 16, "prio_resume"), ("h2", "midpause", 16, "prio_resume"),
]
# Events that do not lift the pressure and do not close the connection from the sender's point of view:
# a client half-close while it still does not read, and the start of a graceful shutdown (in-flight requests
# may finish).  They are explored for the safety clauses only; no release is demanded after them.
# Likewise a failed write that never happens because nothing is written (window 0), an RST_STREAM while the
# *transport* is the bottleneck (the blocked write is below the stream layer), and a malformed pipelined
# HTTP/1 request (it is not even parsed before the response in flight completes).
NOT_A_RELEASE = {("pause", "eof"), ("pause", "terminate"), ("win0", "terminate"), ("pause", "wfail"),
                 ("win0", "wfail"), ("pause", "rst"), ("pause", "badreq")}


def scenarios(tier: str) -> List[Any]:
    out = []
    for engine in ("asyncio", "trio"):
        for carrier, pressure in CARRIER_PRESSURE:
            for n in (1, 4, 16, 64):  # N=1: the only waiting send is the final end-of-body drain
                for rel in RELEASES[carrier]:
                    if rel == "resume" and pressure != "pause":
                        continue
                    if rel == "credit" and pressure != "win0":
                        continue
                    if tier == "quick" and n == 4 and rel not in ("none", "eof"):
                        continue
                    if tier == "quick" and rel == "rtimeout" and n not in (1, 16):
                        continue  # the final drain (N=1) and a mid-body wait (N=16)
                    if tier == "quick" and n != 16 and _same_as_n16(engine, pressure, rel):
                        continue
                    out.append((engine, carrier, pressure, n, rel, CHUNK))
        for carrier, pressure, rels in CLOSE_FAMILY:
            for rel in rels:
                out.append((engine, carrier, pressure, 16, rel, CHUNK))
        for carrier, pressure, n, rel in PRIO_FAMILY:
            out.append((engine, carrier, pressure, n, rel, CHUNK))
        for piece, n in sorted(PIECES[tier].items()):
            for carrier, pressure, rels in PIECE_FAMILY:
                for rel in rels:
                    out.append((engine, carrier, pressure, n, rel, piece))
    return out


def _same_as_n16(engine: str, pressure: str, rel: str) -> bool:
    """Quick tier: sizes whose executions cannot differ from N=16 (kept in the thorough tier all the same)."""
    if (pressure, rel) == ("pause", "wfail"):
        return True  # nothing is written while the peer does not read: the armed failure never happens
    # trio's stream has no user-space buffer: with the peer stalled before the request the response HEAD is the
    # write that blocks, the body is never submitted, and none of these events lets the response continue
    return engine == "trio" and pressure == "pause" and rel in ("eof", "reset", "rst", "terminate")


def family(params: Any) -> str:
    engine, carrier, pressure, n, rel, piece = params
    if piece != CHUNK:
        return "C"
    if rel in PRIO_RELEASES:
        return "B"
    if pressure == "midpause" or carrier == "ws/h1" or rel in ("goaway", "badframe", "badreq"):
        return "B"
    return "A"


def bounds(tier: str, params: Any) -> dict:
    fam = family(params)
    if tier == "quick":
        if params[4] == "winprio2":
            return {"M": 1, "S": 0, "R": 0}  # two reads: the PRIORITY frame has to land before the server has run dry
        if params[1:5] == ("h2", "pause", 16, "goaway"):
            return {"M": 1, "S": 2, "R": 0}  # the one server-side close whose placement among the writes is explored
        if fam != "A" or params[3] == 64:  # 1 MiB responses are expensive: placement is explored on N=16, size on N=64
            return {"M": 0, "S": 1, "R": 0}
        if params[2:5:2] == ("pause", "wfail"):
            return {"M": 0, "S": 1, "R": 0}  # a no-op while the peer does not read (see _same_as_n16)
        if params[4] == "rtimeout":
            return {"M": 0, "S": 2, "R": 0}  # clock jumps happen at quiescence only: mid-flight injections add little
        return {"M": 1, "S": 2, "R": 0}
    if fam == "C":
        return {"M": 0, "S": 2, "R": 0}
    if fam == "B" or params[3] == 64:
        return {"M": 1, "S": 2, "R": 0}
    return {"M": 2, "S": 3, "R": 1 if params[0] == "trio" else 0}


def body_app(n: int, piece: int = CHUNK, gate: bool = False, paced: bool = False) -> list:
    # 16 KiB chunks go out under a content-length, small pieces as a stream (chunked on HTTP/1.1)
    headers = [(b"content-length", b"%d" % (n * piece))] if piece == CHUNK else []
    prog: list = [("recv_body",), ("send", {"type": "http.response.start", "status": 200, "headers": headers})]
    if gate:
        prog.append(("gate", "g"))
    for i in range(n):
        prog.append(("send", {"type": "http.response.body", "body": bytes([65 + i % 26]) * piece, "more_body": i < n - 1}))
        if paced:
            prog.append(("sleep", 0))
    return prog


def ws_app(n: int, piece: int = CHUNK, gate: bool = False, paced: bool = False) -> list:
    prog: list = [("recv",), ("send", {"type": "websocket.accept"})]
    if gate:
        prog.append(("gate", "g"))
    for i in range(n):
        prog.append(("send", {"type": "websocket.send", "bytes": bytes([65 + i % 26]) * piece}))
        if paced:
            prog.append(("sleep", 0))
    prog.append(("send", {"type": "websocket.close", "code": 1000}))
    return prog


SMALL = [("recv_body",), ("send", {"type": "http.response.start", "status": 200, "headers": [(b"content-length", b"3")]}),
         ("send", {"type": "http.response.body", "body": b"sib", "more_body": False})]
BAD_FRAME = raw_h2_frame(0, 0, 0, b"x")  # DATA on stream 0: a connection error (RFC 9113 6.1)
BAD_REQUEST = b"\x00\x01 / HTTP/1.1\r\n\r\n"  # pipelined behind the request being answered


def build(params: Any) -> tuple:
    engine, carrier, pressure, n, rel, piece = params
    conn0: dict = {"carrier": carrier}
    mid = pressure == "midpause"
    pre: list = [("pause", 0)] if pressure == "pause" else []
    post: list = [("pause", 0), ("release", "g")] if mid else []
    if carrier == "h1":
        conn0["methods"] = [b"GET"]
        client = pre + [("data", 0, h1_request(b"GET", b"/big"))] + post
        apps = {"http:/big": body_app(n, piece, mid), "http:/other": SMALL}
    elif carrier == "ws/h1":
        client = pre + [("data", 0, ws_h1_handshake(b"/big"))] + post
        apps = {"websocket": ws_app(n, piece, mid), "http:/other": SMALL}
    else:
        if carrier == "h2pk":
            conn0.update(auto_ack=False)
        else:
            conn0.update(tls=True, alpn="h2", auto_ack=False)
        if pressure == "win0":
            conn0["h2_settings"] = {IWS: 0}
        else:  # transport pressure only: take HTTP/2 flow control out of the picture
            conn0["h2_settings"] = {IWS: 2 ** 30}
            pre = [("cmd", 0, "winup", 0, 2 ** 30)] + pre
        # Small pieces over HTTP/2: the application yields to the event loop after each (a ticker / event stream), so
        # that every piece travels as its own small DATA frame instead of being coalesced in the stream buffer.
        paced = piece != CHUNK
        if carrier in ("h2", "h2pk"):
            sch = b"http" if carrier == "h2pk" else b"https"
            client = [("cmd", 0, "preface"), ("cmd", 0, "headers", SIB, h2_request_headers(b"GET", b"/sib", scheme=sch), True)] + pre + \
                     [("cmd", 0, "headers", BIG, h2_request_headers(b"GET", b"/big", scheme=sch), True)] + post
            apps = {"http:/big": body_app(n, piece, mid, paced), "http:/sib": SMALL, "http:/other": SMALL}
        else:
            client = [("cmd", 0, "preface"), ("cmd", 0, "ws_open", BIG), ("cmd", 0, "headers", SIB, h2_request_headers(b"GET", b"/sib"), True)] + \
                     pre + [("cmd", 0, "headers", BIG, ws_h2_headers(b"/big"), False)] + post
            apps = {"websocket": ws_app(n, piece, mid, paced), "http:/sib": SMALL, "http:/other": SMALL}
    big = 4 * 1024 * 1024
    release = {
        "none": [], "resume": [("resume", 0)], "eof": [("eof", 0)], "reset": [("reset", 0)], "wfail": [("wfail", 0)],
        "terminate": [("terminate",)], "rst": [("cmd", 0, "rst", BIG, 8)],
        "credit": [("cmd", 0, "winup", BIG, big), ("cmd", 0, "winup", 0, big)],
        "goaway": [("cmd", 0, "goaway")], "badframe": [("data", 0, BAD_FRAME)], "badreq": [("data", 0, BAD_REQUEST)],
        "rtimeout": [("tick",), ("tick",)],
        "winprio1": [("cmd", 0, "winup", SIB, big), ("cmd", 0, "winup", 0, big),
                     ("cmd", 0, "batch", ("winup", BIG, big), ("prio", BIG, 0, 32, False))],
        "winprio2": [("cmd", 0, "winup", SIB, big), ("cmd", 0, "winup", 0, big),
                     ("cmd", 0, "winup", BIG, big), ("cmd", 0, "prio", BIG, 0, 32, False)],
        "prio_resume": [("cmd", 0, "prio", BIG, 0, 32, False), ("resume", 0)],
    }[rel]
    if rel == "credit" and pressure == "win0" and carrier == "h2":
        release = [("cmd", 0, "winup", SIB, big)] + release
    other = [("connect", 1, {"carrier": "h1", "methods": [b"GET"]}), ("data", 1, h1_request(b"GET", b"/other"))]
    sources = [("client", client), ("release", release), ("other", other)]
    sc = {"level": "conn", "conns": {0: conn0}, "client_factory": make_client, "apps": apps,
          "config": {"keep_alive_timeout": 5}, "sources": sources, "trio_rev": True, "monitor": monitor}
    if rel == "rtimeout":
        sc["config"]["read_timeout"] = READ_TIMEOUT
    if rel in PRIO_RELEASES:
        sc["client_factory"] = lambda world, k, opts: BatchClient(opts)
    return engine, sc


class BatchClient(Client):
    """("cmd", k, "batch", (name, *args), ...): several client frames written as ONE segment (one read for the server)."""

    def command(self, ev: tuple) -> bytes:
        if ev[2] == "batch":
            return b"".join(Client.command(self, ("cmd", ev[1]) + tuple(sub)) for sub in ev[3:])
        return Client.command(self, ev)

    def cmd_enabled(self, ev: tuple) -> bool:
        if ev[2] == "batch":
            return all(Client.cmd_enabled(self, ("cmd", ev[1]) + tuple(sub)) for sub in ev[3:])
        return Client.cmd_enabled(self, ev)


def _big(w: Any) -> Any:
    for i in w.instances:
        if i.scope.get("path") == "/big":
            return i
    return None


def _delivered(w: Any) -> int:
    cl = w.conns[0].client
    if cl.h2 is not None:
        st = cl.h2.streams.get(BIG)
        return 0 if st is None else len(st["body"])
    if cl.ws is not None:
        return sum(len(m[1]) for m in cl.ws.messages)
    if cl.h1 is not None and cl.h1.responses:
        return len(cl.h1.responses[0]["body"])
    return 0


def _submitted(inst: Any) -> int:
    return sum(len(s[2].get("body", b"") or s[2].get("bytes", b"") or b"") for s in inst.sends
               if s[2]["type"] in ("http.response.body", "websocket.send"))


def _pressure_on(w: Any) -> bool:
    """The client still grants nothing: no release event fired yet and connection 0 alive."""
    rec = w.conns[0]
    if rec.closed_at is not None or rec.lost_at is not None or rec.client_eof or rec.client_reset:
        return False
    src = [i for i, (n, _) in enumerate(w.driver.sources) if n == "release"][0]
    return w.driver.pos[src] == 0


def monitor(w: Any) -> None:
    inst = _big(w)
    if inst is None or not _pressure_on(w):
        return
    held = _submitted(inst) - _delivered(w)
    w.max_held = max(getattr(w, "max_held", 0), held)


def oracle(w: Any, params: Any) -> List[dict]:
    engine, carrier, pressure, n, rel, piece = params
    out: List[dict] = []
    tag = f"{carrier}:{pressure}:{rel}"
    if rel in ("goaway", "badframe"):
        tag += f":{engine}"  # how a close is carried out is the worker's business: findings here are per engine
    size = "" if piece == CHUNK else f":p{piece}"
    h2carrier = carrier in ("h2", "ws/h2", "h2pk")
    stalled = "pause" if pressure == "midpause" else pressure  # which layer holds the data back
    inst = _big(w)
    rec = w.conns[0]
    monitor(w)
    held = getattr(w, "max_held", 0)
    if held > BOUND:
        out.append(V("held-exceeds-bound", f"{carrier}:{pressure}:n{n}{size}",
                     f"held {held} bytes > {BOUND} with N={n} x {piece} B ({n * piece} B response)"))
    # siblings
    fired = [e for _, e in w.driver.fired]
    all_other = ("data", 1, h1_request(b"GET", b"/other")) in fired
    if all_other and rel == "rtimeout":
        # the other connection has the read deadline too: a request sent at the very instant it expires may lose
        t_req = next(t for t, e in w.driver.fired if e == ("data", 1, h1_request(b"GET", b"/other")))
        all_other = t_req < w.conns[1].opened_at + READ_TIMEOUT
    if all_other and rel != "terminate":  # connections arriving after shutdown began are closed at once (C15)
        r1 = w.conns[1].client.h1.responses
        if not (r1 and r1[0]["complete"] and r1[0]["body"] == b"sib"):
            out.append(V("sibling-blocked", f"{tag}:other-connection", f"responses {r1}"))
    if h2carrier:
        sib_requested = any(e[0] == "cmd" and e[2] == "headers" and e[3] == SIB for e in fired)
        st3 = rec.client.h2.streams.get(SIB)
        sib_credit = pressure != "win0" or any(e[0] == "cmd" and e[2] == "winup" and e[3] == SIB for e in fired)
        conn_alive = rec.closed_at is None and rec.lost_at is None and not rec.client_eof and not rec.client_reset
        # once the client has said GOAWAY / has been found at fault nothing more is owed on the connection
        conn_alive = conn_alive and not any(e in (("cmd", 0, "goaway"), ("data", 0, BAD_FRAME)) for e in fired)
        if sib_requested and conn_alive and stalled != "pause" and st3 is not None and st3["headers"] is None:
            out.append(V("sibling-blocked", f"{tag}:stream3-no-headers", "sibling stream got no response head"))
        if sib_requested and conn_alive and sib_credit and not _transport_paused(w) and \
                (st3 is None or not st3["ended"] or st3["body"] != b"sib"):
            out.append(V("sibling-blocked", f"{tag}:stream3", f"sibling stream state {st3}"))
    # release
    not_release = (stalled, rel) in NOT_A_RELEASE
    if h2carrier and (stalled, rel) == ("pause", "eof"):
        # on HTTP/2 the application's send waits in the per-stream buffer, not in the transport: the peer's EOF
        # closes the connection as far as the protocol is concerned and must release it
        not_release = False
    released = not _pressure_on(w) and rel != "none" and not not_release
    if rel == "rtimeout":
        # a clock jump is not itself a release (it may have fired another connection's deadline, or the idle timer
        # before the request): the read timeout has done its work once the server's transport is closed
        released = rec.closed_at is not None
    if pressure == "midpause" and ("release", "g") not in fired:
        released = False  # the release came before the stall: the application is parked on the harness's own gate
    if inst is not None and released:
        pend = [s for s in inst.sends if s[3] == "pending"]
        if pend and h2carrier and (stalled, rel) == ("pause", "eof") and pend[0][2]["type"] not in ("http.response.body", "websocket.send"):
            pend = []  # a response head waits in the transport write itself, which an EOF cannot release
        if pend:
            out.append(V("send-never-released", f"{tag}{size}", f"send #{inst.sends.index(pend[0])} of {len(inst.sends)} still pending; outcome={inst.outcome}"))
        if rel in ("credit", "resume") + PRIO_RELEASES and not pend and rec.closed_at is None:
            src = [i for i, (nm, _) in enumerate(w.driver.sources) if nm == "release"][0]
            all_released = w.driver.pos[src] == len(w.driver.sources[src][1])
            if all_released and _delivered(w) != n * piece and carrier != "ws/h2":
                out.append(V("not-delivered", f"{tag}{size}", f"delivered {_delivered(w)} of {n * piece}"))
    # ... and every OTHER application of that connection: once the connection is over (the client said GOAWAY, went
    # away or reset it) none of their sends may stay parked either - e.g. a response head queued behind the write that
    # was blocked on the stalled peer (the protocol-error close is the known finding and keeps its own key above)
    if released and rel in ("goaway", "eof", "reset") and not not_release:
        for other in w.instances:
            if other is inst or other.type not in ("http", "websocket") or other.scope.get("path") == "/other":
                continue
            pend = [s for s in other.sends if s[3] == "pending"]
            if pend and h2carrier and (stalled, rel) == ("pause", "eof") and pend[0][2]["type"] not in ("http.response.body", "websocket.send"):
                pend = []  # (as above: a head inside the transport write is not released by an EOF)
            if pend:
                out.append(V("send-never-released", f"{tag}{size}:sibling",
                             f"{other.scope.get('path')}: send #{other.sends.index(pend[0])} of {len(other.sends)} still pending"))
    out.extend(internal_errors(w))
    return out


def _transport_paused(w: Any) -> bool:
    # from the events, not from the fake transport: the trio engine un-pauses every stream by force at teardown
    paused = False
    for _, e in w.driver.fired:
        if e == ("pause", 0):
            paused = True
        elif e == ("resume", 0):
            paused = False
    return paused


execute = std_execute(build, oracle)


# wave h documentation (what was added to the enumeration; see DESIGN.md 11.0)
_WAVE_H = '+ close family over cleartext HTTP/2 (h2pk: the stream has send_eof()): pause x goaway, midpause x {goaway,eof,reset}; after goaway/eof/reset no send of ANY application of the connection stays parked'
RULE = RULE + " " + _WAVE_H
BOUNDS_DOC = {k: v + " " + _WAVE_H for k, v in BOUNDS_DOC.items()}
