"""C08 - send back-pressure is applied, bounded, and always released.

An application writes N chunks of 16 KiB (N in {4, 16, 64}: 64 KiB .. 1 MiB) while the client accepts
nothing (transport not reading, or HTTP/2 window exhausted and no credit).  A *release* event
(WINDOW_UPDATE, transport resume, RST_STREAM, client EOF, reset, failed write, shutdown) is a separate
source, so Explorer A injects it at every point at which a send can be waiting - mid-body and on the
final end-of-body drain.  A sibling HTTP/2 stream and a second connection must keep progressing.

Oracle (black box)
  held-exceeds-bound   at a quiescent point: bytes submitted through send() minus body bytes the client has
                       received > BOUND (a constant, independent of N) while the client grants nothing
  sibling-blocked      the sibling stream / the other connection did not complete
  send-never-released  after the release event, at final quiescence a send() is still pending
  not-delivered        pressure was lifted (credit / resume) but the response did not complete
"""
from __future__ import annotations

from typing import Any, List

import h2.settings

from mc.clients import OP_BIN, h1_request, h2_request_headers, make_client, ws_frame, ws_h2_headers
from mc.explore import V
from mc.harness import internal_errors, std_execute

ID = "C08"
LEVEL = "model_checking"
TECHNIQUE = ("stateless deviation-bounded exploration of release events against continuous application writes on the "
             "real H2Protocol/StreamBuffer/TCPServer; black-box held-bytes monitor at every quiescent point")
RULE = ("scenario = engine x carrier(h1,h2,ws/h2) x N chunks x pressure kind x release kind; release event injected at "
        "every boundary within (M,S) bounds; non-trivial = instance ran and non-default choice taken; distinct by "
        "observation digest")
ASSUMPTIONS = [
    "BOUND = 160 KiB covers the documented buffers (HTTP/2 stream buffer high-water 32 KiB + asyncio transport "
    "high-water 64 KiB + one 16 KiB chunk in flight in each) with slack; the check is that it does not grow with N",
    "trio's stream has no user-space buffer (send_all blocks at once), asyncio's transport buffers up to its high-water mark",
]
BOUNDS_DOC = {"quick": "M<=1, S<=2; N in {4,16,64}", "thorough": "M<=2, S<=3, trio R<=1"}
BUDGET = {"quick": 300, "thorough": 1800}

IWS = h2.settings.SettingCodes.INITIAL_WINDOW_SIZE
CHUNK = 16384
SIB, BIG = 1, 3  # HTTP/2 stream ids: the sibling is requested first
BOUND = 160 * 1024

CARRIER_PRESSURE = [("h1", "pause"), ("h2", "win0"), ("h2", "pause"), ("ws/h2", "win0")]
RELEASES = {
    "h1": ["none", "resume", "eof", "reset", "terminate"],
    "h2": ["none", "credit", "resume", "rst", "eof", "reset", "wfail", "terminate"],
    "ws/h2": ["none", "credit", "rst", "eof", "reset"],
}
# Events that do not lift the pressure and do not close the connection from the sender's point of view:
# a client half-close while it still does not read, and the start of a graceful shutdown (in-flight requests
# may finish).  They are explored for the safety clauses only; no release is demanded after them.
# Likewise a failed write that never happens because nothing is written (window 0), and an RST_STREAM while the
# *transport* is the bottleneck (the blocked write is below the stream layer).
NOT_A_RELEASE = {("pause", "eof"), ("pause", "terminate"), ("win0", "terminate"), ("pause", "wfail"),
                 ("win0", "wfail"), ("pause", "rst")}


def scenarios(tier: str) -> List[Any]:
    out = []
    for engine in ("asyncio", "trio"):
        for carrier, pressure in CARRIER_PRESSURE:
            for n in (1, 4, 16, 64):  # N=1: the only waiting send is the final end-of-body drain
                for rel in RELEASES[carrier]:
                    if rel == "resume" and pressure != "pause":
                        continue
                    if rel == "credit" and pressure != "win0":
                        continue
                    if tier == "quick" and n == 4 and rel not in ("none", "eof"):
                        continue
                    out.append((engine, carrier, pressure, n, rel))
    return out


def bounds(tier: str, params: Any) -> dict:
    if tier == "quick":
        if params[3] == 64:  # 1 MiB responses are expensive: placement is explored on N=16, size on N=64
            return {"M": 0, "S": 1, "R": 0}
        return {"M": 1, "S": 2, "R": 0}
    if params[3] == 64:
        return {"M": 1, "S": 2, "R": 0}
    return {"M": 2, "S": 3, "R": 1 if params[0] == "trio" else 0}


def body_app(n: int) -> list:
    prog: list = [("recv_body",), ("send", {"type": "http.response.start", "status": 200,
                                            "headers": [(b"content-length", b"%d" % (n * CHUNK))]})]
    for i in range(n):
        prog.append(("send", {"type": "http.response.body", "body": bytes([65 + i % 26]) * CHUNK, "more_body": i < n - 1}))
    return prog


def ws_app(n: int) -> list:
    prog: list = [("recv",), ("send", {"type": "websocket.accept"})]
    for i in range(n):
        prog.append(("send", {"type": "websocket.send", "bytes": bytes([65 + i % 26]) * CHUNK}))
    prog.append(("send", {"type": "websocket.close", "code": 1000}))
    return prog


SMALL = [("recv_body",), ("send", {"type": "http.response.start", "status": 200, "headers": [(b"content-length", b"3")]}),
         ("send", {"type": "http.response.body", "body": b"sib", "more_body": False})]


def build(params: Any) -> tuple:
    engine, carrier, pressure, n, rel = params
    conn0: dict = {"carrier": carrier}
    pre: list = []
    if pressure == "pause":
        pre = [("pause", 0)]
    if carrier == "h1":
        conn0["methods"] = [b"GET"]
        client = pre + [("data", 0, h1_request(b"GET", b"/big"))]
        apps = {"http:/big": body_app(n), "http:/other": SMALL}
    else:
        conn0.update(tls=True, alpn="h2", auto_ack=False)
        if pressure == "win0":
            conn0["h2_settings"] = {IWS: 0}
        else:  # transport pressure only: take HTTP/2 flow control out of the picture
            conn0["h2_settings"] = {IWS: 2 ** 30}
            pre = [("cmd", 0, "winup", 0, 2 ** 30)] + pre
        if carrier == "h2":
            client = [("cmd", 0, "preface"), ("cmd", 0, "headers", SIB, h2_request_headers(b"GET", b"/sib"), True)] + pre + \
                     [("cmd", 0, "headers", BIG, h2_request_headers(b"GET", b"/big"), True)]
            apps = {"http:/big": body_app(n), "http:/sib": SMALL, "http:/other": SMALL}
        else:
            client = [("cmd", 0, "preface"), ("cmd", 0, "ws_open", BIG), ("cmd", 0, "headers", SIB, h2_request_headers(b"GET", b"/sib"), True),
                      ("cmd", 0, "headers", BIG, ws_h2_headers(b"/big"), False)]
            apps = {"websocket": ws_app(n), "http:/sib": SMALL, "http:/other": SMALL}
    big = 4 * 1024 * 1024
    release = {
        "none": [], "resume": [("resume", 0)], "eof": [("eof", 0)], "reset": [("reset", 0)], "wfail": [("wfail", 0)],
        "terminate": [("terminate",)], "rst": [("cmd", 0, "rst", BIG, 8)],
        "credit": [("cmd", 0, "winup", BIG, big), ("cmd", 0, "winup", 0, big)],
    }[rel]
    if rel == "credit" and pressure == "win0" and carrier == "h2":
        release = [("cmd", 0, "winup", SIB, big)] + release
    other = [("connect", 1, {"carrier": "h1", "methods": [b"GET"]}), ("data", 1, h1_request(b"GET", b"/other"))]
    sources = [("client", client), ("release", release), ("other", other)]
    sc = {"level": "conn", "conns": {0: conn0}, "client_factory": make_client, "apps": apps,
          "config": {"keep_alive_timeout": 5}, "sources": sources, "trio_rev": True, "monitor": monitor}
    return engine, sc


def _big(w: Any) -> Any:
    for i in w.instances:
        if i.scope.get("path") == "/big":
            return i
    return None


def _delivered(w: Any) -> int:
    cl = w.conns[0].client
    if cl.h2 is not None:
        st = cl.h2.streams.get(BIG)
        return 0 if st is None else len(st["body"])
    if cl.h1 is not None and cl.h1.responses:
        return len(cl.h1.responses[0]["body"])
    return 0


def _submitted(inst: Any) -> int:
    return sum(len(s[2].get("body", b"") or s[2].get("bytes", b"") or b"") for s in inst.sends
               if s[2]["type"] in ("http.response.body", "websocket.send"))


def _pressure_on(w: Any) -> bool:
    """The client still grants nothing: no release event fired yet and connection 0 alive."""
    rec = w.conns[0]
    if rec.closed_at is not None or rec.lost_at is not None or rec.client_eof or rec.client_reset:
        return False
    src = [i for i, (n, _) in enumerate(w.driver.sources) if n == "release"][0]
    return w.driver.pos[src] == 0


def monitor(w: Any) -> None:
    inst = _big(w)
    if inst is None or not _pressure_on(w):
        return
    held = _submitted(inst) - _delivered(w)
    w.max_held = max(getattr(w, "max_held", 0), held)


def oracle(w: Any, params: Any) -> List[dict]:
    engine, carrier, pressure, n, rel = params
    out: List[dict] = []
    tag = f"{carrier}:{pressure}:{rel}"
    inst = _big(w)
    rec = w.conns[0]
    monitor(w)
    held = getattr(w, "max_held", 0)
    if held > BOUND:
        out.append(V("held-exceeds-bound", f"{carrier}:{pressure}:n{n}", f"held {held} bytes > {BOUND} with N={n} ({n * CHUNK} B response)"))
    # siblings
    fired = [e for _, e in w.driver.fired]
    all_other = ("data", 1, h1_request(b"GET", b"/other")) in fired
    if all_other and rel != "terminate":  # connections arriving after shutdown began are closed at once (C15)
        r1 = w.conns[1].client.h1.responses
        if not (r1 and r1[0]["complete"] and r1[0]["body"] == b"sib"):
            out.append(V("sibling-blocked", f"{tag}:other-connection", f"responses {r1}"))
    if carrier != "h1":
        sib_requested = any(e[0] == "cmd" and e[2] == "headers" and e[3] == SIB for e in fired)
        st3 = rec.client.h2.streams.get(SIB)
        sib_credit = pressure != "win0" or any(e[0] == "cmd" and e[2] == "winup" and e[3] == SIB for e in fired)
        conn_alive = rec.closed_at is None and rec.lost_at is None and not rec.client_eof and not rec.client_reset
        if sib_requested and conn_alive and pressure != "pause" and st3 is not None and st3["headers"] is None:
            out.append(V("sibling-blocked", f"{tag}:stream3-no-headers", "sibling stream got no response head"))
        if sib_requested and conn_alive and sib_credit and not _transport_paused(w) and \
                (st3 is None or not st3["ended"] or st3["body"] != b"sib"):
            out.append(V("sibling-blocked", f"{tag}:stream3", f"sibling stream state {st3}"))
    # release
    not_release = (pressure, rel) in NOT_A_RELEASE
    if carrier != "h1" and (pressure, rel) == ("pause", "eof"):
        # on HTTP/2 the application's send waits in the per-stream buffer, not in the transport: the peer's EOF
        # closes the connection as far as the protocol is concerned and must release it
        not_release = False
    released = not _pressure_on(w) and rel != "none" and not not_release
    if inst is not None and released:
        pend = [s for s in inst.sends if s[3] == "pending"]
        if pend and carrier != "h1" and (pressure, rel) == ("pause", "eof") and pend[0][2]["type"] not in ("http.response.body", "websocket.send"):
            pend = []  # a response head waits in the transport write itself, which an EOF cannot release
        if pend:
            out.append(V("send-never-released", tag, f"send #{inst.sends.index(pend[0])} of {len(inst.sends)} still pending; outcome={inst.outcome}"))
        if rel in ("credit", "resume") and not pend and rec.closed_at is None:
            src = [i for i, (nm, _) in enumerate(w.driver.sources) if nm == "release"][0]
            all_released = w.driver.pos[src] == len(w.driver.sources[src][1])
            if all_released and _delivered(w) != n * CHUNK and carrier != "ws/h2":
                out.append(V("not-delivered", tag, f"delivered {_delivered(w)} of {n * CHUNK}"))
    out.extend(internal_errors(w))
    return out


def _transport_paused(w: Any) -> bool:
    tr = getattr(w, "transports", {}).get(0)
    if tr is not None:
        return tr.peer_paused
    st = getattr(w, "streams", {}).get(0)
    return st is not None and st.peer_paused


execute = std_execute(build, oracle)
