"""C15 - graceful shutdown is orderly and bounded.

The real `worker_serve()` of both workers runs on the fake listener under virtual time.  A scenario
opens 1..3 connections drawn from {idle keep-alive (one request already served), partial request
head, request that finishes inside the grace period (gated), request that never finishes, HTTP/2
with an open (gated) stream, open WebSocket}; the shutdown trigger (the callable, or the worker's
max_requests being reached), gate releases, clock ticks and late arrivals (a new connection, a new
HTTP/2 stream, a pipelined request) are separate sources that Explorer A interleaves.
graceful_timeout = 3, shutdown_timeout = 2, keep_alive_timeout = 50 (so only shutdown closes).
A subset of the connection multisets (request that never finishes, open WebSocket, open HTTP/2 stream, gated request,
and pairs of them) is repeated with graceful_timeout = 0 (5th element of the parameters "g0") under both triggers: a
grace period of 0 has elapsed at the trigger instant, so what is still in progress then is cancelled in that very
instant, lifespan.shutdown follows and worker_serve returns by t0 + 0 + shutdown_timeout.

Oracle (reference timeline, exact virtual instants; t0 = trigger)
  serve-not-returned / serve-late   worker_serve still running at final quiescence / returned after t0+3+2
  serve-failed                      worker_serve raised something other than the documented lifespan errors
  served-after-shutdown             a connection opened after t0 was accepted and served
  idle-not-closed-at-shutdown       idle / partial-head connection still open after the trigger settled (closed_at > t0)
  h2-stream-after-shutdown          an HTTP/2 stream opened after t0 was served instead of refused
  no-goaway                         idle HTTP/2 connection closed at shutdown without GOAWAY
  in-grace-request-truncated        a request released inside the grace period did not get its complete response
  cancelled-too-early/late          a stuck request's connection was torn down before / after t0+graceful (still open when
                                    worker_serve returned, or closed at a later instant than t0+graceful)
  lifespan-shutdown                 lifespan.shutdown not delivered exactly once, or delivered while connections were
                                    still being served inside the grace period
"""
from __future__ import annotations

from typing import Any, List

from mc.clients import h1_request, h2_request_headers, make_client, ws_h1_handshake
from mc.explore import V
from mc.harness import internal_errors, std_execute

ID = "C15"
LEVEL = "model_checking"
TECHNIQUE = ("stateless deviation-bounded exploration of the shutdown trigger against connection phases on the real "
             "worker_serve() (asyncio and trio) under virtual time; reference shutdown timeline with exact instants; "
             "graceful_timeout at 3 and at its boundary 0")
RULE = ("scenario = engine x trigger source x multiset of <=3 connection kinds x late-arrival kind [x graceful_timeout 0]; trigger, releases, "
        "ticks and late arrivals interleaved within (M,S); non-trivial = instance ran and a non-default choice taken; "
        "distinct by observation digest")
ASSUMPTIONS = [
    "signal delivery and the multi-process master are outside; the trigger is the shutdown_trigger callable or max_requests",
    "CPython 3.12.1 base_events.Server is the real object (its wait_closed semantics are part of what is checked)",
    "graceful_timeout = 0: the grace period has elapsed at the trigger instant, so requests in progress at the trigger are "
    "cancelled then (a request released before the trigger within the same virtual instant is not demanded complete: "
    "with every event at t0 'inside the grace period' is empty)",
]
BOUNDS_DOC = {"quick": "M<=1, S<=2; <=2 connections; graceful_timeout 3, and 0 for the multisets of G0_MULTIS (late: none)",
              "thorough": "M<=1, S<=3; <=3 connections; trio R<=1; graceful_timeout 3, and 0 for G0_MULTIS x every late arrival"}
BUDGET = {"quick": 300, "thorough": 1800}

GRACE, SHUT = 3.0, 2.0
OK = [("recv_body",), ("send", {"type": "http.response.start", "status": 200, "headers": [(b"content-length", b"2")]}),
      ("send", {"type": "http.response.body", "body": b"ok", "more_body": False})]
KINDS = ["idle", "partial", "short", "stuck", "h2open", "h2idle", "ws"]
LATE = ["none", "connect", "h2stream", "pipelined"]
# connection multisets repeated with graceful_timeout = 0 (nothing here ends by itself at the trigger, or only if released)
G0_MULTIS = [("stuck",), ("ws",), ("h2open",), ("short",), ("short", "stuck"), ("h2open", "ws"), ("stuck", "stuck")]


def conn_events(k: int, kind: str) -> tuple:
    """(opts, client events, apps) for connection k of a given kind; paths are /k<k>..."""
    p = b"/k%d" % k
    if kind == "idle":
        return {"carrier": "h1", "methods": [b"GET", b"GET"]}, [("data", k, h1_request(b"GET", p + b"done"))], \
            {"http:" + (p + b"done").decode(): OK}
    if kind == "partial":
        return {"carrier": "h1", "methods": [b"GET"]}, [("data", k, h1_request(b"GET", p)[:12])], {}
    if kind == "short":
        return {"carrier": "h1", "methods": [b"GET", b"GET"]}, [("data", k, h1_request(b"GET", p + b"short"))], \
            {"http:" + (p + b"short").decode(): [("recv_body",), ("gate", "g%d" % k)] + OK[1:]}
    if kind == "stream":
        # the response head is already out when the gate is reached; a second request is pipelined behind it
        return {"carrier": "h1", "methods": [b"GET", b"GET"]}, \
            [("data", k, h1_request(b"GET", p + b"stream") + h1_request(b"GET", p + b"next"))], \
            {"http:" + (p + b"stream").decode(): [("recv_body",), ("send", {"type": "http.response.start", "status": 200, "headers": []}),
                                                  ("gate", "g%d" % k),
                                                  ("send", {"type": "http.response.body", "body": b"ok", "more_body": False})]}
    if kind == "stuck":
        return {"carrier": "h1", "methods": [b"GET"]}, [("data", k, h1_request(b"GET", p + b"stuck"))], \
            {"http:" + (p + b"stuck").decode(): [("recv_body",), ("gate", "never%d" % k)] + OK[1:]}
    if kind == "h2open":
        return {"carrier": "h2", "tls": True, "alpn": "h2"}, \
            [("cmd", k, "preface"), ("cmd", k, "headers", 1, h2_request_headers(b"GET", p + b"h2"), True)], \
            {"http:" + (p + b"h2").decode(): [("recv_body",), ("gate", "g%d" % k)] + OK[1:]}
    if kind == "h2two":
        # two streams of ONE connection in progress at the trigger, finishing at different moments of the grace period
        # (gates g<k> and h<k>): the first one to finish must not take the other one's response with it
        return {"carrier": "h2", "tls": True, "alpn": "h2"}, \
            [("cmd", k, "preface"), ("cmd", k, "headers", 1, h2_request_headers(b"GET", p + b"h2"), True),
             ("cmd", k, "headers", 3, h2_request_headers(b"GET", p + b"h2b"), True)], \
            {"http:" + (p + b"h2").decode(): [("recv_body",), ("gate", "g%d" % k)] + OK[1:],
             "http:" + (p + b"h2b").decode(): [("recv_body",), ("gate", "h%d" % k)] + OK[1:]}
    if kind == "h2idle":
        return {"carrier": "h2", "tls": True, "alpn": "h2"}, \
            [("cmd", k, "preface"), ("cmd", k, "headers", 1, h2_request_headers(b"GET", p + b"h2d"), True)], \
            {"http:" + (p + b"h2d").decode(): OK}
    if kind == "ws":
        return {"carrier": "ws/h1"}, [("data", k, ws_h1_handshake(p + b"ws"))], \
            {"websocket": [("recv",), ("send", {"type": "websocket.accept"}), ("recv_until_disconnect",)]}
    raise ValueError(kind)


def scenarios(tier: str) -> List[Any]:
    out = []
    multis: List[tuple] = [(a,) for a in KINDS]
    multis += [(a, b) for i, a in enumerate(KINDS) for b in KINDS[i:] if not (a == b and a in ("idle", "partial"))]
    multis += [("stream",), ("stream", "stuck"), ("idle", "stream")]
    if tier != "quick":
        multis += [("stuck", "stuck", "stuck"), ("idle", "short", "stuck"), ("h2open", "ws", "stuck"), ("short", "h2open", "h2idle"),
                   ("partial", "ws", "short")]
    else:
        multis += [("stuck", "stuck", "stuck"), ("idle", "short", "stuck")]
    for engine in ("asyncio", "trio"):
        out.append((engine, "callable", ("h2two",), "none"))
        for trig in ("callable", "max_requests"):
            for ms in multis:
                for late in LATE:
                    if late == "h2stream" and not any(k.startswith("h2") for k in ms):
                        continue
                    if late == "pipelined" and (not any(k in ("short", "idle") for k in ms) or "stream" in ms):
                        continue
                    if trig == "max_requests" and (late != "none" or len(ms) > 2 or "stream" in ms):
                        continue  # (the pipelined request of 'stream' would itself be the over-limit request)
                    if tier == "quick" and len(ms) == 2 and late not in ("none", "connect"):
                        continue
                    out.append((engine, trig, ms, late))
                    if ms in G0_MULTIS and (late == "none" or tier != "quick"):
                        out.append((engine, trig, ms, late, "g0"))
    return out


def bounds(tier: str, params: Any) -> dict:
    n = len(params[2])
    if tier == "quick":
        return {"M": 1 if n == 1 else 0, "S": 2 if n < 3 else 1, "R": 0}
    return {"M": 1 if n < 3 else 0, "S": 3 if n < 3 else 2, "R": 1 if params[0] == "trio" else 0}


def build(params: Any) -> tuple:
    engine, trig, ms, late = params[:4]
    grace = 0 if params[4:] == ("g0",) else GRACE
    apps: dict = {"lifespan": [("lifespan_loop",)], "http": OK}
    sources = []
    releases = []
    n_requests = 0
    for k, kind in enumerate(ms):
        opts, evs, a = conn_events(k, kind)
        apps.update(a)
        sources.append((f"c{k}", [("connect", k, opts)] + evs))
        if kind in ("short", "h2open", "stream"):
            releases.append(("release", "g%d" % k))
        if kind == "h2two":
            sources.append((f"rel{k}a", [("release", "g%d" % k)]))
            sources.append((f"rel{k}b", [("release", "h%d" % k)]))
            n_requests += 1
        if kind not in ("partial",):
            n_requests += 1
    cfg = {"keep_alive_timeout": 50, "graceful_timeout": grace, "shutdown_timeout": SHUT}
    if trig == "callable":
        sources.append(("ctl", [("shutdown",)]))
    else:
        # the worker recycles itself once it has taken on more than max_requests requests: one extra request does it
        cfg["max_requests"] = n_requests
        kx = len(ms)
        sources.append(("ctl", [("connect", kx, {"carrier": "h1", "methods": [b"GET"]}), ("data", kx, h1_request(b"GET", b"/trigger"))]))
    if late == "connect":
        kl = len(ms) + 1
        sources.append(("late", [("after_shutdown",), ("connect", kl, {"carrier": "h1", "methods": [b"GET"]}),
                                 ("data", kl, h1_request(b"GET", b"/late"))]))
    elif late == "h2stream":
        k2 = next(i for i, k in enumerate(ms) if k.startswith("h2"))
        sources.append(("late", [("after_shutdown",), ("cmd", k2, "headers", 3, h2_request_headers(b"GET", b"/late"), True)]))
    elif late == "pipelined":
        k1 = next(i for i, k in enumerate(ms) if k in ("short", "idle"))
        sources.append(("late", [("after_shutdown",), ("data", k1, h1_request(b"GET", b"/late"))]))
    sources.append(("app", releases))
    # time only passes once shutdown has begun (before it nothing here depends on time)
    sources.append(("clock", [("after_shutdown",), ("pause_dt", 1.0)] + [("tick",)] * 4))
    sc = {"level": "serve", "client_factory": make_client, "apps": apps, "config": cfg, "sources": sources,
          "trio_rev": True, "guards": {"after_shutdown": _terminating}}
    return engine, sc


def _terminating(w: Any, ev: Any = None) -> bool:
    if w.shutdown_at is not None:
        return True
    return any(getattr(s, "context", None) is not None and s.context.terminated.is_set() for s in w.servers)


def _t0(w: Any, params: Any) -> Any:
    """The trigger instant: the callable firing, or the instant the over-limit request was taken on."""
    if w.shutdown_at is not None:
        return w.shutdown_at
    mx = w.scenario["config"].get("max_requests")
    if mx is None:
        return None
    reqs = [i for i in w.instances if i.type in ("http", "websocket")]
    if len(reqs) > mx:
        return reqs[mx].t_start
    return None


def _trig_idx(w: Any) -> int:
    """Number of environment events fired when the trigger happened (orders things inside one instant)."""
    for i, (_, e) in enumerate(w.driver.fired):
        if e[0] == "shutdown":
            return i
    mx = w.scenario["config"].get("max_requests")
    reqs = [i for i in w.instances if i.type in ("http", "websocket")]
    if mx is not None and len(reqs) > mx:
        return reqs[mx].seq - 1
    return 10 ** 9


def oracle(w: Any, params: Any) -> List[dict]:
    engine, trig, ms, late = params[:4]
    out: List[dict] = []
    t0 = _t0(w, params)
    ti = _trig_idx(w)
    tag = f"{trig}:{'+'.join(ms)}:{late}" + "".join(f":{x}" for x in params[4:])
    # this scenario's own grace period (0: it has elapsed at the trigger instant)
    grace = w.scenario["config"]["graceful_timeout"]
    if t0 is None:
        return internal_errors(w)
    fired = w.driver.fired
    ticks_left = any(e[0] == "tick" for e in w.driver.sources[-1][1][w.driver.pos[-1]:]) and w.driver.pos[-1] > 0
    # ---- worker_serve returns, in time
    if w.serve_result is None:
        if ticks_left:  # no timer is armed any more, yet serve() has not returned: it never will
            # (the key says what holds it: requests that were in progress at the trigger, or only requests that
            # arrived - on a connection open at the trigger - after it had fired)
            held = [i for i in w.instances if i.type in ("http", "websocket") and i.outcome == "running"]
            after = f":request-arrived-after-trigger:{engine}" if held and all(i.seq > ti for i in held) else ""
            out.append(V("serve-not-returned", f"{trig}:{_kinds(ms)}{after}", f"{tag}: t0={t0} now={w.final_time} live={w.live_tasks[:3]}"))
    else:
        if w.serve_done_at > t0 + grace + SHUT + 1e-9:
            out.append(V("serve-late", f"{trig}:{_kinds(ms)}", f"{tag}: returned at {w.serve_done_at}, t0={t0}"))
        if w.serve_result != "ok":
            out.append(V("serve-failed", f"{trig}:{w.serve_result.split(':')[1]}", f"{tag}: {w.serve_result}"))
    # ---- per connection
    stuck_any = any(k == "stuck" for k in ms)
    for k, kind in enumerate(ms):
        rec = w.conns.get(k)
        if rec is None or rec.refused or rec.opened_at > t0:
            continue
        cl = rec.client
        released = ("release", "g%d" % k) in [e for _, e in fired]
        t_rel = next((t for t, e in fired if e == ("release", "g%d" % k)), None)
        if kind in ("idle", "partial", "h2idle"):
            # nothing in progress at the trigger (if its request had been fully answered before t0)
            busy_at_t0 = False
            if kind in ("idle", "h2idle"):
                insts = [i for i in w.instances if i.scope.get("path", "").startswith("/k%d" % k)]
                busy_at_t0 = not insts or any(i.t_end is None or i.t_end > t0 for i in insts) or not _all_answered(cl, t0)
                if not insts:
                    continue
            if not busy_at_t0 and w.serve_result is not None or (not busy_at_t0 and not ticks_left):
                if rec.closed_at is None or rec.closed_at > t0 + 1e-9:
                    out.append(V("idle-not-closed-at-shutdown", f"{kind}", f"{tag}: conn {k} closed_at={rec.closed_at}, t0={t0}"))
        if kind == "h2open" and t_rel is not None and rec.closed_at is not None and cl.h2.started:
            # the stream was open at the trigger and finished during the grace period: the peer is told to go away
            st = cl.h2.streams.get(1)
            inst = next((i for i in w.instances if i.scope.get("path", "").startswith("/k%d" % k)), None)
            rel_idx = next(i for i, (_, e) in enumerate(fired) if e == ("release", "g%d" % k))
            # (judged only when the stream finished at a later instant than the trigger: within the trigger's own
            # instant the shutdown may not have reached the connection yet and it is closed as an idle one)
            if inst is not None and inst.seq <= ti < rel_idx and t_rel > t0 and st is not None and st["ended"] and cl.h2.goaway is None:
                out.append(V("no-goaway", kind, f"{tag}: conn {k} closed at {rec.closed_at} without GOAWAY"))
        if kind == "h2two":
            for sid, gate, path in ((1, "g%d" % k, "/k%dh2" % k), (3, "h%d" % k, "/k%dh2b" % k)):
                t_r = next((t for t, e in fired if e == ("release", gate)), None)
                inst = next((i for i in w.instances if i.scope.get("path", "") == path), None)
                if t_r is None or t_r >= t0 + grace or inst is None or inst.seq > ti or cl.h2 is None:
                    continue
                st = cl.h2.streams.get(sid)
                ok = st is not None and st["ended"] == 1 and st["body"] == b"ok" and st["status"] == 200
                if not ok and (w.serve_result is not None or not ticks_left):
                    out.append(V("in-grace-request-truncated", f"{engine}:h2two:stream{sid}",
                                 f"{tag}: conn {k} stream {sid} released at {t_r}, t0={t0}: {st}"))
        if kind == "stream":
            nxt = next((i for i in w.instances if i.scope.get("path", "") == "/k%dnext" % k), None)
            first = next((i for i in w.instances if i.scope.get("path", "") == "/k%dstream" % k), None)
            if nxt is not None and first is not None and first.seq <= ti < nxt.seq and nxt.t_start > t0 + 1e-9:
                # (strictly later than the trigger's instant: within it the trigger may not have reached the connection yet)
                out.append(V("served-after-shutdown", "request-behind-one-in-progress",
                             f"{tag}: conn {k}: the request pipelined behind the one in progress at the trigger was started at "
                             f"{nxt.t_start} (t0={t0})"))
        if kind in ("short", "h2open", "stream") and t_rel is not None and t_rel < t0 + grace:
            # released inside the grace period (or before the trigger): the response must be complete
            ok = False
            if cl.h2 is not None:
                st = cl.h2.streams.get(1)
                ok = st is not None and st["ended"] == 1 and st["body"] == b"ok" and st["status"] == 200
            elif cl.h1 is not None:
                ok = any(r["complete"] and r["body"] == b"ok" for r in cl.h1.responses)
            inst = next((i for i in w.instances if i.scope.get("path", "").startswith("/k%d" % k)), None)
            # (a request that only arrived after the trigger is not "in progress": it may be refused)
            if kind == "stream":
                inst = next((i for i in w.instances if i.scope.get("path", "") == "/k%dstream" % k), None)
            if inst is not None and inst.seq <= ti and not ok and (w.serve_result is not None or not ticks_left):
                what = "incomplete"
                if cl.h2 is not None and cl.h1 is None:
                    st = cl.h2.streams.get(1)
                    if st is not None and st["status"] == 200 and st["body"] == b"ok" and not st["ended"]:
                        what = "end-stream-missing"
                out.append(V("in-grace-request-truncated", f"{engine}:{kind}:{what}",
                             f"{tag}: conn {k} released at {t_rel}, t0={t0}: no complete response"))
        if kind in ("stuck", "ws") or (kind in ("short", "h2open", "stream") and t_rel is None):
            inst = next((i for i in w.instances if i.scope.get("path", "").startswith("/k%d" % k)), None)
            if inst is None or inst.seq > ti:
                continue
            if rec.closed_at is not None and rec.closed_at < t0 + grace - 1e-9 and kind != "ws":
                out.append(V("cancelled-too-early", kind, f"{tag}: conn {k} closed at {rec.closed_at}, t0={t0}"))
            if w.serve_result is not None and rec.closed_at is None:
                out.append(V("cancelled-too-late", kind, f"{tag}: serve returned at {w.serve_done_at} but conn {k} still open"))
            if rec.closed_at is not None and rec.closed_at > t0 + grace + 1e-9 and not rec.client_eof and not rec.client_reset:
                # what remains when the grace period ends is cancelled then (with graceful_timeout = 0: at the trigger)
                out.append(V("cancelled-too-late", f"{kind}:after-grace",
                             f"{tag}: conn {k} closed at {rec.closed_at}, t0={t0}, graceful_timeout {grace}"))
    # ---- late arrivals
    for kl, rec in w.conns.items():
        if kl >= len(ms) and rec.opened_at > t0 and not rec.refused:
            if any(i.scope.get("path") == "/late" for i in w.instances):
                out.append(V("served-after-shutdown", "connection", f"{tag}: connection {kl} opened at {rec.opened_at} > t0={t0} was served"))
    if late == "h2stream":
        li = next((i for i in w.instances if i.scope.get("path") == "/late"), None)
        if li is not None and li.t_start > t0:
            out.append(V("h2-stream-after-shutdown", "served", f"{tag}: stream opened after the trigger got an application instance"))
    if late == "pipelined":
        li = next((i for i in w.instances if i.scope.get("path") == "/late"), None)
        if li is not None and li.t_start > t0:
            out.append(V("served-after-shutdown", "pipelined-request", f"{tag}: request arriving after the trigger was served"))
    # ---- lifespan shutdown exactly once, and not while connections are still inside the grace period
    for li in (i for i in w.instances if i.type == "lifespan"):
        n = sum(1 for m in li.delivered() if m["type"] == "lifespan.shutdown")
        if n > 1 or (n == 0 and w.serve_result is not None):
            out.append(V("lifespan-shutdown", f"count-{n}", f"{tag}: {n} lifespan.shutdown messages"))
        for (t, what, m) in li.log:
            if what == "recv" and m["type"] == "lifespan.shutdown" and t < t0 + grace - 1e-9:
                still = [k for k, rec in w.conns.items() if not rec.refused and rec.opened_at <= t0 and
                         (rec.handler_done_at is None or rec.handler_done_at > t) and (rec.closed_at is None or rec.closed_at > t)
                         and rec.handler != "ok"]
                if still:
                    out.append(V("lifespan-shutdown", "before-drain", f"{tag}: lifespan.shutdown at {t} while connections {still} were still open (t0={t0})"))
    out.extend(internal_errors(w))
    return out


def _all_answered(cl: Any, t0: float) -> bool:
    if cl.h2 is not None and cl.h1 is None:
        return all(st["ended"] and st["t_end"] is not None and st["t_end"] <= t0 for st in cl.h2.streams.values()) and bool(cl.h2.streams)
    return bool(cl.h1.responses) and all(r["complete"] and r["t_end"] <= t0 for r in cl.h1.responses)


def _kinds(ms: tuple) -> str:
    return "+".join(sorted(set(ms)))


execute = std_execute(build, oracle)


# wave h documentation (what was added to the enumeration; see DESIGN.md 11.0)
_WAVE_H = '+ h2two: two streams of one HTTP/2 connection in progress at the trigger, released independently inside / outside the grace period'
RULE = RULE + " " + _WAVE_H
BOUNDS_DOC = {k: v + " " + _WAVE_H for k, v in BOUNDS_DOC.items()}
