"""C20 - middleware semantics: proxy trust boundary, dispatch routing + lifespan fan-out, HTTPS redirect.

The real middleware classes are executed; nothing is mocked below them.  Kinds of scenario:

  pf / pfx / pf-lifespan   ProxyFixMiddleware called directly (its coroutine never suspends) on synthetic scopes.
      Enumerated: mode {legacy, modern} x trusted_hops {0..3} (thorough 0..4) x target header {x-forwarded-for, -proto,
      -host | forwarded} x EVERY distribution of n <= 3 (thorough 4) list items over <= 3 header fields of <= 3 items x
      EVERY assignment of a 4-value alphabet to the items x separator/name-case style {",", ", ", " , " + Mixed-Case
      name} x companion headers {absent, short, long (+ a header of the other form that must be ignored)} (quick: 5
      of the 9 style x companion combinations for the legacy headers) x scope kind
      x attacker prefix {none, extra leading field, leading list items, both, multi-item mixed-case field, field(s) of
      the other form}.  pfx: the same structure over exotic RFC 7239 spellings (quoted, upper-case parameters, IPv6,
      obfuscated, empty element) where only the safety clauses are demanded.
  pfn    the pf structure (n <= 2 items, thorough 3) on requests WITHOUT a Host header: HTTP/1.0 style and HTTP/2
      without :authority.
  pfh    request HISTORIES through ONE ProxyFixMiddleware instance: mode x trusted_hops 0..3 (thorough 0..4) x every
      sequence of 1..2 requests over a 31-request alphabet {http, websocket} x {Host, no Host (1.0), no :authority (2)} x
      5 forwarding-header sets (none / 1 / 2 / 3 values over two fields / host only) + lifespan, and every triple over
      a 10-request sub-alphabet (thorough: every triple over the 31).
  disp   Asyncio/TrioDispatcherMiddleware called directly: every ordered mount table of 1..3 mounts over
      {"/", "/a", "/a/b", "/b"} x every path of <= 3 segments over {a, b, ab} with/without trailing slash x {http,
      websocket} scope.
  disph  request HISTORIES through ONE dispatcher: every ordered mount table x every pair over {"/", "/a", "/a/b/x",
      "/b/", "/ab", "/c"} x {http, websocket} and every triple over a 7-request sub-alphabet (thorough: every triple),
      so mounts are hit in every order, with 404s in between.
  ds     the dispatcher inside the real worker_serve (both engines): lifespan startup fanned out to 2-3 mounts, then
      every history of 0..2 (first table and thorough: 0..3) requests over {GET to three mounts, GET without a mount,
      websocket handshake}, each on its own connection, then shutdown.
  red    HTTPToHTTPSRedirectMiddleware called directly: request host x configured host x raw path (escapes, "//",
      ";", ":"; and paths RELATED to the root_path values: equal to one, starting with its characters at / not at a segment
      boundary, containing it later, one repeated) x query x root_path {"", "/app", "/v1"} x scope kind {http 1.1, http 2, https, ws 1.1, ws 2, ws without the denial-response
      extension, wss, lifespan}; request host includes "no Host header" (then only with a configured host).
  redh   request HISTORIES through ONE redirect instance: configured host {None, set} x every pair over a 47 / 57-request
      alphabet (7 scope kinds x {3 Host values, no Host} x 2 URL shapes, + lifespan; no-Host cleartext requests only with
      a configured host) and every triple over a 10 / 13-request sub-alphabet (thorough: every triple over the full one).
  fan    lifespan fan-out under Explorer A (real worker_serve on the virtual loop / instrumented trio): 2-3 mounted
      scripted apps drawn from {completes behind gates, completes at once, startup.failed, never completes, raises
      at once, raises after its gate, raises after startup, returns without shutdown.complete}; every release order
      of the gates, the shutdown trigger and timer ticks interleaved within (M, S, R).
  fanx   the dispatcher's lifespan fan-out when the server's SHUTDOWN OVERTAKES a mount's startup.  hypercorn's own
      worker_serve never produces that order (it sends lifespan.shutdown only after startup.complete; a startup timeout
      makes it raise), so the dispatcher - running in the real engines, hosted by the lifespan task of the real
      worker_serve - is driven by a stand-in ASGI server that sends lifespan.startup at once and lifespan.shutdown when
      its gate is released, whatever has been forwarded by then.  Mounts: {startup.complete and shutdown.complete each
      behind a gate, startup behind a gate only, no gates}; every pair, some / all triples; Explorer A interleaves the
      releases of all gates (also mid-flight) within (M, S, R).
  e2e    a few requests through the real TCPServer (h1, ws/h1) with each middleware mounted, both engines; the redirect
      also with a configured root_path (the request target never contains it, the Location does).

Every request of a history is judged by the single-request oracle (reference rule), and additionally by the
differential oracle "what request r gives after history h == what r gives on an instance without a past".

Oracle clauses (reference rules in mc/x_c19c20_ref.py):
  pf-caller-scope-mutated   the object graph of the scope handed to the middleware differs when the inner application
                            is entered or after the call: a leaf value, an added / removed / reordered item, or one of
                            the caller's dicts / lists replaced (Snapshot: containers by identity, leaves by value)
  pf-inner-scope-aliased    the inner application assigns top-level keys of / edits the header list of the scope it was
                            given and that shows in the caller's scope (http / websocket scopes)
  redirect-caller-scope-mutated / dispatch-caller-scope-mutated   the same graph comparison for the other two (the
                            dispatcher may rewrite path / raw_path / root_path in place: it does so with `path` today)
  pf-history-dependent / redirect-history-dependent / dispatch-history-dependent   a request is treated differently
                            after other requests than on a fresh instance (also: the caller's mount dict changed)
  pf-untouched              zero hops / too few values, yet client / scheme / host changed
  pf-trusted-value          plain spellings: client / scheme / host differ from the value trusted_hops from the right
  pf-untrusted-value-used   metamorphic: with enough values, an attacker prefix changed client / scheme / host
  pf-passthrough            other scope keys / other headers / receive / send altered, inner app not called exactly once
  dispatch-route            wrong mount, wrong or empty stripped path, more than one mount called, 404 although a mount matches
  dispatch-404              no mount matches but no 404 answer (http scope)
  dispatch-404-websocket    no mount matches, websocket scope: the answer is not a legal websocket denial
                            (websocket.http.response.start 404 / websocket.close)
  redirect-location / redirect-missing / secure-passthrough
  fanout-early-complete / fanout-complete-twice / fanout-complete-lost   outer lifespan.X.complete sent before every
                            mount sent its own / more than once / not at all although every mount did
  middleware-raised         the middleware raised on an input of the enumerated space
  e2e-* / dispatch-404*     the same statements observed at the wire (keys ...:e2e-...)
"""
from __future__ import annotations

import copy
import itertools
import os
from typing import Any, Dict, List, Optional, Tuple

from mc import x_c19c20_ref as ref
from mc.clients import h1_request, make_client, ws_h1_handshake
from mc.core import HarnessError, ScriptApp, digest
from mc.explore import ExecResult, V, explore_item
from mc.harness import default_observation, describe, generic_violations, run_world
from mc.x_c19c20_enum import run_family, stable_repr

ID = "C20"
LEVEL = "model_checking"
TECHNIQUE = ("bounded exhaustive enumeration of header multisets / mount tables x paths / URLs x scope kinds (with and "
             "without a Host header) on the real middleware classes, with reference rules and a metamorphic "
             "attacker-prefix oracle; exhaustive enumeration of request histories (all pairs, triples) through ONE "
             "middleware instance with the reference rule per request plus a fresh-instance differential oracle; "
             "object-graph comparison of the caller's scope (identity of containers, value of leaves) around every call "
             "with an inner application that mutates its own scope; stateless "
             "deviation-bounded exploration (CHESS-style) of the dispatcher's lifespan fan-out inside the real "
             "worker_serve on a virtual-time loop (asyncio) and instrumented trio, and of the fan-out driven by a stand-in "
             "ASGI server whose lifespan.shutdown may overtake the gated startup of a mount")
RULE = ("one evaluation = one case (header multiset + hops + prefix; mount table + path; URL + scope kind), one request "
        "history of 1..3 requests through one instance, or one "
        "interleaving of gate releases / shutdown / ticks for the fan-out; distinct by digest of what the wrapped "
        "application received and what the middleware sent; non-trivial = the middleware changed the scope, routed to a "
        "mount, answered itself, or (fan-out) an application ran and a non-default choice was taken")
ASSUMPTIONS = [
    "forwarding header values are ASCII; positive equality is demanded only for plain spellings (lower-case parameter "
    "names, token values); for exotic RFC 7239 spellings only the safety clauses are demanded",
    "modern mode with too few Forwarded values while legacy headers carry enough: both 'untouched' and 'legacy value' "
    "are accepted (undocumented fallback)",
    "dispatcher prefix match is the documented string-prefix match in dictionary order",
    "redirect target = scheme://(configured host or Host header) + root_path + raw_path [+ ?query]; a websocket over "
    "HTTP/2 may be redirected to https or wss; without the denial-response extension only a refusal is possible",
    "a cleartext request without a Host header and without a configured redirect host is outside the enumerated space "
    "(there is no 'same host'; hypercorn raises ValueError)",
    "the dispatcher hands the caller's scope object to the mount with `path` rewritten in place; the property does not "
    "say whether it may, so path / raw_path / root_path are exempt from the caller-scope comparison for the dispatcher",
    "inner-application isolation is demanded for ProxyFix only (top-level keys and the header list), the other two "
    "middlewares pass the caller's scope object through by design",
    "fan-out: judged at the ASGI messages the middleware sends to the server (mount-raised exceptions, which the server "
    "treats as 'lifespan unsupported', are not 'complete' messages)",
    "fanx: an ASGI server may send lifespan.shutdown although it has not seen lifespan.startup.complete (it stopped "
    "waiting); hypercorn's own servers never do, so this family judges the middleware as a component under another "
    "server; the mounts are well-behaved (each sends startup.complete, then after lifespan.shutdown shutdown.complete)",
    "environment model (fake transport, virtual loop) is bound to real sockets by ./check selftest",
]
BOUNDS_DOC = {"quick": "n<=3 items, hops 0..3 (no-Host requests: n<=2); histories: all pairs over the full request alphabets "
                       "(31 ProxyFix, 47/57 redirect, 12 dispatcher x 40 mount tables) + all triples over sub-alphabets "
                       "(10, 10/13, 7); serve-level dispatcher histories <=2 (one table <=3) requests; fan-out: all 64 "
                       "program pairs + 5 selected triples, M<=1,S<=2,R=0; fanx: all 9 pairs M<=2,S<=3 (trio R<=1) + 2 triples "
                       "M<=1,S<=2; redirect: 27 paths x 3 root_paths x 5 queries x 5 hosts x 2 configured hosts x 8 scope kinds",
              "thorough": "n<=4 items, hops 0..4 (no-Host requests: n<=3); histories: all pairs and all triples over the full "
                          "alphabets; serve-level dispatcher histories <=3 requests on 3 mount tables; fan-out: all 64 "
                          "program pairs at M<=2,S<=3 (trio R<=1), all 512 triples at M<=1,S<=2; fanx: all 9 pairs "
                          "M<=3,S<=4 (trio R<=2), all 27 triples M<=1,S<=2 (trio R<=1); redirect as quick"}
BUDGET = {"quick": 300, "thorough": 1150}
MAX_EXEC_PER_ITEM = 60000


# ---------------------------------------------------------------------------------------------
# helpers


def drive(coro: Any) -> Any:
    """Run a coroutine that must not suspend (every awaitable below it is ours and returns at once)."""
    try:
        coro.send(None)
    except StopIteration as e:
        return e.value
    coro.close()
    raise HarnessError("middleware coroutine suspended outside an event loop")


_LEAF = (bytes, str, int, float, bool, type(None))


def _flat(o: Any, out: list) -> None:
    """Pre-order listing of an object graph: mutable containers by identity, everything else by type and value."""
    t = type(o)
    if t is dict:
        out.append(o)
        out.append(("dict", len(o)))
        for k, v in o.items():
            out.append(k)
            _flat(v, out)
    elif t is list:
        out.append(o)
        out.append(("list", len(o)))
        for v in o:
            _flat(v, out)
    elif t is tuple:
        out.append(("tuple", len(o)))
        for v in o:
            _flat(v, out)
    else:
        out.append(o if t in _LEAF else repr(o))


def _same(a: list, b: list) -> bool:
    if len(a) != len(b):
        return False
    for x, y in zip(a, b):
        if type(x) in (dict, list):
            if x is not y:  # the caller's own container was replaced by another object
                return False
        elif type(x) is not type(y) or x != y:
            return False
    return True


class Snapshot:
    """The caller's scope as an object graph: which container objects sit where, and every leaf value.

    Holds references to the caller's containers (so their ids cannot be recycled); `diff()` lists the top-level scope
    keys under which the graph is no longer what it was (a value changed, an item was added / removed / reordered, or
    one of the caller's dicts / lists was swapped for another object)."""

    def __init__(self, scope: dict) -> None:
        self.scope = scope
        self.keys = list(scope.keys())
        self.parts = {k: self._part(v) for k, v in scope.items()}

    @staticmethod
    def _part(v: Any) -> list:
        out: list = []
        _flat(v, out)
        return out

    def diff(self) -> List[str]:
        now = self.scope
        out = [str(k) for k in self.keys if k not in now]
        out += [str(k) for k in now if k not in self.parts]
        for k in self.keys:
            if k in now and not _same(self.parts[k], self._part(now[k])):
                out.append(str(k))
        if not out and list(now.keys()) != self.keys:
            out.append("<key-order>")
        return sorted(out)


class Recorder:
    """Inner ASGI application: records how it was called; optionally answers.

    With `watch` (a Snapshot of the caller's scope) it notes what the caller's graph looks like when the application
    is entered; with `mutate` it then behaves like an application that treats the scope it was given as its own
    (assigns top-level keys, edits the header list) and notes what of that shows through to the caller."""

    def __init__(self, name: Any = None, answer: bool = False, mutate: bool = False) -> None:
        self.name = name
        self.calls: List[tuple] = []
        self.answer = answer
        self.mutate = mutate
        self.watch: Optional[Snapshot] = None
        self.diff_enter: List[str] = []
        self.diff_inner: List[str] = []

    async def __call__(self, scope: dict, receive: Any, send: Any) -> None:
        if self.watch is not None:
            self.diff_enter = self.diff_inner = self.watch.diff()
        if self.mutate and scope.get("type") in ("http", "websocket"):
            seen = dict(scope)
            seen["headers"] = list(scope["headers"])
            self.calls.append((seen, receive, send))
            scope["headers"].append((b"x-inner-app", b"appended"))
            scope["headers"][0] = (b"x-inner-app", b"replaced")
            scope["client"] = ("inner.app", 1)
            scope["scheme"] = "inner"
            scope["x-inner-app"] = 1
            if self.watch is not None:
                self.diff_inner = self.watch.diff()
        else:
            self.calls.append((scope, receive, send))
        if self.answer:
            await send({"type": "http.response.start", "status": 200, "headers": []})
            await send({"type": "http.response.body", "body": b"", "more_body": False})


def scope_checks(pre: str, tag: str, snap: Snapshot, inner: Optional[Recorder], allowed: Tuple[str, ...] = ()) -> List[dict]:
    """Caller-scope clauses after one middleware call (`allowed`: top-level keys the middleware may rewrite in place)."""
    final = snap.diff()
    enter = inner.diff_enter if inner is not None and inner.calls else []
    within = inner.diff_inner if inner is not None and inner.calls else []
    out = []
    own = sorted((set(enter) | (set(final) - set(within))) - set(allowed))
    if own:
        out.append(V(f"{pre}-caller-scope-mutated", f"{tag}:{'+'.join(own)}",
                     f"the caller's scope changed under {own}: now {stable_repr(snap.scope)[:600]}"))
    alias = sorted(set(within) - set(enter))
    if alias:
        out.append(V(f"{pre}-inner-scope-aliased", f"{tag}:{'+'.join(alias)}",
                     f"what the inner application did to its scope shows in the caller's scope under {alias}"))
    return out


class Outbox:
    def __init__(self) -> None:
        self.messages: List[dict] = []

    async def send(self, message: dict) -> None:
        self.messages.append(message)

    async def receive(self) -> dict:
        raise HarnessError("middleware called receive()")


def result(case: Any, viol: List[dict], obs: Any, nontrivial: bool) -> ExecResult:
    if os.environ.get("MC_VERBOSE"):
        print("case:", case)
        print("observation:", stable_repr(obs)[:2000])
    return ExecResult([], viol, digest(obs), nontrivial, (), {"case": repr(case)[:300], "obs": stable_repr(obs)[:400]})


# ---------------------------------------------------------------------------------------------
# ProxyFix

LEGACY = [b"x-forwarded-for", b"x-forwarded-proto", b"x-forwarded-host"]
MIXED = {b"x-forwarded-for": b"X-Forwarded-For", b"x-forwarded-proto": b"X-Forwarded-Proto",
         b"x-forwarded-host": b"X-Forwarded-Host", b"forwarded": b"Forwarded"}
FIELD_OF = {b"x-forwarded-for": "client", b"x-forwarded-proto": "scheme", b"x-forwarded-host": "host"}
ALPHA = {
    b"x-forwarded-for": ["1.1.1.1", "2.2.2.2", "3.3.3.3", "4.4.4.4"],
    b"x-forwarded-proto": ["https", "http", "wss", "ws"],
    b"x-forwarded-host": ["a.example", "b.example:8443", "c.example", "d.example"],
    b"forwarded": ["for=1.1.1.1", "for=2.2.2.2;proto=https", "for=3.3.3.3;proto=wss;host=a.example",
                   "host=b.example:8443;for=4.4.4.4"],
}
EXOTIC = ['For=1.1.1.1', 'for="2.2.2.2"', 'for="[2001:db8::1]:4711";proto=https', 'for=3.3.3.3; proto=https',
          'FOR=4.4.4.4;PROTO=wss;HOST=a.example', 'for=_hidden;by=9.9.9.9', 'proto=https;host="b.example"', '']
EVIL = {b"x-forwarded-for": "6.6.6.6", b"x-forwarded-proto": "gopher", b"x-forwarded-host": "evil.example",
        b"forwarded": "for=6.6.6.6;proto=gopher;host=evil.example"}
SEPS = [b",", b", ", b" , "]
PREFIXES = [0, 1, 2, 3, 4, 5]


def compositions(n: int) -> List[Tuple[int, ...]]:
    """All ways to distribute n list items over 1..3 header fields of 1..3 items."""
    out = []
    for k in (1, 2, 3):
        for parts in itertools.product((1, 2, 3), repeat=k):
            if sum(parts) == n:
                out.append(parts)
    return out


def field_layouts(nmax: int, alphabet: int = 4) -> List[Tuple[Tuple[int, ...], ...]]:
    out = []
    for n in range(1, nmax + 1):
        for parts in compositions(n):
            for vals in itertools.product(range(alphabet), repeat=n):
                it = iter(vals)
                out.append(tuple(tuple(next(it) for _ in range(p)) for p in parts))
    return out


HOSTMODES = [0, 1, 2]  # 0: Host header present; 1: HTTP/1.0 request without Host; 2: HTTP/2 request without :authority
HTTP_VERSION = {0: "1.1", 1: "1.0", 2: "2"}


def pf_headers(target: bytes, style: int, fields: tuple, others: int, prefix: int, alphabet: List[str],
               hostmode: int = 0) -> List[Tuple[bytes, bytes]]:
    sep = SEPS[style]
    name = MIXED[target] if style == 2 else target
    hs: List[Tuple[bytes, bytes]] = [(b"host", b"internal:8000"), (b"accept", b"*/*")] if hostmode == 0 else [(b"accept", b"*/*")]
    companions = [h for h in LEGACY if h != target] if target != b"forwarded" else list(LEGACY)
    if others >= 1:
        for h in companions:
            if others == 1:
                hs.append((h, ALPHA[h][0].encode()))
            else:
                hs.append((h, (ALPHA[h][1] + ", " + ALPHA[h][2]).encode()))
                hs.append((h, ALPHA[h][3].encode()))
        if others == 2 and target != b"forwarded":
            hs.append((b"forwarded", b"for=7.7.7.7;proto=ftp;host=ignored.example, for=8.8.8.8;proto=ftp;host=ignored2.example"))
    target_fields = [(name, sep.join(alphabet[i].encode() for i in f)) for f in fields]
    evil = EVIL[target].encode()
    if prefix in (2, 3):
        n0, v0 = target_fields[0]
        target_fields[0] = (n0, evil + sep + evil + b"2" + sep + v0)
    hs += target_fields
    hs.append((b"user-agent", b"c20"))
    lead: List[Tuple[bytes, bytes]] = []
    if prefix in (1, 3):
        lead.append((target, evil))
    if prefix == 4:
        lead.append((MIXED[target], evil + b" , " + evil + b"2,"+ evil + b"3"))
    if prefix == 5:
        if target == b"forwarded":
            lead += [(h, (EVIL[h] + ", " + EVIL[h] + "2, " + EVIL[h] + "3, " + EVIL[h] + "4").encode()) for h in LEGACY]
        else:
            lead.append((b"forwarded", b"for=6.6.6.6;proto=gopher;host=evil.example, " * 3 + b"for=6.6.6.7;proto=gopher;host=evil2.example"))
    return lead + hs


def pf_scope(kind: int, headers: List[Tuple[bytes, bytes]], hostmode: int = 0) -> dict:
    scope = {
        "type": "http" if kind == 0 else "websocket", "asgi": {"version": "3.0", "spec_version": "2.3"},
        "http_version": HTTP_VERSION[hostmode], "scheme": "http" if kind == 0 else "ws", "path": "/p", "raw_path": b"/p",
        "query_string": b"q=1", "root_path": "", "headers": headers, "client": ("10.9.8.7", 5555),
        "server": ("127.0.0.1", 8000), "extensions": {"websocket.http.response": {}}, "state": {"k": [1, 2]},
    }
    if kind == 0:
        scope["method"] = "GET"
    else:
        scope["subprotocols"] = ["chat"]
    return scope


def pf_run(mode: str, hops: int, scope: dict, mw: Any = None, inner: Optional[Recorder] = None) -> Tuple[Optional[dict], List[dict], dict]:
    """One call of the middleware (a fresh instance unless `mw` + its `inner` recorder are handed in).

    -> (inner scope or None, passthrough / caller-scope violations, summary)."""
    from hypercorn.middleware import ProxyFixMiddleware

    before = copy.deepcopy(scope)
    snap = Snapshot(scope)
    if mw is None:
        inner = Recorder(mutate=True)
        mw = ProxyFixMiddleware(inner, mode=mode, trusted_hops=hops)  # type: ignore
    assert inner is not None
    inner.watch = snap
    del inner.calls[:]
    box = Outbox()
    drive(mw(scope, box.receive, box.send))
    viol: List[dict] = scope_checks("pf", mode, snap, inner)
    if len(inner.calls) != 1:
        viol.append(V("pf-passthrough", f"{mode}:inner-calls:{len(inner.calls)}", ""))
        return None, viol, {}
    got, rcv, snd = inner.calls[0]
    if rcv != box.receive or snd != box.send:
        viol.append(V("pf-passthrough", f"{mode}:receive-send", ""))
    if box.messages:
        viol.append(V("pf-passthrough", f"{mode}:sent-messages", box.messages))
    for k in sorted(set(got) | set(before)):
        if k in ("client", "scheme", "headers"):
            continue
        if got.get(k, "<absent>") != before.get(k, "<absent>"):
            viol.append(V("pf-passthrough", f"{mode}:scope-key:{k}", f"{before.get(k)!r} -> {got.get(k)!r}"))
    nonhost_before = [h for h in before["headers"] if h[0].lower() != b"host"]
    nonhost_got = [tuple(h) for h in got["headers"] if h[0].lower() != b"host"]
    if nonhost_got != nonhost_before:
        viol.append(V("pf-passthrough", f"{mode}:other-headers", f"{nonhost_before} -> {nonhost_got}"))
    summary = {"client": got.get("client"), "scheme": got.get("scheme"),
               "host": [h[1] for h in got["headers"] if h[0].lower() == b"host"]}
    return got, viol, summary


def pf_judge(mode: str, summary: dict, before: dict, accept: List[Dict[str, Optional[str]]]) -> List[dict]:
    """Is the summary one of the acceptable outcomes?  (report against the first = preferred one)"""
    orig_host = [h[1] for h in before["headers"] if h[0].lower() == b"host"]

    def diffs(want: Dict[str, Optional[str]]) -> List[dict]:
        out = []
        if want["client"] is None:
            if summary["client"] != before["client"]:
                out.append(V("pf-untouched", f"{mode}:client", f"{before['client']} -> {summary['client']}"))
        elif not summary["client"] or summary["client"][0] != want["client"]:
            out.append(V("pf-trusted-value", f"{mode}:client", f"{summary['client']} wanted {want['client']}"))
        if want["scheme"] is None:
            if summary["scheme"] != before["scheme"]:
                out.append(V("pf-untouched", f"{mode}:scheme", f"{before['scheme']} -> {summary['scheme']}"))
        elif summary["scheme"] != want["scheme"]:
            out.append(V("pf-trusted-value", f"{mode}:scheme", f"{summary['scheme']} wanted {want['scheme']}"))
        if want["host"] is None:
            if summary["host"] != orig_host:
                out.append(V("pf-untouched", f"{mode}:host", f"{orig_host} -> {summary['host']}"))
        elif summary["host"] != [want["host"].encode("latin1")]:
            out.append(V("pf-trusted-value", f"{mode}:host", f"{summary['host']} wanted {want['host']}"))
        return out

    results = [diffs(w) for w in accept]
    if any(not r for r in results):
        return []
    return results[0]


def do_pf(case: tuple) -> ExecResult:
    # ("pf", mode, target index (0..2 legacy, 3 forwarded), hops, style, others, scope kind, fields, prefix, exotic)
    _, mode, ti, hops, style, others, kind, fields, prefix, exotic = case[:10]
    hostmode = case[10] if len(case) > 10 else 0
    target = (LEGACY + [b"forwarded"])[ti]
    alphabet = EXOTIC if exotic else ALPHA[target]
    viol: List[dict] = []
    base_headers = pf_headers(target, style, fields, others, 0, alphabet, hostmode)
    headers = pf_headers(target, style, fields, others, prefix, alphabet, hostmode)
    scope = pf_scope(kind, headers, hostmode)
    before = copy.deepcopy(scope)
    got, v1, summary = pf_run(mode, hops, scope)
    viol += v1
    if got is None:
        return result(case, viol, ("no-call",), True)
    own = b"forwarded" if mode == "modern" else None
    if not exotic:
        want = ref.proxy_expect(mode, hops, headers)
        accept = [want]
        if mode == "modern" and ref.trusted(ref.list_values(headers, b"forwarded"), hops) is None:
            accept.append({"client": None, "scheme": None, "host": None})
        viol += pf_judge(mode, summary, before, accept)
    elif hops == 0:
        viol += pf_judge(mode, summary, before, [{"client": None, "scheme": None, "host": None}])
    # metamorphic: whatever the attacker prepends changes nothing once enough trusted values exist
    if prefix != 0:
        enough_names = [own] if own is not None else LEGACY
        base_scope = pf_scope(kind, base_headers, hostmode)
        got0, v0, summary0 = pf_run(mode, hops, base_scope)
        viol += v0
        if got0 is not None and hops > 0:
            for name in enough_names:
                if len(ref.list_values(base_headers, name)) < hops:
                    continue
                flds = [FIELD_OF[name]] if name in FIELD_OF else ["client", "scheme", "host"]
                for f in flds:
                    if summary[f] != summary0[f]:
                        viol.append(V("pf-untrusted-value-used", f"{mode}:{f}:prefix{prefix}",
                                      f"without prefix {summary0[f]!r}, with prefix {summary[f]!r}; headers {headers}"))
    changed = summary["client"] != before["client"] or summary["scheme"] != before["scheme"] or \
        summary["host"] != [h[1] for h in before["headers"] if h[0].lower() == b"host"]
    return result(case, viol, (mode, hops, kind, hostmode, summary["client"], summary["scheme"], tuple(summary["host"]),
                               len(got["headers"])), changed)


def do_pf_lifespan(case: tuple) -> ExecResult:
    from hypercorn.middleware import ProxyFixMiddleware

    _, mode, hops = case
    scope = {"type": "lifespan", "asgi": {"version": "3.0"}, "state": {}}
    before = copy.deepcopy(scope)
    inner, box = Recorder(), Outbox()
    drive(ProxyFixMiddleware(inner, mode=mode, trusted_hops=hops)(scope, box.receive, box.send))  # type: ignore
    viol = []
    if len(inner.calls) != 1 or inner.calls[0][0] != before or scope != before or box.messages:
        viol.append(V("pf-passthrough", f"{mode}:lifespan", inner.calls))
    return result(case, viol, ("lifespan", len(inner.calls)), False)


# ---------------------------------------------------------------------------------------------
# ProxyFix request histories through ONE middleware instance

PFH_FWD = {
    "legacy": [
        [],
        [(b"x-forwarded-for", b"1.1.1.1"), (b"x-forwarded-proto", b"https"), (b"x-forwarded-host", b"a.example")],
        [(b"x-forwarded-for", b"6.6.6.6, 2.2.2.2"), (b"x-forwarded-proto", b"gopher,wss"),
         (b"x-forwarded-host", b"evil.example, b.example:8443")],
        [(b"x-forwarded-for", b"6.6.6.6"), (b"x-forwarded-for", b"3.3.3.3, 4.4.4.4"), (b"x-forwarded-proto", b"http"),
         (b"X-Forwarded-Host", b"c.example , d.example"), (b"forwarded", b"for=7.7.7.7;proto=ftp;host=ignored.example")],
        [(b"x-forwarded-host", b"d.example")],
    ],
    "modern": [
        [],
        [(b"forwarded", b"for=1.1.1.1;proto=https;host=a.example")],
        [(b"forwarded", b"for=6.6.6.6;proto=gopher;host=evil.example, for=2.2.2.2;proto=wss;host=b.example:8443")],
        [(b"forwarded", b"for=6.6.6.6"), (b"Forwarded", b"for=3.3.3.3;proto=http;host=c.example , for=4.4.4.4")],
        [(b"forwarded", b"host=d.example")],
    ],
}
LIFESPAN_REQ = (2, 0, 0)


def pfh_alphabet(small: bool) -> List[Tuple[int, int, int]]:
    """Requests (scope kind 0 http / 1 websocket / 2 lifespan, hostmode, forwarding header set)."""
    if small:
        reqs = [(0, hm, f) for hm in (0, 1) for f in (0, 1, 2, 4)] + [(1, 1, 3)]
    else:
        reqs = [(k, hm, f) for k in (0, 1) for hm in (0, 1, 2) for f in range(5)]
    return reqs + [LIFESPAN_REQ]


def pfh_scope(mode: str, req: Tuple[int, int, int]) -> dict:
    kind, hostmode, f = req
    if kind == 2:
        return {"type": "lifespan", "asgi": {"version": "3.0"}, "state": {}}
    headers: List[Tuple[bytes, bytes]] = [(b"accept", b"*/*")]
    if hostmode == 0:
        headers.append((b"host", b"internal:8000"))
    headers += PFH_FWD[mode][f]
    headers.append((b"user-agent", b"c20"))
    return pf_scope(kind, headers, hostmode)


def pfh_request(mode: str, hops: int, req: Tuple[int, int, int], mw: Any, inner: Recorder) -> Tuple[List[dict], Any]:
    """One request through `mw`: the single-request oracle (reference rule, pass-through, caller scope); -> (violations,
    everything the inner application saw and the middleware sent)."""
    scope = pfh_scope(mode, req)
    before = copy.deepcopy(scope)
    if req[0] == 2:
        snap = Snapshot(scope)
        inner.watch = snap
        del inner.calls[:]
        box = Outbox()
        drive(mw(scope, box.receive, box.send))
        viol = scope_checks("pf", mode, snap, inner)
        if len(inner.calls) != 1 or inner.calls[0][0] != before or box.messages:
            viol.append(V("pf-passthrough", f"{mode}:lifespan", inner.calls))
        return viol, ("lifespan", len(inner.calls), stable_repr(inner.calls[0][0]) if inner.calls else None)
    got, viol, summary = pf_run(mode, hops, scope, mw, inner)
    if got is None:
        return viol, ("no-call",)
    accept = [ref.proxy_expect(mode, hops, before["headers"])]
    if mode == "modern" and ref.trusted(ref.list_values(before["headers"], b"forwarded"), hops) is None:
        accept.append({"client": None, "scheme": None, "host": None})
    viol += pf_judge(mode, summary, before, accept)
    return viol, (summary["client"], summary["scheme"], tuple(summary["host"]), stable_repr(sorted(got.items(), key=repr)))


_FRESH: Dict[tuple, Any] = {}


def do_pfh(case: tuple) -> ExecResult:
    # ("pfh", mode, hops, (request, ...)): the requests go through ONE instance, one after the other
    from hypercorn.middleware import ProxyFixMiddleware

    _, mode, hops, history = case
    inner = Recorder(mutate=True)
    mw = ProxyFixMiddleware(inner, mode=mode, trusted_hops=hops)  # type: ignore
    viol: List[dict] = []
    obs = []
    for n, req in enumerate(history):
        v, o = pfh_request(mode, hops, req, mw, inner)
        viol += v
        obs.append(o)
        key = (mode, hops, req)
        if key not in _FRESH:  # the same request on an instance that has no past
            inner0 = Recorder(mutate=True)
            _FRESH[key] = pfh_request(mode, hops, req, ProxyFixMiddleware(inner0, mode=mode, trusted_hops=hops), inner0)[1]  # type: ignore
        if o != _FRESH[key]:
            viol.append(V("pf-history-dependent", f"{mode}:hops{hops}:request{n}",
                          f"request {req} after {history[:n]}: {o} but on a fresh instance {_FRESH[key]}"))
    changed = any(len(o) == 4 and o[:3] != (("10.9.8.7", 5555), "http" if r[0] == 0 else "ws", (b"internal:8000",) if r[1] == 0 else ())
                  for o, r in zip(obs, history))
    return result(case, viol, (mode, hops, tuple(obs)), changed)


# ---------------------------------------------------------------------------------------------
# Dispatcher routing

MOUNT_POOL = ["/", "/a", "/a/b", "/b"]
SEGS = ["a", "b", "ab"]


def mount_tables() -> List[Tuple[str, ...]]:
    out = []
    for k in (1, 2, 3):
        out += list(itertools.permutations(MOUNT_POOL, k))
    return out


def request_paths() -> List[str]:
    out = ["/"]
    for n in (1, 2, 3):
        for segs in itertools.product(SEGS, repeat=n):
            p = "/" + "/".join(segs)
            out += [p, p + "/"]
    return out


DISP_REWRITES = ("path", "raw_path", "root_path")  # what "the prefix stripped from the path" may touch


def disp_make(cls: str, mounts: Tuple[str, ...]) -> Tuple[Any, List[Recorder], dict]:
    from hypercorn.middleware.dispatcher import AsyncioDispatcherMiddleware, TrioDispatcherMiddleware

    apps = [Recorder(i) for i in range(len(mounts))]
    table = dict(zip(mounts, apps))
    return (AsyncioDispatcherMiddleware if cls == "asyncio" else TrioDispatcherMiddleware)(table), apps, table


def disp_request(mw: Any, apps: List[Recorder], cls: str, mounts: Tuple[str, ...], path: str, stype: str) -> Tuple[List[dict], Any]:
    """One request through the dispatcher `mw` (whose mounts are the recorders `apps`) -> (violations, observation)."""
    scope = pf_scope(0 if stype == "http" else 1, [(b"host", b"x"), (b"x-other", b"1")])
    scope["path"] = path
    scope["raw_path"] = path.encode()
    before = copy.deepcopy(scope)
    snap = Snapshot(scope)
    for a in apps:
        del a.calls[:]
    box = Outbox()
    drive(mw(scope, box.receive, box.send))
    want = ref.dispatch_expect(list(mounts), path)
    called = [(a.name, a.calls[0][0].get("path")) for a in apps if a.calls]
    ncalls = sum(len(a.calls) for a in apps)
    tag = f"{cls}:{stype}"
    # the dispatcher hands the caller's scope object on with the path rewritten in place (not a statement of the
    # property either way); everything else of the caller's scope must be as it was
    viol: List[dict] = scope_checks("dispatch", tag, snap, None, DISP_REWRITES)
    if want is not None:
        i, p = want
        if ncalls != 1 or called != [(i, p)]:
            viol.append(V("dispatch-route", f"{tag}:wrong-mount-or-path", f"mounts {mounts} path {path!r}: called {called}, wanted mount {i} path {p!r}"))
        if any(not cp for _, cp in called):
            viol.append(V("dispatch-route", f"{tag}:empty-path", f"mounts {mounts} path {path!r}: {called}"))
        if box.messages:
            viol.append(V("dispatch-route", f"{tag}:answered-itself", box.messages))
        if ncalls == 1:
            a = [x for x in apps if x.calls][0]
            if a.calls[0][1] != box.receive or a.calls[0][2] != box.send:
                viol.append(V("dispatch-route", f"{tag}:receive-send", ""))
            got = a.calls[0][0]
            for k in sorted(set(got) | set(before)):  # it is *the request* that is routed
                if k not in DISP_REWRITES and got.get(k, "<absent>") != before.get(k, "<absent>"):
                    viol.append(V("dispatch-route", f"{tag}:scope-key:{k}", f"{before.get(k)!r} -> {got.get(k)!r}"))
    else:
        if ncalls:
            viol.append(V("dispatch-route", f"{tag}:called-without-match", f"mounts {mounts} path {path!r}: {called}"))
        types = [m.get("type") for m in box.messages]
        if stype == "http":
            ok = (len(box.messages) == 2 and types == ["http.response.start", "http.response.body"]
                  and box.messages[0].get("status") == 404 and not box.messages[1].get("more_body", False))
            if not ok:
                viol.append(V("dispatch-404", f"{tag}", box.messages))
        else:
            denial = (len(box.messages) >= 1 and types[0] == "websocket.http.response.start"
                      and box.messages[0].get("status") == 404
                      and all(t == "websocket.http.response.body" for t in types[1:]))
            closed = types == ["websocket.close"]
            if not (denial or closed):
                viol.append(V("dispatch-404-websocket", f"{tag}:{'+'.join(str(t) for t in types)}",
                              f"mounts {mounts} path {path!r}: {box.messages}"))
    obs = (cls, stype, tuple(called), tuple((m.get("type"), m.get("status")) for m in box.messages))
    return viol, obs


def do_disp(case: tuple) -> ExecResult:
    # ("disp", cls, mounts, path, scope type)
    _, cls, mounts, path, stype = case
    mw, apps, _ = disp_make(cls, mounts)
    viol, obs = disp_request(mw, apps, cls, mounts, path, stype)
    return result(case, viol, obs, True)


DH_PATHS = ["/", "/a", "/a/b/x", "/b/", "/ab", "/c"]


def do_disph(case: tuple) -> ExecResult:
    # ("disph", cls, mounts, ((path, scope type), ...)): the requests go through ONE dispatcher, one after the other
    _, cls, mounts, history = case
    mw, apps, table = disp_make(cls, mounts)
    viol: List[dict] = []
    obs = []
    for n, (path, stype) in enumerate(history):
        v, o = disp_request(mw, apps, cls, mounts, path, stype)
        viol += v
        obs.append(o)
        key = ("disp", cls, mounts, path, stype)
        if key not in _FRESH:
            mw0, apps0, _ = disp_make(cls, mounts)
            _FRESH[key] = disp_request(mw0, apps0, cls, mounts, path, stype)[1]
        if o != _FRESH[key]:
            viol.append(V("dispatch-history-dependent", f"{cls}:{stype}:request{n}",
                          f"mounts {mounts}: {path!r} after {history[:n]}: {o} but on a fresh instance {_FRESH[key]}"))
        if list(table) != list(mounts) or any(table[m] is not a for m, a in zip(mounts, apps)):
            viol.append(V("dispatch-history-dependent", f"{cls}:mount-table-changed", f"{list(table)} was {mounts}"))
    return result(case, viol, tuple(obs), True)


# ---------------------------------------------------------------------------------------------
# HTTPS redirect

R_HOSTS = [b"example.com", b"example.com:8080", b"[::1]:8000", b"EXAMPLE.com", None]  # None: request without Host / :authority
R_CONF = [None, "secure.example"]
R_PATHS = [b"/", b"/abc", b"/abc%3C", b"/a%2Fb", b"//evil.example/x", b"/a//b", b"/a/", b"/a;p=1", b"/a:b", b"/~u/",
           b"/a+b", b"/%E2%82%AC", b"/a/../b", b"/@evil.example",
           # relative to the root_path values: equal to one, starting with one (at a segment boundary or not), one
           # repeated, one later in the path, the two nested either way
           b"/app", b"/app/", b"/app/x", b"/apple", b"/app/app/x", b"/x/app", b"/x/app/y", b"/v1", b"/v1/v1/users", b"/v10/u",
           b"/api/v1/x", b"/app/v1", b"/v1/app/x"]
R_QUERIES = [b"", b"a=b", b"a=b&c=d%20e", b"x=/?y", b"next=//evil.example"]
R_ROOTS = ["", "/app", "/v1"]
R_KINDS = ["http1", "http2", "https", "ws1", "ws2", "ws-noext", "wss", "lifespan"]
R_SECURE = ("https", "wss", "lifespan")


def red_in_space(ci: int, req: tuple) -> bool:
    """Without a configured host and without a Host header there is no "same host" to redirect a cleartext request to."""
    kind, hi = req[0], req[1]
    return not (R_HOSTS[hi] is None and R_CONF[ci] is None and kind not in R_SECURE)


def red_request(mw: Any, inner: Recorder, ci: int, req: tuple) -> Tuple[List[dict], Any]:
    """One request (kind, host, path, query, root_path indices) through the redirect middleware `mw`."""
    kind, hi, pi, qi, ri = req
    host, conf, raw_path, query, root = R_HOSTS[hi], R_CONF[ci], R_PATHS[pi], R_QUERIES[qi], R_ROOTS[ri]
    if kind == "lifespan":
        scope: dict = {"type": "lifespan", "asgi": {"version": "3.0"}, "state": {}}
    else:
        is_ws = kind.startswith("ws")
        headers = [(b"accept", b"*/*"), (b"host", host), (b"x-other", b"1")] if host is not None else \
            [(b"accept", b"*/*"), (b"x-other", b"1")]
        scope = pf_scope(1 if is_ws else 0, headers)
        scope["scheme"] = {"http1": "http", "http2": "http", "https": "https", "ws1": "ws", "ws2": "ws", "ws-noext": "ws",
                           "wss": "wss"}[kind]
        scope["http_version"] = "2" if kind in ("http2", "ws2") else ("1.1" if host is not None else "1.0")
        scope["raw_path"] = raw_path
        scope["path"] = ref_unquote(raw_path)
        scope["query_string"] = query
        scope["root_path"] = root
        if kind == "ws-noext":
            scope["extensions"] = {}
    snap = Snapshot(scope)
    inner.watch = snap
    del inner.calls[:]
    box = Outbox()
    drive(mw(scope, box.receive, box.send))
    viol: List[dict] = scope_checks("redirect", kind, snap, inner)
    types = [m.get("type") for m in box.messages]
    if kind in R_SECURE:
        ok = (len(inner.calls) == 1 and inner.calls[0][0] is scope and inner.calls[0][1] == box.receive
              and inner.calls[0][2] == box.send and not box.messages)
        if not ok:
            viol.append(V("secure-passthrough", kind, f"calls {len(inner.calls)} messages {types}"))
    else:
        if inner.calls:
            viol.append(V("redirect-missing", f"{kind}:inner-app-called", ""))
        want_host = (conf.encode() if conf is not None else host).decode("latin1")
        if kind in ("http1", "http2"):
            start_t, body_t, schemes = "http.response.start", "http.response.body", ["https"]
        else:
            start_t, body_t = "websocket.http.response.start", "websocket.http.response.body"
            schemes = ["wss", "https"] if kind == "ws2" else ["wss"]
        if kind == "ws-noext" and types == ["websocket.close"]:
            pass  # nothing but a refusal is expressible
        elif not (len(types) >= 2 and types[0] == start_t and all(t == body_t for t in types[1:])
                  and not box.messages[-1].get("more_body", False)):
            viol.append(V("redirect-missing", f"{kind}:messages", types))
        else:
            start = box.messages[0]
            if start.get("status") not in (301, 302, 307, 308):
                viol.append(V("redirect-location", f"{kind}:status", start.get("status")))
            locs = [v for n, v in start.get("headers", []) if n.lower() == b"location"]
            wants = [ref.redirect_expect(s, want_host, root, raw_path, query) for s in schemes]
            if len(locs) != 1 or locs[0] not in wants:
                viol.append(V("redirect-location", f"{kind}:url" + (":root_path" if root else ""),
                              f"root_path {root!r} raw_path {raw_path!r}: {locs} wanted {wants[0]}"))
    obs = (kind, len(inner.calls), tuple((m.get("type"), m.get("status"), tuple(m.get("headers", []))) for m in box.messages))
    return viol, obs


def do_red(case: tuple) -> ExecResult:
    from hypercorn.middleware import HTTPToHTTPSRedirectMiddleware

    _, hi, ci, pi, qi, ri, kind = case
    inner = Recorder()
    viol, obs = red_request(HTTPToHTTPSRedirectMiddleware(inner, R_CONF[ci]), inner, ci, (kind, hi, pi, qi, ri))  # type: ignore
    return result(case, viol, obs, kind != "lifespan")


def redh_alphabet(ci: int, small: bool) -> List[tuple]:
    """Requests of the histories: scope kind x Host header x (path, query, root_path)."""
    if small:
        kinds, hosts, pqr = ["http1", "ws1", "https", "ws2"], [0, 1, 4], [(1, 1, 0)]
    else:
        kinds, hosts, pqr = R_KINDS[:-1], [0, 1, 2, 4], [(1, 1, 0), (2, 0, 1)]
    reqs = [(k, hi, pi, qi, ri) for k in kinds for hi in hosts for pi, qi, ri in pqr]
    reqs.append(("lifespan", 0, 0, 0, 0))
    return [r for r in reqs if red_in_space(ci, r)]


def do_redh(case: tuple) -> ExecResult:
    # ("redh", configured host index, (request, ...)): the requests go through ONE instance, one after the other
    from hypercorn.middleware import HTTPToHTTPSRedirectMiddleware

    _, ci, history = case
    inner = Recorder()
    mw = HTTPToHTTPSRedirectMiddleware(inner, R_CONF[ci])  # type: ignore
    viol: List[dict] = []
    obs = []
    for n, req in enumerate(history):
        v, o = red_request(mw, inner, ci, req)
        viol += v
        obs.append(o)
        key = ("red", ci, req)
        if key not in _FRESH:
            inner0 = Recorder()
            _FRESH[key] = red_request(HTTPToHTTPSRedirectMiddleware(inner0, R_CONF[ci]), inner0, ci, req)[1]  # type: ignore
        if o != _FRESH[key]:
            viol.append(V("redirect-history-dependent", f"{req[0]}:request{n}",
                          f"configured host {R_CONF[ci]!r}: request {req} after {history[:n]}: {o} but on a fresh instance "
                          f"{_FRESH[key]}"))
    return result(case, viol, (ci, tuple(obs)), True)


def ref_unquote(raw: bytes) -> str:
    from urllib.parse import unquote_to_bytes

    return unquote_to_bytes(raw).decode("utf-8", "replace")


# ---------------------------------------------------------------------------------------------
# lifespan fan-out (Explorer A)

STARTUP_OK = {"type": "lifespan.startup.complete"}
SHUTDOWN_OK = {"type": "lifespan.shutdown.complete"}
FAN_PROGRAMS = ["ok", "now", "fail", "never", "raise0", "raise1", "late_raise", "noshut"]


def fan_program(name: str, m: int) -> list:
    s, z = f"s{m}", f"z{m}"
    return {
        "ok": [("recv",), ("gate", s), ("send", STARTUP_OK), ("recv",), ("gate", z), ("send", SHUTDOWN_OK)],
        "now": [("lifespan_loop",)],
        "fail": [("recv",), ("gate", s), ("send", {"type": "lifespan.startup.failed", "message": "no"}), ("return",)],
        "never": [("recv",), ("recv",), ("return",)],
        "raise0": [("raise",)],
        "raise1": [("recv",), ("gate", s), ("raise",)],
        "late_raise": [("recv",), ("gate", s), ("send", STARTUP_OK), ("gate", z), ("raise",)],
        "noshut": [("recv",), ("gate", s), ("send", STARTUP_OK), ("recv",), ("gate", z), ("return",)],
    }[name]


class MountApp(ScriptApp):
    """Scripted application of one mount; logs every message it sends into the world's fan-out log."""

    def __init__(self, world: Any, apps: dict, mount: int) -> None:
        super().__init__(world, apps)
        self.mount = mount

    async def __call__(self, scope: dict, receive: Any, send: Any) -> None:
        w = self.world

        async def logged_send(message: dict) -> None:
            if not w.finished:
                w.fanlog.append(("mount", self.mount, message.get("type")))
            await send(message)

        await super().__call__(scope, receive, logged_send)


class OuterLog:
    """Sits between the server and the dispatcher: logs what the dispatcher sends to the server."""

    def __init__(self, world: Any, app: Any) -> None:
        self.world = world
        self.app = app

    async def __call__(self, scope: dict, receive: Any, send: Any) -> None:
        w = self.world

        async def logged_send(message: dict) -> None:
            if scope["type"] == "lifespan" and not w.finished:
                w.fanlog.append(("outer", None, message.get("type")))
            await send(message)

        await self.app(scope, receive, logged_send)


def fan_build(params: tuple) -> Tuple[str, dict]:
    _, engine, programs = params
    paths = ["/m%d" % i for i in range(len(programs))]

    def factory(world: Any) -> Any:
        from hypercorn.app_wrappers import ASGIWrapper
        from hypercorn.middleware.dispatcher import AsyncioDispatcherMiddleware, TrioDispatcherMiddleware

        world.fanlog = []
        mounts = {}
        for i, (p, prog) in enumerate(zip(paths, programs)):
            mounts[p] = MountApp(world, {"lifespan": fan_program(prog, i), "*": [("recv_until_disconnect",)]}, i)
        cls = AsyncioDispatcherMiddleware if engine == "asyncio" else TrioDispatcherMiddleware
        return ASGIWrapper(OuterLog(world, cls(mounts)))

    sources = [("m%d" % i, [("release", f"s{i}"), ("release", f"z{i}")]) for i in range(len(programs))]
    sources += [("ctl", [("shutdown",)]), ("clock", [("tick",), ("tick",)])]
    sc = {"level": "serve", "app_factory": factory, "client_factory": make_client, "sources": sources, "trio_rev": True,
          "config": {"startup_timeout": 7, "shutdown_timeout": 3, "graceful_timeout": 2}, "randint": None}
    return engine, sc


def fan_oracle(w: Any, params: tuple) -> List[dict]:
    _, engine, programs = params
    out: List[dict] = []
    n = len(programs)
    for phase in ("startup", "shutdown"):
        msg = f"lifespan.{phase}.complete"
        done: set = set()
        outer = 0
        for who, m, t in w.fanlog:
            if who == "mount" and t == msg:
                done.add(m)
            elif who == "outer" and t == msg:
                outer += 1
                if len(done) < n:
                    missing = sorted(set(range(n)) - done)
                    out.append(V("fanout-early-complete", f"{engine}:{phase}:missing-{len(missing)}-of-{n}",
                                 f"programs {programs} log {w.fanlog}"))
        if outer > 1:
            out.append(V("fanout-complete-twice", f"{engine}:{phase}", f"programs {programs} log {w.fanlog}"))
        if outer == 0 and len(done) == n:
            out.append(V("fanout-complete-lost", f"{engine}:{phase}", f"programs {programs} log {w.fanlog}"))
    return out


def do_fan(params: tuple, prefix: List[int]) -> ExecResult:
    engine, sc = fan_build(params)
    w = run_world(engine, sc, prefix)
    viol = generic_violations(w) + fan_oracle(w, params)
    if os.environ.get("MC_VERBOSE"):
        describe(w)
        print("fan-out log:", w.fanlog)
    obs = (default_observation(w), tuple(w.fanlog))
    choices = w.chooser.choices
    sample = {"params": repr(params), "choices": choices[:40], "fanlog": [list(map(str, x)) for x in w.fanlog][:12],
              "serve": w.serve_result}
    return ExecResult(w.chooser.trace, viol, digest(obs), bool(w.instances) and any(choices), w.sigs, sample)


# ---------------------------------------------------------------------------------------------
# lifespan fan-out when the server's shutdown OVERTAKES a mount's startup (Explorer A, both engines)
#
# Inside hypercorn's own worker_serve this order cannot occur: the server sends lifespan.shutdown only after
# lifespan.startup.complete arrived (a startup timeout makes worker_serve raise, nothing more is sent).  The dispatcher is
# an ASGI middleware, though, and the property speaks about it ("startup/shutdown complete only when every mount has
# completed"): here it runs in the real engines (the asyncio TaskGroup / trio nursery and channels it creates are real,
# hosted by the lifespan task of the real worker_serve) but is DRIVEN by a stand-in for an ASGI server that stops
# waiting for startup: it sends lifespan.startup at once and lifespan.shutdown when the gate "quit" is released -
# whether or not startup.complete was forwarded by then.  Mounts gate their startup.complete (s<i>) and / or their
# shutdown.complete (z<i>); Explorer A interleaves the releases of all gates.

FANX_PROGRAMS = ["ok", "now", "gs"]


def fanx_program(name: str, m: int) -> list:
    if name == "gs":  # startup behind a gate, shutdown acknowledged at once
        return [("recv",), ("gate", f"s{m}"), ("send", STARTUP_OK), ("recv",), ("send", SHUTDOWN_OK)]
    return fan_program(name, m)


class ImpatientServer:
    """Towards its host (hypercorn's Lifespan) a lifespan application that starts at once; towards the dispatcher the
    ASGI server: lifespan.startup immediately, lifespan.shutdown once the gate 'quit' is released."""

    def __init__(self, world: Any, app: Any) -> None:
        self.world = world
        self.app = app

    async def __call__(self, scope: dict, receive: Any, send: Any) -> None:
        from mc.core import Instance

        if scope["type"] != "lifespan":
            return await self.app(scope, receive, send)
        w = self.world
        await receive()
        await send(dict(STARTUP_OK))
        me = Instance(-1, {"type": "lifespan"}, w.now())  # (only carries the gate the stand-in is parked at)
        calls = [0]

        async def server_receive() -> dict:
            calls[0] += 1
            if calls[0] == 1:
                if not w.finished:
                    w.fanlog.append(("server", None, "lifespan.startup"))
                return {"type": "lifespan.startup"}
            await w.wait_gate(me, "quit" if calls[0] == 2 else "never")
            if not w.finished:
                w.fanlog.append(("server", None, "lifespan.shutdown"))
            return {"type": "lifespan.shutdown"}

        async def server_send(message: dict) -> None:
            if not w.finished:
                w.fanlog.append(("outer", None, message.get("type")))

        await self.app({"type": "lifespan", "asgi": dict(scope["asgi"]), "state": {}}, server_receive, server_send)
        if not w.finished:
            w.fanlog.append(("server", None, "dispatcher-returned"))
        await receive()  # the host never shuts down in these scenarios: parked until the world ends


def fanx_build(params: tuple) -> Tuple[str, dict]:
    _, engine, programs = params
    paths = ["/m%d" % i for i in range(len(programs))]

    def factory(world: Any) -> Any:
        from hypercorn.app_wrappers import ASGIWrapper
        from hypercorn.middleware.dispatcher import AsyncioDispatcherMiddleware, TrioDispatcherMiddleware

        world.fanlog = []
        mounts = {}
        for i, (p, prog) in enumerate(zip(paths, programs)):
            mounts[p] = MountApp(world, {"lifespan": fanx_program(prog, i), "*": [("recv_until_disconnect",)]}, i)
        cls = AsyncioDispatcherMiddleware if engine == "asyncio" else TrioDispatcherMiddleware
        return ASGIWrapper(ImpatientServer(world, cls(mounts)))

    sources = []
    for i, prog in enumerate(programs):
        evs = {"ok": [("release", f"s{i}"), ("release", f"z{i}")], "gs": [("release", f"s{i}")], "now": []}[prog]
        if evs:
            sources.append(("m%d" % i, evs))
    sources.append(("server", [("release", "quit")]))
    sc = {"level": "serve", "app_factory": factory, "client_factory": make_client, "sources": sources, "trio_rev": True,
          "config": {"startup_timeout": 7, "shutdown_timeout": 3, "graceful_timeout": 2}, "randint": None}
    return engine, sc


def do_fanx(params: tuple, prefix: List[int]) -> ExecResult:
    engine, sc = fanx_build(params)
    w = run_world(engine, sc, prefix)
    _, _, programs = params
    viol = generic_violations(w) + fan_oracle(w, ("fanx", engine + ":impatient-server", programs))
    # every gate was released and the world ran to quiescence: all mounts have completed both phases
    sent = {(m, t) for who, m, t in w.fanlog if who == "mount"}
    if not any(t == "dispatcher-returned" for who, _, t in w.fanlog if who == "server"):
        viol.append(V("harness-problem", f"{engine}:fanx:history-incomplete", f"programs {programs} log {w.fanlog}"))
    elif len(sent) != 2 * len(programs):
        viol.append(V("harness-problem", f"{engine}:fanx:mount-messages", f"programs {programs} log {w.fanlog}"))
    if os.environ.get("MC_VERBOSE"):
        describe(w)
        print("fan-out log:", w.fanlog)
    obs = (default_observation(w), tuple(w.fanlog))
    choices = w.chooser.choices
    sample = {"params": repr(params), "choices": choices[:40], "fanlog": [list(map(str, x)) for x in w.fanlog][:14]}
    return ExecResult(w.chooser.trace, viol, digest(obs), bool(w.instances) and any(choices), w.sigs, sample)


# ---------------------------------------------------------------------------------------------
# the SECOND lifespan run through one dispatcher object (serve() called again in-process with the same application)
#
# Run 1: every mount answers at once and the stand-in server sends startup and shutdown back to back; the dispatcher
# returns.  Run 2 is a fanx world (gated mounts, shutdown at the gate "quit") on the SAME dispatcher object: whatever
# run 1 left behind on the object (completion flags, queues, channels) must not count for run 2.  The fan-out oracle is
# applied to each run's part of the log.


class RunCountingMount(MountApp):
    """A mount whose lifespan program depends on the run: first call answers at once, later calls use the scripted one."""

    def __init__(self, world: Any, apps: dict, mount: int) -> None:
        super().__init__(world, apps, mount)
        self.later = apps
        self.calls = 0

    async def __call__(self, scope: dict, receive: Any, send: Any) -> None:
        if scope["type"] == "lifespan":
            self.calls += 1
            self.apps = dict(self.later, lifespan=[("lifespan_loop",)]) if self.calls == 1 else self.later
        await super().__call__(scope, receive, send)


class TwiceServer(ImpatientServer):
    async def __call__(self, scope: dict, receive: Any, send: Any) -> None:
        if scope["type"] != "lifespan":
            return await self.app(scope, receive, send)
        w = self.world
        first = iter([{"type": "lifespan.startup"}, {"type": "lifespan.shutdown"}])

        async def receive1() -> dict:
            return next(first)

        async def send1(message: dict) -> None:
            if not w.finished:
                w.fanlog.append(("outer", None, message.get("type")))

        await self.app({"type": "lifespan", "asgi": dict(scope["asgi"]), "state": {}}, receive1, send1)
        if not w.finished:
            w.fanlog.append(("server", None, "run-2"))
        await super().__call__(scope, receive, send)


def fan2_build(params: tuple) -> Tuple[str, dict]:
    engine, sc = fanx_build(params)
    _, _, programs = params
    paths = ["/m%d" % i for i in range(len(programs))]

    def factory(world: Any) -> Any:
        from hypercorn.app_wrappers import ASGIWrapper
        from hypercorn.middleware.dispatcher import AsyncioDispatcherMiddleware, TrioDispatcherMiddleware

        world.fanlog = []
        mounts = {}
        for i, (p, prog) in enumerate(zip(paths, programs)):
            mounts[p] = RunCountingMount(world, {"lifespan": fanx_program(prog, i), "*": [("recv_until_disconnect",)]}, i)
        cls = AsyncioDispatcherMiddleware if engine == "asyncio" else TrioDispatcherMiddleware
        return ASGIWrapper(TwiceServer(world, cls(mounts)))

    sc["app_factory"] = factory
    return engine, sc


def do_fan2(params: tuple, prefix: List[int]) -> ExecResult:
    engine, sc = fan2_build(params)
    w = run_world(engine, sc, prefix)
    _, _, programs = params
    full = list(w.fanlog)
    cut = next((i for i, e in enumerate(full) if e == ("server", None, "run-2")), None)
    viol = generic_violations(w)
    if cut is None:
        viol.append(V("harness-problem", f"{engine}:fan2:first-run-incomplete", f"programs {programs} log {full}"))
    else:
        for run, part in (("run1", full[:cut]), ("run2", full[cut + 1:])):
            w.fanlog = part
            viol += fan_oracle(w, ("fan2", f"{engine}:{run}", programs))
        w.fanlog = full
        sent = {(m, t) for who, m, t in full[cut + 1:] if who == "mount"}
        if not any(t == "dispatcher-returned" for who, _, t in full[cut + 1:] if who == "server"):
            viol.append(V("harness-problem", f"{engine}:fan2:history-incomplete", f"programs {programs} log {full}"))
        elif len(sent) != 2 * len(programs):
            viol.append(V("harness-problem", f"{engine}:fan2:mount-messages", f"programs {programs} log {full}"))
    if os.environ.get("MC_VERBOSE"):
        describe(w)
        print("fan-out log:", full)
    obs = (default_observation(w), tuple(full))
    choices = w.chooser.choices
    sample = {"params": repr(params), "choices": choices[:40], "fanlog": [list(map(str, x)) for x in full][:20]}
    return ExecResult(w.chooser.trace, viol, digest(obs), bool(w.instances) and any(choices), w.sigs, sample)


# ---------------------------------------------------------------------------------------------
# end to end through the real TCPServer

OK_APP = [("recv_body",), ("send", {"type": "http.response.start", "status": 200, "headers": [(b"content-length", b"2")]}),
          ("send", {"type": "http.response.body", "body": b"ok", "more_body": False})]
WS_APP = [("recv",), ("send", {"type": "websocket.accept"}), ("recv_until_disconnect",)]
E2E = [
    # (middleware, carrier, target, extra headers, expectation)
    ("disp", "h1", b"/a/x?q=1", (), ("app", "/x")),
    ("disp", "h1", b"/a", (), ("app", "/")),
    ("disp", "h1", b"/c", (), ("status", 404)),
    ("disp", "ws/h1", b"/b/chat", (), ("app", "/chat")),
    ("disp", "ws/h1", b"/c", (), ("status", 404)),
    ("pf1", "h1", b"/p", ((b"X-Forwarded-For", b"6.6.6.6, 1.1.1.1"), (b"X-Forwarded-Proto", b"https"),
                          (b"X-Forwarded-Host", b"pub.example")), ("scope", "1.1.1.1", "https", b"pub.example")),
    ("pf2", "h1", b"/p", ((b"X-Forwarded-For", b"6.6.6.6"), (b"X-Forwarded-For", b"2.2.2.2, 1.1.1.1"),
                          (b"X-Forwarded-Proto", b"https")), ("scope", "2.2.2.2", None, None)),
    ("pf2", "ws/h1", b"/p", ((b"X-Forwarded-For", b"1.1.1.1"),), ("scope", None, None, None)),
    ("red", "h1", b"/x%20y?a=b", (), ("location", b"https://hypercorn/x%20y?a=b")),
    ("red", "ws/h1", b"/x?a=b", (), ("location", b"wss://hypercorn/x?a=b")),
    # configured root_path: the request target never contains it, the redirect target does
    ("red", "h1", b"/app/x?a=b", (), ("location", b"https://hypercorn/app/app/x?a=b"), {"root_path": "/app"}),
    ("red", "h1", b"/apple", (), ("location", b"https://hypercorn/app/apple"), {"root_path": "/app"}),
    ("red", "ws/h1", b"/v1/v1/users?a=b", (), ("location", b"wss://hypercorn/v1/v1/v1/users?a=b"), {"root_path": "/v1"}),
    ("red", "h1", b"/x/app", (), ("location", b"https://hypercorn/app/x/app"), {"root_path": "/app"}),
]


def e2e_build(params: tuple) -> Tuple[str, dict]:
    _, engine, idx = params
    mwname, carrier, target, extra = E2E[idx][:4]
    extra_config = E2E[idx][5] if len(E2E[idx]) > 5 else {}

    def factory(world: Any) -> Any:
        from hypercorn.app_wrappers import ASGIWrapper
        from hypercorn.middleware import HTTPToHTTPSRedirectMiddleware, ProxyFixMiddleware
        from hypercorn.middleware.dispatcher import AsyncioDispatcherMiddleware, TrioDispatcherMiddleware

        inner = ScriptApp(world, {"http": OK_APP, "websocket": WS_APP})
        if mwname == "disp":
            cls = AsyncioDispatcherMiddleware if engine == "asyncio" else TrioDispatcherMiddleware
            app: Any = cls({"/a": inner, "/b": inner})
        elif mwname == "pf1":
            app = ProxyFixMiddleware(inner, mode="legacy", trusted_hops=1)  # type: ignore
        elif mwname == "pf2":
            app = ProxyFixMiddleware(inner, mode="legacy", trusted_hops=2)  # type: ignore
        else:
            app = HTTPToHTTPSRedirectMiddleware(inner, None)  # type: ignore
        return ASGIWrapper(app)

    if carrier == "h1":
        data = h1_request(b"GET", target, list(extra))
    else:
        data = ws_h1_handshake(target, list(extra))
    sc = {"level": "conn", "conns": {0: {"carrier": carrier}}, "client_factory": make_client, "app_factory": factory,
          "config": dict({"keep_alive_timeout": 5}, **extra_config), "sources": [("client", [("data", 0, data)])],
          "trio_rev": False}
    return engine, sc


def do_e2e(params: tuple, prefix: List[int]) -> ExecResult:
    _, engine, idx = params
    mwname, carrier, target, extra, expect = E2E[idx][:5]
    eng, sc = e2e_build(params)
    w = run_world(eng, sc, prefix)
    viol = generic_violations(w)
    resp = w.conns[0].client.h1.responses
    status = resp[0]["status"] if resp else None
    insts = [i for i in w.instances if i.type in ("http", "websocket")]
    tag = f"{engine}:{carrier}"
    if expect[0] == "app":
        if len(insts) != 1 or insts[0].scope.get("path") != expect[1]:
            viol.append(V("e2e-dispatch-route", tag, [(i.type, i.scope.get("path")) for i in insts]))
        if status != (200 if carrier == "h1" else 101):
            viol.append(V("e2e-dispatch-route", f"{tag}:status", status))
    elif expect[0] == "status":
        clause = "dispatch-404" if carrier == "h1" else "dispatch-404-websocket"
        stype = "http" if carrier == "h1" else "websocket"
        if insts:
            viol.append(V(clause, f"{engine}:{stype}:e2e-app-called", [(i.type, i.scope.get("path")) for i in insts]))
        if status != expect[1]:
            viol.append(V(clause, f"{engine}:{stype}:e2e-status-{status}",
                          f"client saw {status}, wanted {expect[1]}; log {w.logrec}"))
    elif expect[0] == "scope":
        _, client, scheme, host = expect
        if len(insts) != 1:
            viol.append(V("e2e-proxy-fix", f"{tag}:instances", len(insts)))
        else:
            sc_ = insts[0].scope
            hosts = [v for n, v in sc_["headers"] if n.lower() == b"host"]
            got = (sc_["client"][0] if sc_["client"] else None, sc_["scheme"], hosts)
            want = (client if client is not None else "10.0.0.1",
                    scheme if scheme is not None else ("http" if carrier == "h1" else "ws"),
                    [host if host is not None else b"hypercorn"])
            if got != want:
                viol.append(V("e2e-proxy-fix", f"{tag}:scope", f"{got} wanted {want}"))
    else:
        locs = [v for n, v in (resp[0]["headers"] if resp else []) if n.lower() == b"location"]
        if insts or status not in (301, 302, 307, 308) or locs != [expect[1]]:
            viol.append(V("e2e-redirect", tag, f"status {status} location {locs} instances {len(insts)}"))
    if os.environ.get("MC_VERBOSE"):
        describe(w)
    obs = default_observation(w)
    return ExecResult(w.chooser.trace, viol, digest(obs), True, w.sigs, {"params": repr(params), "status": status})


# ---------------------------------------------------------------------------------------------
# dispatcher: lifespan, then a history of requests, then shutdown, inside the real worker_serve

DS_TABLES = [("/a", "/b"), ("/b", "/"), ("/a/b", "/a", "/b")]
DS_REQS = [("h1", b"/a/x?q=1"), ("h1", b"/b"), ("h1", b"/c"), ("ws/h1", b"/b/chat"), ("h1", b"/a/b/y")]


class RoutedApp(MountApp):
    async def __call__(self, scope: dict, receive: Any, send: Any) -> None:
        if scope["type"] != "lifespan" and not self.world.finished:
            self.world.routelog.append((self.mount, scope["type"], scope["path"]))
        await super().__call__(scope, receive, send)


def ds_build(params: tuple) -> Tuple[str, dict]:
    _, engine, ti, history = params
    mounts = DS_TABLES[ti]

    def factory(world: Any) -> Any:
        from hypercorn.app_wrappers import ASGIWrapper
        from hypercorn.middleware.dispatcher import AsyncioDispatcherMiddleware, TrioDispatcherMiddleware

        world.fanlog = []
        world.routelog = []
        table = {}
        for i, m in enumerate(mounts):
            table[m] = RoutedApp(world, {"lifespan": [("lifespan_loop",)], "http": OK_APP, "websocket": WS_APP}, i)
        cls = AsyncioDispatcherMiddleware if engine == "asyncio" else TrioDispatcherMiddleware
        return ASGIWrapper(OuterLog(world, cls(table)))

    events: List[tuple] = []
    for k, ri in enumerate(history):
        carrier, target = DS_REQS[ri]
        data = h1_request(b"GET", target) if carrier == "h1" else ws_h1_handshake(target)
        events += [("connect", k, {"carrier": carrier, "methods": [b"GET"]}), ("data", k, data), ("wait_status", k), ("eof", k)]
    events.append(("shutdown",))
    sc = {"level": "serve", "app_factory": factory, "client_factory": make_client,
          "sources": [("client", events), ("clock", [("tick",), ("tick",)])], "trio_rev": False,
          "config": {"startup_timeout": 7, "shutdown_timeout": 3, "graceful_timeout": 2, "keep_alive_timeout": 50},
          "randint": None}
    return engine, sc


def do_ds(params: tuple, prefix: List[int]) -> ExecResult:
    _, engine, ti, history = params
    mounts = DS_TABLES[ti]
    eng, sc = ds_build(params)
    w = run_world(eng, sc, prefix)
    viol = generic_violations(w) + fan_oracle(w, ("fan", engine, mounts))
    statuses = []
    for k in range(len(history)):
        rec = w.conns.get(k)
        resp = rec.client.h1.responses if rec is not None and rec.client is not None and rec.client.h1 is not None else []
        statuses.append(resp[0]["status"] if resp else None)
    complete = w.shutdown_at is not None and all(s is not None for s in statuses)
    if complete:  # every request of the history was answered and the shutdown trigger fired: the whole history ran
        want_routes, want_status = [], []
        for ri in history:
            carrier, target = DS_REQS[ri]
            stype = "http" if carrier == "h1" else "websocket"
            hit = ref.dispatch_expect(list(mounts), target.split(b"?")[0].decode())
            if hit is None:
                want_status.append(404)
            else:
                want_routes.append((hit[0], stype, hit[1]))
                want_status.append(200 if carrier == "h1" else 101)
        tag = f"{engine}:serve"
        if list(w.routelog) != want_routes:
            viol.append(V("e2e-dispatch-route", f"{tag}:routes", f"mounts {mounts} history {[DS_REQS[r] for r in history]}: "
                                                               f"routed {w.routelog}, wanted {want_routes}"))
        if statuses != want_status:
            viol.append(V("e2e-dispatch-route", f"{tag}:status", f"mounts {mounts} history {[DS_REQS[r] for r in history]}: "
                                                               f"client saw {statuses}, wanted {want_status}"))
        started = [m for who, m, t in w.fanlog if who == "mount" and t == "lifespan.startup.complete"]
        if sorted(started) != list(range(len(mounts))):
            viol.append(V("fanout-complete-lost", f"{engine}:serve:startup-per-mount", f"{w.fanlog}"))
    if os.environ.get("MC_VERBOSE"):
        describe(w)
        print("fan-out log:", w.fanlog, "routes:", w.routelog, "statuses:", statuses)
    obs = (default_observation(w), tuple(w.fanlog), tuple(w.routelog), tuple(statuses))
    sample = {"params": repr(params), "routes": [list(map(str, x)) for x in w.routelog], "statuses": statuses}
    return ExecResult(w.chooser.trace, viol, digest(obs), complete, w.sigs, sample)


# ---------------------------------------------------------------------------------------------
# families


def scenarios(tier: str) -> List[Any]:
    fams: List[Any] = []
    hops_range = range(0, 4) if tier == "quick" else range(0, 5)
    combos = [(s, o) for s in (0, 1, 2) for o in (0, 1, 2)]
    if tier == "quick":  # separator/name style x companion headers: a covering selection for the legacy headers
        legacy_combos = [(0, 0), (1, 1), (2, 2), (0, 2), (1, 0)]
    else:
        legacy_combos = combos
    for hops in hops_range:
        for style, others in legacy_combos:
            for ti in (0, 1, 2):
                fams.append(("pf", "legacy", ti, hops, style, others))
        for style, others in combos:
            fams.append(("pf", "modern", 3, hops, style, others))
        fams.append(("pfx", hops))
        for mode, tis in (("legacy", (0, 1, 2)), ("modern", (3,))):
            fams += [("pfn", mode, ti, hops) for ti in tis]  # requests without a Host header
            fams.append(("pfh", mode, hops))  # request histories through one instance
    fams.append(("pf-lifespan",))
    fams += [("disp", cls, stype) for cls in ("asyncio", "trio") for stype in ("http", "websocket")]
    fams += [("disph", cls, k) for cls in ("asyncio", "trio") for k in (1, 2, 3)]
    fams += [("red", kind) for kind in R_KINDS]
    fams += [("redh", ci, depth) for ci in range(len(R_CONF)) for depth in (2, 3)]
    progs2 = list(itertools.product(FAN_PROGRAMS, repeat=2))
    if tier == "quick":
        progs3 = [("ok", "ok", "ok"), ("ok", "now", "never"), ("ok", "raise1", "ok"), ("now", "ok", "fail"),
                  ("ok", "late_raise", "noshut")]
    else:
        progs3 = list(itertools.product(FAN_PROGRAMS, repeat=3))
    for engine in ("asyncio", "trio"):
        fams += [("fan", engine, p) for p in progs2 + progs3]
        fams += [("fanx", engine, p) for p in fanx_tables(tier)]
        fams += [("fan2", engine, p) for p in fanx_tables(tier)]  # the same worlds as the second run of one dispatcher object
        fams += [("e2e", engine, i) for i in range(len(E2E))]
        for ti in range(len(DS_TABLES)):
            nreq = range(len(DS_REQS))
            hists = [()] + [(a,) for a in nreq] + list(itertools.product(nreq, repeat=2))
            if tier != "quick" or ti == 0:
                hists += list(itertools.product(nreq, repeat=3))
            fams += [("ds", engine, ti, h) for h in hists]
    return fams


def fanx_tables(tier: str) -> List[tuple]:
    pairs = list(itertools.product(FANX_PROGRAMS, repeat=2))
    triples = list(itertools.product(FANX_PROGRAMS, repeat=3))
    if tier == "quick":
        triples = [("ok", "now", "gs"), ("gs", "gs", "now")]
    return pairs + triples


def cases(fam: tuple, tier: str) -> List[tuple]:
    kind = fam[0]
    nmax = 3 if tier == "quick" else 4
    if kind == "pf":
        _, mode, ti, hops, style, others = fam
        sk = (style + others) % 2
        return [("pf", mode, ti, hops, style, others, sk, fields, prefix, 0)
                for fields in field_layouts(nmax) for prefix in PREFIXES]
    if kind == "pfx":
        hops = fam[1]
        return [("pf", "modern", 3, hops, style, 0, 0, fields, prefix, 1)
                for style in (0, 1) for fields in field_layouts(min(nmax, 3), len(EXOTIC)) for prefix in (0, 1, 2, 4)]
    if kind == "pfn":
        _, mode, ti, hops = fam
        combos = [(0, 0), (1, 1), (2, 2)] if tier == "quick" else [(s, o) for s in (0, 1, 2) for o in (0, 1, 2)]
        return [("pf", mode, ti, hops, style, others, (style + hm) % 2, fields, prefix, 0, hm)
                for style, others in combos for hm in (1, 2) for fields in field_layouts(nmax - 1) for prefix in PREFIXES]
    if kind == "pfh":
        _, mode, hops = fam
        full, small = pfh_alphabet(False), pfh_alphabet(True)
        hists = [(a,) for a in full] + list(itertools.product(full, repeat=2))
        hists += list(itertools.product(small if tier == "quick" else full, repeat=3))
        return [("pfh", mode, hops, h) for h in hists]
    if kind == "pf-lifespan":
        return [("pf-lifespan", mode, hops) for mode in ("legacy", "modern") for hops in range(0, 4)]
    if kind == "disp":
        _, cls, stype = fam
        return [("disp", cls, mounts, path, stype) for mounts in mount_tables() for path in request_paths()]
    if kind == "disph":
        _, cls, k = fam
        full = [(p, t) for p in DH_PATHS for t in ("http", "websocket")]
        small = [(p, "http") for p in DH_PATHS[:5]] + [("/b/", "websocket"), ("/c", "websocket")]
        hists = list(itertools.product(full, repeat=2)) + list(itertools.product(small if tier == "quick" else full, repeat=3))
        return [("disph", cls, mounts, h) for mounts in mount_tables() if len(mounts) == k for h in hists]
    if kind == "red":
        return [("red", hi, ci, pi, qi, ri, fam[1]) for hi in range(len(R_HOSTS)) for ci in range(len(R_CONF))
                for pi in range(len(R_PATHS)) for qi in range(len(R_QUERIES)) for ri in range(len(R_ROOTS))
                if red_in_space(ci, (fam[1], hi))]
    if kind == "redh":
        _, ci, depth = fam
        alpha = redh_alphabet(ci, tier == "quick" and depth == 3)
        return [("redh", ci, h) for h in itertools.product(alpha, repeat=depth)]
    raise ValueError(fam)


def bounds(tier: str, params: Any) -> dict:
    if params[0] in ("e2e", "ds"):
        return {"M": 0, "S": 0, "R": 0}
    if params[0] in ("fanx", "fan2"):  # (small worlds: 3-6 events)
        r = 1 if params[1] == "trio" else 0
        if len(params[2]) > 2:
            return {"M": 1, "S": 2, "R": r}
        return {"M": 2, "S": 3, "R": r} if tier == "quick" else {"M": 3, "S": 4, "R": 2 * r}
    if tier == "quick" or len(params[2]) > 2:
        return {"M": 1, "S": 2, "R": 0}
    return {"M": 2, "S": 3, "R": 1 if params[1] == "trio" else 0}


_DIRECT = {"pf": do_pf, "pfh": do_pfh, "pf-lifespan": do_pf_lifespan, "disp": do_disp, "disph": do_disph, "red": do_red,
           "redh": do_redh}


def execute(params: Any, prefix: List[int]) -> ExecResult:
    params = _tuplify(params)
    if params[0] == "fan":
        return do_fan(params, prefix)
    if params[0] == "e2e":
        return do_e2e(params, prefix)
    if params[0] == "fanx":
        return do_fanx(params, prefix)
    if params[0] == "fan2":
        return do_fan2(params, prefix)
    if params[0] == "ds":
        return do_ds(params, prefix)
    try:
        return _DIRECT[params[0]](params)
    except HarnessError:
        raise
    except Exception as e:  # the middleware itself raised on an input of the enumerated (valid) space
        from mc.harness import exc_site

        return result(params, [V("middleware-raised", f"{params[0]}:{exc_site(e)}", repr(e))], ("raised", type(e).__name__), True)


def _tuplify(o: Any) -> Any:
    return tuple(_tuplify(x) for x in o) if isinstance(o, (list, tuple)) else o


def explore_item_custom(params: Any, tier: str, deadline: float) -> dict:
    if params[0] in ("fan", "fanx", "fan2", "e2e", "ds"):
        seen: set = set()

        def once(p: Any, prefix: List[int]) -> ExecResult:
            # one witness per (clause, key) and scenario, so that a defect showing in every interleaving does not
            # crowd other violations out of the framework's bounded lists
            r = execute(p, prefix)
            fresh = [v for v in r.violations if (v["clause"], v["key"]) not in seen]
            seen.update((v["clause"], v["key"]) for v in fresh)
            r.violations = fresh
            return r

        return explore_item(once, params, bounds(tier, params), deadline, MAX_EXEC_PER_ITEM)
    return run_family(execute, cases(params, tier), deadline)


# wave h documentation (what was added to the enumeration; see DESIGN.md 11.0)
_WAVE_H = '+ fan2: the fanx worlds (all 9 pairs + triples) as the SECOND lifespan run through one dispatcher object (run 1: every mount answers at once)'
RULE = RULE + " " + _WAVE_H
BOUNDS_DOC = {k: v + " " + _WAVE_H for k, v in BOUNDS_DOC.items()}
