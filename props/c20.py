"""C20 - middleware semantics: proxy trust boundary, dispatch routing + lifespan fan-out, HTTPS redirect.

The real middleware classes are executed; nothing is mocked below them.  Four kinds of scenario:

  pf / pfx / pf-lifespan   ProxyFixMiddleware called directly (its coroutine never suspends) on synthetic scopes.
      Enumerated: mode {legacy, modern} x trusted_hops {0..3} (thorough 0..4) x target header {x-forwarded-for, -proto,
      -host | forwarded} x EVERY distribution of n <= 3 (thorough 4) list items over <= 3 header fields of <= 3 items x
      EVERY assignment of a 4-value alphabet to the items x separator/name-case style {",", ", ", " , " + Mixed-Case
      name} x companion headers {absent, short, long (+ a header of the other form that must be ignored)} (quick: 5
      of the 9 style x companion combinations for the legacy headers) x scope kind
      x attacker prefix {none, extra leading field, leading list items, both, multi-item mixed-case field, field(s) of
      the other form}.  pfx: the same structure over exotic RFC 7239 spellings (quoted, upper-case parameters, IPv6,
      obfuscated, empty element) where only the safety clauses are demanded.
  disp   Asyncio/TrioDispatcherMiddleware called directly: every ordered mount table of 1..3 mounts over
      {"/", "/a", "/a/b", "/b"} x every path of <= 3 segments over {a, b, ab} with/without trailing slash x {http,
      websocket} scope.
  red    HTTPToHTTPSRedirectMiddleware called directly: request host x configured host x raw path (escapes, "//",
      ";", ":") x query x root_path x scope kind {http 1.1, http 2, https, ws 1.1, ws 2, ws without the denial-response
      extension, wss, lifespan}.
  fan    lifespan fan-out under Explorer A (real worker_serve on the virtual loop / instrumented trio): 2-3 mounted
      scripted apps drawn from {completes behind gates, completes at once, startup.failed, never completes, raises
      at once, raises after its gate, raises after startup, returns without shutdown.complete}; every release order
      of the gates, the shutdown trigger and timer ticks interleaved within (M, S, R).
  e2e    a few requests through the real TCPServer (h1, ws/h1) with each middleware mounted, both engines.

Oracle clauses (reference rules in mc/x_c19c20_ref.py):
  pf-caller-scope-mutated   the scope object handed to the middleware differs after the call (deep comparison)
  pf-untouched              zero hops / too few values, yet client / scheme / host changed
  pf-trusted-value          plain spellings: client / scheme / host differ from the value trusted_hops from the right
  pf-untrusted-value-used   metamorphic: with enough values, an attacker prefix changed client / scheme / host
  pf-passthrough            other scope keys / other headers / receive / send altered, inner app not called exactly once
  dispatch-route            wrong mount, wrong or empty stripped path, more than one mount called, 404 although a mount matches
  dispatch-404              no mount matches but no 404 answer (http scope)
  dispatch-404-websocket    no mount matches, websocket scope: the answer is not a legal websocket denial
                            (websocket.http.response.start 404 / websocket.close)
  redirect-location / redirect-missing / secure-passthrough
  fanout-early-complete / fanout-complete-twice / fanout-complete-lost   outer lifespan.X.complete sent before every
                            mount sent its own / more than once / not at all although every mount did
  middleware-raised         the middleware raised on an input of the enumerated space
  e2e-* / dispatch-404*     the same statements observed at the wire (keys ...:e2e-...)
"""
from __future__ import annotations

import copy
import itertools
import os
from typing import Any, Dict, List, Optional, Tuple

from mc import x_c19c20_ref as ref
from mc.clients import h1_request, make_client, ws_h1_handshake
from mc.core import HarnessError, ScriptApp, digest
from mc.explore import ExecResult, V, explore_item
from mc.harness import default_observation, describe, generic_violations, run_world
from mc.x_c19c20_enum import run_family, stable_repr

ID = "C20"
LEVEL = "model_checking"
TECHNIQUE = ("bounded exhaustive enumeration of header multisets / mount tables x paths / URLs x scope kinds on the real "
             "middleware classes, with reference rules and a metamorphic attacker-prefix oracle; stateless "
             "deviation-bounded exploration (CHESS-style) of the dispatcher's lifespan fan-out inside the real "
             "worker_serve on a virtual-time loop (asyncio) and instrumented trio")
RULE = ("one evaluation = one case (header multiset + hops + prefix; mount table + path; URL + scope kind) or one "
        "interleaving of gate releases / shutdown / ticks for the fan-out; distinct by digest of what the wrapped "
        "application received and what the middleware sent; non-trivial = the middleware changed the scope, routed to a "
        "mount, answered itself, or (fan-out) an application ran and a non-default choice was taken")
ASSUMPTIONS = [
    "forwarding header values are ASCII; positive equality is demanded only for plain spellings (lower-case parameter "
    "names, token values); for exotic RFC 7239 spellings only the safety clauses are demanded",
    "modern mode with too few Forwarded values while legacy headers carry enough: both 'untouched' and 'legacy value' "
    "are accepted (undocumented fallback)",
    "dispatcher prefix match is the documented string-prefix match in dictionary order",
    "redirect target = scheme://(configured host or Host header) + root_path + raw_path [+ ?query]; a websocket over "
    "HTTP/2 may be redirected to https or wss; without the denial-response extension only a refusal is possible",
    "fan-out: judged at the ASGI messages the middleware sends to the server (mount-raised exceptions, which the server "
    "treats as 'lifespan unsupported', are not 'complete' messages)",
    "environment model (fake transport, virtual loop) is bound to real sockets by ./check selftest",
]
BOUNDS_DOC = {"quick": "n<=3 items, hops 0..3; fan-out: all 64 program pairs + 5 selected triples, M<=1,S<=2,R=0",
              "thorough": "n<=4 items, hops 0..4; fan-out: all 64 program pairs at M<=2,S<=3 (trio R<=1), all 512 triples "
                          "at M<=1,S<=2"}
BUDGET = {"quick": 100, "thorough": 1150}
MAX_EXEC_PER_ITEM = 60000


# ---------------------------------------------------------------------------------------------
# helpers


def drive(coro: Any) -> Any:
    """Run a coroutine that must not suspend (every awaitable below it is ours and returns at once)."""
    try:
        coro.send(None)
    except StopIteration as e:
        return e.value
    coro.close()
    raise HarnessError("middleware coroutine suspended outside an event loop")


class Recorder:
    """Inner ASGI application: records how it was called; optionally answers."""

    def __init__(self, name: Any = None, answer: bool = False) -> None:
        self.name = name
        self.calls: List[tuple] = []
        self.answer = answer

    async def __call__(self, scope: dict, receive: Any, send: Any) -> None:
        self.calls.append((scope, receive, send))
        if self.answer:
            await send({"type": "http.response.start", "status": 200, "headers": []})
            await send({"type": "http.response.body", "body": b"", "more_body": False})


class Outbox:
    def __init__(self) -> None:
        self.messages: List[dict] = []

    async def send(self, message: dict) -> None:
        self.messages.append(message)

    async def receive(self) -> dict:
        raise HarnessError("middleware called receive()")


def result(case: Any, viol: List[dict], obs: Any, nontrivial: bool) -> ExecResult:
    if os.environ.get("MC_VERBOSE"):
        print("case:", case)
        print("observation:", stable_repr(obs)[:2000])
    return ExecResult([], viol, digest(obs), nontrivial, (), {"case": repr(case)[:300], "obs": stable_repr(obs)[:400]})


# ---------------------------------------------------------------------------------------------
# ProxyFix

LEGACY = [b"x-forwarded-for", b"x-forwarded-proto", b"x-forwarded-host"]
MIXED = {b"x-forwarded-for": b"X-Forwarded-For", b"x-forwarded-proto": b"X-Forwarded-Proto",
         b"x-forwarded-host": b"X-Forwarded-Host", b"forwarded": b"Forwarded"}
FIELD_OF = {b"x-forwarded-for": "client", b"x-forwarded-proto": "scheme", b"x-forwarded-host": "host"}
ALPHA = {
    b"x-forwarded-for": ["1.1.1.1", "2.2.2.2", "3.3.3.3", "4.4.4.4"],
    b"x-forwarded-proto": ["https", "http", "wss", "ws"],
    b"x-forwarded-host": ["a.example", "b.example:8443", "c.example", "d.example"],
    b"forwarded": ["for=1.1.1.1", "for=2.2.2.2;proto=https", "for=3.3.3.3;proto=wss;host=a.example",
                   "host=b.example:8443;for=4.4.4.4"],
}
EXOTIC = ['For=1.1.1.1', 'for="2.2.2.2"', 'for="[2001:db8::1]:4711";proto=https', 'for=3.3.3.3; proto=https',
          'FOR=4.4.4.4;PROTO=wss;HOST=a.example', 'for=_hidden;by=9.9.9.9', 'proto=https;host="b.example"', '']
EVIL = {b"x-forwarded-for": "6.6.6.6", b"x-forwarded-proto": "gopher", b"x-forwarded-host": "evil.example",
        b"forwarded": "for=6.6.6.6;proto=gopher;host=evil.example"}
SEPS = [b",", b", ", b" , "]
PREFIXES = [0, 1, 2, 3, 4, 5]


def compositions(n: int) -> List[Tuple[int, ...]]:
    """All ways to distribute n list items over 1..3 header fields of 1..3 items."""
    out = []
    for k in (1, 2, 3):
        for parts in itertools.product((1, 2, 3), repeat=k):
            if sum(parts) == n:
                out.append(parts)
    return out


def field_layouts(nmax: int, alphabet: int = 4) -> List[Tuple[Tuple[int, ...], ...]]:
    out = []
    for n in range(1, nmax + 1):
        for parts in compositions(n):
            for vals in itertools.product(range(alphabet), repeat=n):
                it = iter(vals)
                out.append(tuple(tuple(next(it) for _ in range(p)) for p in parts))
    return out


def pf_headers(target: bytes, style: int, fields: tuple, others: int, prefix: int, alphabet: List[str]) -> List[Tuple[bytes, bytes]]:
    sep = SEPS[style]
    name = MIXED[target] if style == 2 else target
    hs: List[Tuple[bytes, bytes]] = [(b"host", b"internal:8000"), (b"accept", b"*/*")]
    companions = [h for h in LEGACY if h != target] if target != b"forwarded" else list(LEGACY)
    if others >= 1:
        for h in companions:
            if others == 1:
                hs.append((h, ALPHA[h][0].encode()))
            else:
                hs.append((h, (ALPHA[h][1] + ", " + ALPHA[h][2]).encode()))
                hs.append((h, ALPHA[h][3].encode()))
        if others == 2 and target != b"forwarded":
            hs.append((b"forwarded", b"for=7.7.7.7;proto=ftp;host=ignored.example, for=8.8.8.8;proto=ftp;host=ignored2.example"))
    target_fields = [(name, sep.join(alphabet[i].encode() for i in f)) for f in fields]
    evil = EVIL[target].encode()
    if prefix in (2, 3):
        n0, v0 = target_fields[0]
        target_fields[0] = (n0, evil + sep + evil + b"2" + sep + v0)
    hs += target_fields
    hs.append((b"user-agent", b"c20"))
    lead: List[Tuple[bytes, bytes]] = []
    if prefix in (1, 3):
        lead.append((target, evil))
    if prefix == 4:
        lead.append((MIXED[target], evil + b" , " + evil + b"2,"+ evil + b"3"))
    if prefix == 5:
        if target == b"forwarded":
            lead += [(h, (EVIL[h] + ", " + EVIL[h] + "2, " + EVIL[h] + "3, " + EVIL[h] + "4").encode()) for h in LEGACY]
        else:
            lead.append((b"forwarded", b"for=6.6.6.6;proto=gopher;host=evil.example, " * 3 + b"for=6.6.6.7;proto=gopher;host=evil2.example"))
    return lead + hs


def pf_scope(kind: int, headers: List[Tuple[bytes, bytes]]) -> dict:
    scope = {
        "type": "http" if kind == 0 else "websocket", "asgi": {"version": "3.0", "spec_version": "2.3"},
        "http_version": "1.1", "scheme": "http" if kind == 0 else "ws", "path": "/p", "raw_path": b"/p",
        "query_string": b"q=1", "root_path": "", "headers": headers, "client": ("10.9.8.7", 5555),
        "server": ("127.0.0.1", 8000), "extensions": {"websocket.http.response": {}}, "state": {"k": [1, 2]},
    }
    if kind == 0:
        scope["method"] = "GET"
    else:
        scope["subprotocols"] = ["chat"]
    return scope


def pf_run(mode: str, hops: int, scope: dict) -> Tuple[Optional[dict], List[dict], dict]:
    """-> (inner scope or None, passthrough violations, summary)."""
    from hypercorn.middleware import ProxyFixMiddleware

    before = copy.deepcopy(scope)
    inner = Recorder()
    box = Outbox()
    mw = ProxyFixMiddleware(inner, mode=mode, trusted_hops=hops)  # type: ignore
    drive(mw(scope, box.receive, box.send))
    viol: List[dict] = []
    if scope != before:
        fields = sorted(k for k in set(scope) | set(before) if scope.get(k) != before.get(k))
        viol.append(V("pf-caller-scope-mutated", f"{mode}:{'+'.join(fields)}", f"{before} -> {scope}"))
    if len(inner.calls) != 1:
        viol.append(V("pf-passthrough", f"{mode}:inner-calls:{len(inner.calls)}", ""))
        return None, viol, {}
    got, rcv, snd = inner.calls[0]
    if rcv != box.receive or snd != box.send:
        viol.append(V("pf-passthrough", f"{mode}:receive-send", ""))
    if box.messages:
        viol.append(V("pf-passthrough", f"{mode}:sent-messages", box.messages))
    for k in sorted(set(got) | set(before)):
        if k in ("client", "scheme", "headers"):
            continue
        if got.get(k, "<absent>") != before.get(k, "<absent>"):
            viol.append(V("pf-passthrough", f"{mode}:scope-key:{k}", f"{before.get(k)!r} -> {got.get(k)!r}"))
    nonhost_before = [h for h in before["headers"] if h[0].lower() != b"host"]
    nonhost_got = [tuple(h) for h in got["headers"] if h[0].lower() != b"host"]
    if nonhost_got != nonhost_before:
        viol.append(V("pf-passthrough", f"{mode}:other-headers", f"{nonhost_before} -> {nonhost_got}"))
    summary = {"client": got.get("client"), "scheme": got.get("scheme"),
               "host": [h[1] for h in got["headers"] if h[0].lower() == b"host"]}
    return got, viol, summary


def pf_judge(mode: str, summary: dict, before: dict, accept: List[Dict[str, Optional[str]]]) -> List[dict]:
    """Is the summary one of the acceptable outcomes?  (report against the first = preferred one)"""
    orig_host = [h[1] for h in before["headers"] if h[0].lower() == b"host"]

    def diffs(want: Dict[str, Optional[str]]) -> List[dict]:
        out = []
        if want["client"] is None:
            if summary["client"] != before["client"]:
                out.append(V("pf-untouched", f"{mode}:client", f"{before['client']} -> {summary['client']}"))
        elif not summary["client"] or summary["client"][0] != want["client"]:
            out.append(V("pf-trusted-value", f"{mode}:client", f"{summary['client']} wanted {want['client']}"))
        if want["scheme"] is None:
            if summary["scheme"] != before["scheme"]:
                out.append(V("pf-untouched", f"{mode}:scheme", f"{before['scheme']} -> {summary['scheme']}"))
        elif summary["scheme"] != want["scheme"]:
            out.append(V("pf-trusted-value", f"{mode}:scheme", f"{summary['scheme']} wanted {want['scheme']}"))
        if want["host"] is None:
            if summary["host"] != orig_host:
                out.append(V("pf-untouched", f"{mode}:host", f"{orig_host} -> {summary['host']}"))
        elif summary["host"] != [want["host"].encode("latin1")]:
            out.append(V("pf-trusted-value", f"{mode}:host", f"{summary['host']} wanted {want['host']}"))
        return out

    results = [diffs(w) for w in accept]
    if any(not r for r in results):
        return []
    return results[0]


def do_pf(case: tuple) -> ExecResult:
    # ("pf", mode, target index (0..2 legacy, 3 forwarded), hops, style, others, scope kind, fields, prefix, exotic)
    _, mode, ti, hops, style, others, kind, fields, prefix, exotic = case
    target = (LEGACY + [b"forwarded"])[ti]
    alphabet = EXOTIC if exotic else ALPHA[target]
    viol: List[dict] = []
    base_headers = pf_headers(target, style, fields, others, 0, alphabet)
    headers = pf_headers(target, style, fields, others, prefix, alphabet)
    scope = pf_scope(kind, headers)
    before = copy.deepcopy(scope)
    got, v1, summary = pf_run(mode, hops, scope)
    viol += v1
    if got is None:
        return result(case, viol, ("no-call",), True)
    own = b"forwarded" if mode == "modern" else None
    if not exotic:
        want = ref.proxy_expect(mode, hops, headers)
        accept = [want]
        if mode == "modern" and ref.trusted(ref.list_values(headers, b"forwarded"), hops) is None:
            accept.append({"client": None, "scheme": None, "host": None})
        viol += pf_judge(mode, summary, before, accept)
    elif hops == 0:
        viol += pf_judge(mode, summary, before, [{"client": None, "scheme": None, "host": None}])
    # metamorphic: whatever the attacker prepends changes nothing once enough trusted values exist
    if prefix != 0:
        enough_names = [own] if own is not None else LEGACY
        base_scope = pf_scope(kind, base_headers)
        got0, v0, summary0 = pf_run(mode, hops, base_scope)
        viol += v0
        if got0 is not None and hops > 0:
            for name in enough_names:
                if len(ref.list_values(base_headers, name)) < hops:
                    continue
                flds = [FIELD_OF[name]] if name in FIELD_OF else ["client", "scheme", "host"]
                for f in flds:
                    if summary[f] != summary0[f]:
                        viol.append(V("pf-untrusted-value-used", f"{mode}:{f}:prefix{prefix}",
                                      f"without prefix {summary0[f]!r}, with prefix {summary[f]!r}; headers {headers}"))
    changed = summary["client"] != before["client"] or summary["scheme"] != before["scheme"] or \
        summary["host"] != [b"internal:8000"]
    return result(case, viol, (mode, hops, kind, summary["client"], summary["scheme"], tuple(summary["host"]),
                               len(got["headers"])), changed)


def do_pf_lifespan(case: tuple) -> ExecResult:
    from hypercorn.middleware import ProxyFixMiddleware

    _, mode, hops = case
    scope = {"type": "lifespan", "asgi": {"version": "3.0"}, "state": {}}
    before = copy.deepcopy(scope)
    inner, box = Recorder(), Outbox()
    drive(ProxyFixMiddleware(inner, mode=mode, trusted_hops=hops)(scope, box.receive, box.send))  # type: ignore
    viol = []
    if len(inner.calls) != 1 or inner.calls[0][0] != before or scope != before or box.messages:
        viol.append(V("pf-passthrough", f"{mode}:lifespan", inner.calls))
    return result(case, viol, ("lifespan", len(inner.calls)), False)


# ---------------------------------------------------------------------------------------------
# Dispatcher routing

MOUNT_POOL = ["/", "/a", "/a/b", "/b"]
SEGS = ["a", "b", "ab"]


def mount_tables() -> List[Tuple[str, ...]]:
    out = []
    for k in (1, 2, 3):
        out += list(itertools.permutations(MOUNT_POOL, k))
    return out


def request_paths() -> List[str]:
    out = ["/"]
    for n in (1, 2, 3):
        for segs in itertools.product(SEGS, repeat=n):
            p = "/" + "/".join(segs)
            out += [p, p + "/"]
    return out


def do_disp(case: tuple) -> ExecResult:
    # ("disp", cls, mounts, path, scope type)
    from hypercorn.middleware.dispatcher import AsyncioDispatcherMiddleware, TrioDispatcherMiddleware

    _, cls, mounts, path, stype = case
    apps = [Recorder(i) for i in range(len(mounts))]
    mw = (AsyncioDispatcherMiddleware if cls == "asyncio" else TrioDispatcherMiddleware)(dict(zip(mounts, apps)))
    scope = pf_scope(0 if stype == "http" else 1, [(b"host", b"x")])
    scope["path"] = path
    scope["raw_path"] = path.encode()
    box = Outbox()
    drive(mw(scope, box.receive, box.send))
    want = ref.dispatch_expect(list(mounts), path)
    called = [(a.name, a.calls[0][0].get("path")) for a in apps if a.calls]
    ncalls = sum(len(a.calls) for a in apps)
    viol: List[dict] = []
    tag = f"{cls}:{stype}"
    if want is not None:
        i, p = want
        if ncalls != 1 or called != [(i, p)]:
            viol.append(V("dispatch-route", f"{tag}:wrong-mount-or-path", f"mounts {mounts} path {path!r}: called {called}, wanted mount {i} path {p!r}"))
        if any(not cp for _, cp in called):
            viol.append(V("dispatch-route", f"{tag}:empty-path", f"mounts {mounts} path {path!r}: {called}"))
        if box.messages:
            viol.append(V("dispatch-route", f"{tag}:answered-itself", box.messages))
        if ncalls == 1:
            a = [x for x in apps if x.calls][0]
            if a.calls[0][1] != box.receive or a.calls[0][2] != box.send:
                viol.append(V("dispatch-route", f"{tag}:receive-send", ""))
    else:
        if ncalls:
            viol.append(V("dispatch-route", f"{tag}:called-without-match", f"mounts {mounts} path {path!r}: {called}"))
        types = [m.get("type") for m in box.messages]
        if stype == "http":
            ok = (len(box.messages) == 2 and types == ["http.response.start", "http.response.body"]
                  and box.messages[0].get("status") == 404 and not box.messages[1].get("more_body", False))
            if not ok:
                viol.append(V("dispatch-404", f"{tag}", box.messages))
        else:
            denial = (len(box.messages) >= 1 and types[0] == "websocket.http.response.start"
                      and box.messages[0].get("status") == 404
                      and all(t == "websocket.http.response.body" for t in types[1:]))
            closed = types == ["websocket.close"]
            if not (denial or closed):
                viol.append(V("dispatch-404-websocket", f"{tag}:{'+'.join(str(t) for t in types)}",
                              f"mounts {mounts} path {path!r}: {box.messages}"))
    obs = (cls, stype, tuple(called), tuple((m.get("type"), m.get("status")) for m in box.messages))
    return result(case, viol, obs, True)


# ---------------------------------------------------------------------------------------------
# HTTPS redirect

R_HOSTS = [b"example.com", b"example.com:8080", b"[::1]:8000", b"EXAMPLE.com"]
R_CONF = [None, "secure.example"]
R_PATHS = [b"/", b"/abc", b"/abc%3C", b"/a%2Fb", b"//evil.example/x", b"/a//b", b"/a/", b"/a;p=1", b"/a:b", b"/~u/",
           b"/a+b", b"/%E2%82%AC", b"/a/../b", b"/@evil.example"]
R_QUERIES = [b"", b"a=b", b"a=b&c=d%20e", b"x=/?y", b"next=//evil.example"]
R_ROOTS = ["", "/app"]
R_KINDS = ["http1", "http2", "https", "ws1", "ws2", "ws-noext", "wss", "lifespan"]


def do_red(case: tuple) -> ExecResult:
    from hypercorn.middleware import HTTPToHTTPSRedirectMiddleware

    _, hi, ci, pi, qi, ri, kind = case
    host, conf, raw_path, query, root = R_HOSTS[hi], R_CONF[ci], R_PATHS[pi], R_QUERIES[qi], R_ROOTS[ri]
    if kind == "lifespan":
        scope: dict = {"type": "lifespan", "asgi": {"version": "3.0"}, "state": {}}
    else:
        is_ws = kind.startswith("ws")
        scope = pf_scope(1 if is_ws else 0, [(b"accept", b"*/*"), (b"host", host), (b"x-other", b"1")])
        scope["scheme"] = {"http1": "http", "http2": "http", "https": "https", "ws1": "ws", "ws2": "ws", "ws-noext": "ws",
                           "wss": "wss"}[kind]
        scope["http_version"] = "2" if kind in ("http2", "ws2") else "1.1"
        scope["raw_path"] = raw_path
        scope["path"] = ref_unquote(raw_path)
        scope["query_string"] = query
        scope["root_path"] = root
        if kind == "ws-noext":
            scope["extensions"] = {}
    before = copy.deepcopy(scope)
    inner, box = Recorder(), Outbox()
    mw = HTTPToHTTPSRedirectMiddleware(inner, conf)  # type: ignore
    drive(mw(scope, box.receive, box.send))
    viol: List[dict] = []
    types = [m.get("type") for m in box.messages]
    secure = kind in ("https", "wss", "lifespan")
    if secure:
        ok = (len(inner.calls) == 1 and inner.calls[0][0] is scope and inner.calls[0][1] == box.receive
              and inner.calls[0][2] == box.send and not box.messages and scope == before)
        if not ok:
            viol.append(V("secure-passthrough", kind, f"calls {len(inner.calls)} messages {types}"))
    else:
        if inner.calls:
            viol.append(V("redirect-missing", f"{kind}:inner-app-called", ""))
        want_host = (conf.encode() if conf is not None else host).decode("latin1")
        if kind in ("http1", "http2"):
            start_t, body_t, schemes = "http.response.start", "http.response.body", ["https"]
        else:
            start_t, body_t = "websocket.http.response.start", "websocket.http.response.body"
            schemes = ["wss", "https"] if kind == "ws2" else ["wss"]
        if kind == "ws-noext" and types == ["websocket.close"]:
            pass  # nothing but a refusal is expressible
        elif not (len(types) >= 2 and types[0] == start_t and all(t == body_t for t in types[1:])
                  and not box.messages[-1].get("more_body", False)):
            viol.append(V("redirect-missing", f"{kind}:messages", types))
        else:
            start = box.messages[0]
            if start.get("status") not in (301, 302, 307, 308):
                viol.append(V("redirect-location", f"{kind}:status", start.get("status")))
            locs = [v for n, v in start.get("headers", []) if n.lower() == b"location"]
            wants = [ref.redirect_expect(s, want_host, root, raw_path, query) for s in schemes]
            if len(locs) != 1 or locs[0] not in wants:
                viol.append(V("redirect-location", f"{kind}:url", f"{locs} wanted {wants[0]}"))
        if scope != before:
            viol.append(V("redirect-location", f"{kind}:scope-mutated", ""))
    obs = (kind, len(inner.calls), tuple((m.get("type"), m.get("status"), tuple(m.get("headers", []))) for m in box.messages))
    return result(case, viol, obs, kind != "lifespan")


def ref_unquote(raw: bytes) -> str:
    from urllib.parse import unquote_to_bytes

    return unquote_to_bytes(raw).decode("utf-8", "replace")


# ---------------------------------------------------------------------------------------------
# lifespan fan-out (Explorer A)

STARTUP_OK = {"type": "lifespan.startup.complete"}
SHUTDOWN_OK = {"type": "lifespan.shutdown.complete"}
FAN_PROGRAMS = ["ok", "now", "fail", "never", "raise0", "raise1", "late_raise", "noshut"]


def fan_program(name: str, m: int) -> list:
    s, z = f"s{m}", f"z{m}"
    return {
        "ok": [("recv",), ("gate", s), ("send", STARTUP_OK), ("recv",), ("gate", z), ("send", SHUTDOWN_OK)],
        "now": [("lifespan_loop",)],
        "fail": [("recv",), ("gate", s), ("send", {"type": "lifespan.startup.failed", "message": "no"}), ("return",)],
        "never": [("recv",), ("recv",), ("return",)],
        "raise0": [("raise",)],
        "raise1": [("recv",), ("gate", s), ("raise",)],
        "late_raise": [("recv",), ("gate", s), ("send", STARTUP_OK), ("gate", z), ("raise",)],
        "noshut": [("recv",), ("gate", s), ("send", STARTUP_OK), ("recv",), ("gate", z), ("return",)],
    }[name]


class MountApp(ScriptApp):
    """Scripted application of one mount; logs every message it sends into the world's fan-out log."""

    def __init__(self, world: Any, apps: dict, mount: int) -> None:
        super().__init__(world, apps)
        self.mount = mount

    async def __call__(self, scope: dict, receive: Any, send: Any) -> None:
        w = self.world

        async def logged_send(message: dict) -> None:
            if not w.finished:
                w.fanlog.append(("mount", self.mount, message.get("type")))
            await send(message)

        await super().__call__(scope, receive, logged_send)


class OuterLog:
    """Sits between the server and the dispatcher: logs what the dispatcher sends to the server."""

    def __init__(self, world: Any, app: Any) -> None:
        self.world = world
        self.app = app

    async def __call__(self, scope: dict, receive: Any, send: Any) -> None:
        w = self.world

        async def logged_send(message: dict) -> None:
            if scope["type"] == "lifespan" and not w.finished:
                w.fanlog.append(("outer", None, message.get("type")))
            await send(message)

        await self.app(scope, receive, logged_send)


def fan_build(params: tuple) -> Tuple[str, dict]:
    _, engine, programs = params
    paths = ["/m%d" % i for i in range(len(programs))]

    def factory(world: Any) -> Any:
        from hypercorn.app_wrappers import ASGIWrapper
        from hypercorn.middleware.dispatcher import AsyncioDispatcherMiddleware, TrioDispatcherMiddleware

        world.fanlog = []
        mounts = {}
        for i, (p, prog) in enumerate(zip(paths, programs)):
            mounts[p] = MountApp(world, {"lifespan": fan_program(prog, i), "*": [("recv_until_disconnect",)]}, i)
        cls = AsyncioDispatcherMiddleware if engine == "asyncio" else TrioDispatcherMiddleware
        return ASGIWrapper(OuterLog(world, cls(mounts)))

    sources = [("m%d" % i, [("release", f"s{i}"), ("release", f"z{i}")]) for i in range(len(programs))]
    sources += [("ctl", [("shutdown",)]), ("clock", [("tick",), ("tick",)])]
    sc = {"level": "serve", "app_factory": factory, "client_factory": make_client, "sources": sources, "trio_rev": True,
          "config": {"startup_timeout": 7, "shutdown_timeout": 3, "graceful_timeout": 2}, "randint": None}
    return engine, sc


def fan_oracle(w: Any, params: tuple) -> List[dict]:
    _, engine, programs = params
    out: List[dict] = []
    n = len(programs)
    for phase in ("startup", "shutdown"):
        msg = f"lifespan.{phase}.complete"
        done: set = set()
        outer = 0
        for who, m, t in w.fanlog:
            if who == "mount" and t == msg:
                done.add(m)
            elif who == "outer" and t == msg:
                outer += 1
                if len(done) < n:
                    missing = sorted(set(range(n)) - done)
                    out.append(V("fanout-early-complete", f"{engine}:{phase}:missing-{len(missing)}-of-{n}",
                                 f"programs {programs} log {w.fanlog}"))
        if outer > 1:
            out.append(V("fanout-complete-twice", f"{engine}:{phase}", f"programs {programs} log {w.fanlog}"))
        if outer == 0 and len(done) == n:
            out.append(V("fanout-complete-lost", f"{engine}:{phase}", f"programs {programs} log {w.fanlog}"))
    return out


def do_fan(params: tuple, prefix: List[int]) -> ExecResult:
    engine, sc = fan_build(params)
    w = run_world(engine, sc, prefix)
    viol = generic_violations(w) + fan_oracle(w, params)
    if os.environ.get("MC_VERBOSE"):
        describe(w)
        print("fan-out log:", w.fanlog)
    obs = (default_observation(w), tuple(w.fanlog))
    choices = w.chooser.choices
    sample = {"params": repr(params), "choices": choices[:40], "fanlog": [list(map(str, x)) for x in w.fanlog][:12],
              "serve": w.serve_result}
    return ExecResult(w.chooser.trace, viol, digest(obs), bool(w.instances) and any(choices), w.sigs, sample)


# ---------------------------------------------------------------------------------------------
# end to end through the real TCPServer

OK_APP = [("recv_body",), ("send", {"type": "http.response.start", "status": 200, "headers": [(b"content-length", b"2")]}),
          ("send", {"type": "http.response.body", "body": b"ok", "more_body": False})]
WS_APP = [("recv",), ("send", {"type": "websocket.accept"}), ("recv_until_disconnect",)]
E2E = [
    # (middleware, carrier, target, extra headers, expectation)
    ("disp", "h1", b"/a/x?q=1", (), ("app", "/x")),
    ("disp", "h1", b"/a", (), ("app", "/")),
    ("disp", "h1", b"/c", (), ("status", 404)),
    ("disp", "ws/h1", b"/b/chat", (), ("app", "/chat")),
    ("disp", "ws/h1", b"/c", (), ("status", 404)),
    ("pf1", "h1", b"/p", ((b"X-Forwarded-For", b"6.6.6.6, 1.1.1.1"), (b"X-Forwarded-Proto", b"https"),
                          (b"X-Forwarded-Host", b"pub.example")), ("scope", "1.1.1.1", "https", b"pub.example")),
    ("pf2", "h1", b"/p", ((b"X-Forwarded-For", b"6.6.6.6"), (b"X-Forwarded-For", b"2.2.2.2, 1.1.1.1"),
                          (b"X-Forwarded-Proto", b"https")), ("scope", "2.2.2.2", None, None)),
    ("pf2", "ws/h1", b"/p", ((b"X-Forwarded-For", b"1.1.1.1"),), ("scope", None, None, None)),
    ("red", "h1", b"/x%20y?a=b", (), ("location", b"https://hypercorn/x%20y?a=b")),
    ("red", "ws/h1", b"/x?a=b", (), ("location", b"wss://hypercorn/x?a=b")),
]


def e2e_build(params: tuple) -> Tuple[str, dict]:
    _, engine, idx = params
    mwname, carrier, target, extra, _ = E2E[idx]

    def factory(world: Any) -> Any:
        from hypercorn.app_wrappers import ASGIWrapper
        from hypercorn.middleware import HTTPToHTTPSRedirectMiddleware, ProxyFixMiddleware
        from hypercorn.middleware.dispatcher import AsyncioDispatcherMiddleware, TrioDispatcherMiddleware

        inner = ScriptApp(world, {"http": OK_APP, "websocket": WS_APP})
        if mwname == "disp":
            cls = AsyncioDispatcherMiddleware if engine == "asyncio" else TrioDispatcherMiddleware
            app: Any = cls({"/a": inner, "/b": inner})
        elif mwname == "pf1":
            app = ProxyFixMiddleware(inner, mode="legacy", trusted_hops=1)  # type: ignore
        elif mwname == "pf2":
            app = ProxyFixMiddleware(inner, mode="legacy", trusted_hops=2)  # type: ignore
        else:
            app = HTTPToHTTPSRedirectMiddleware(inner, None)  # type: ignore
        return ASGIWrapper(app)

    if carrier == "h1":
        data = h1_request(b"GET", target, list(extra))
    else:
        data = ws_h1_handshake(target, list(extra))
    sc = {"level": "conn", "conns": {0: {"carrier": carrier}}, "client_factory": make_client, "app_factory": factory,
          "config": {"keep_alive_timeout": 5}, "sources": [("client", [("data", 0, data)])], "trio_rev": False}
    return engine, sc


def do_e2e(params: tuple, prefix: List[int]) -> ExecResult:
    _, engine, idx = params
    mwname, carrier, target, extra, expect = E2E[idx]
    eng, sc = e2e_build(params)
    w = run_world(eng, sc, prefix)
    viol = generic_violations(w)
    resp = w.conns[0].client.h1.responses
    status = resp[0]["status"] if resp else None
    insts = [i for i in w.instances if i.type in ("http", "websocket")]
    tag = f"{engine}:{carrier}"
    if expect[0] == "app":
        if len(insts) != 1 or insts[0].scope.get("path") != expect[1]:
            viol.append(V("e2e-dispatch-route", tag, [(i.type, i.scope.get("path")) for i in insts]))
        if status != (200 if carrier == "h1" else 101):
            viol.append(V("e2e-dispatch-route", f"{tag}:status", status))
    elif expect[0] == "status":
        clause = "dispatch-404" if carrier == "h1" else "dispatch-404-websocket"
        stype = "http" if carrier == "h1" else "websocket"
        if insts:
            viol.append(V(clause, f"{engine}:{stype}:e2e-app-called", [(i.type, i.scope.get("path")) for i in insts]))
        if status != expect[1]:
            viol.append(V(clause, f"{engine}:{stype}:e2e-status-{status}",
                          f"client saw {status}, wanted {expect[1]}; log {w.logrec}"))
    elif expect[0] == "scope":
        _, client, scheme, host = expect
        if len(insts) != 1:
            viol.append(V("e2e-proxy-fix", f"{tag}:instances", len(insts)))
        else:
            sc_ = insts[0].scope
            hosts = [v for n, v in sc_["headers"] if n.lower() == b"host"]
            got = (sc_["client"][0] if sc_["client"] else None, sc_["scheme"], hosts)
            want = (client if client is not None else "10.0.0.1",
                    scheme if scheme is not None else ("http" if carrier == "h1" else "ws"),
                    [host if host is not None else b"hypercorn"])
            if got != want:
                viol.append(V("e2e-proxy-fix", f"{tag}:scope", f"{got} wanted {want}"))
    else:
        locs = [v for n, v in (resp[0]["headers"] if resp else []) if n.lower() == b"location"]
        if insts or status not in (301, 302, 307, 308) or locs != [expect[1]]:
            viol.append(V("e2e-redirect", tag, f"status {status} location {locs} instances {len(insts)}"))
    if os.environ.get("MC_VERBOSE"):
        describe(w)
    obs = default_observation(w)
    return ExecResult(w.chooser.trace, viol, digest(obs), True, w.sigs, {"params": repr(params), "status": status})


# ---------------------------------------------------------------------------------------------
# families


def scenarios(tier: str) -> List[Any]:
    fams: List[Any] = []
    hops_range = range(0, 4) if tier == "quick" else range(0, 5)
    combos = [(s, o) for s in (0, 1, 2) for o in (0, 1, 2)]
    if tier == "quick":  # separator/name style x companion headers: a covering selection for the legacy headers
        legacy_combos = [(0, 0), (1, 1), (2, 2), (0, 2), (1, 0)]
    else:
        legacy_combos = combos
    for hops in hops_range:
        for style, others in legacy_combos:
            for ti in (0, 1, 2):
                fams.append(("pf", "legacy", ti, hops, style, others))
        for style, others in combos:
            fams.append(("pf", "modern", 3, hops, style, others))
        fams.append(("pfx", hops))
    fams.append(("pf-lifespan",))
    fams += [("disp", cls, stype) for cls in ("asyncio", "trio") for stype in ("http", "websocket")]
    fams += [("red", kind) for kind in R_KINDS]
    progs2 = list(itertools.product(FAN_PROGRAMS, repeat=2))
    if tier == "quick":
        progs3 = [("ok", "ok", "ok"), ("ok", "now", "never"), ("ok", "raise1", "ok"), ("now", "ok", "fail"),
                  ("ok", "late_raise", "noshut")]
    else:
        progs3 = list(itertools.product(FAN_PROGRAMS, repeat=3))
    for engine in ("asyncio", "trio"):
        fams += [("fan", engine, p) for p in progs2 + progs3]
        fams += [("e2e", engine, i) for i in range(len(E2E))]
    return fams


def cases(fam: tuple, tier: str) -> List[tuple]:
    kind = fam[0]
    nmax = 3 if tier == "quick" else 4
    if kind == "pf":
        _, mode, ti, hops, style, others = fam
        sk = (style + others) % 2
        return [("pf", mode, ti, hops, style, others, sk, fields, prefix, 0)
                for fields in field_layouts(nmax) for prefix in PREFIXES]
    if kind == "pfx":
        hops = fam[1]
        return [("pf", "modern", 3, hops, style, 0, 0, fields, prefix, 1)
                for style in (0, 1) for fields in field_layouts(min(nmax, 3), len(EXOTIC)) for prefix in (0, 1, 2, 4)]
    if kind == "pf-lifespan":
        return [("pf-lifespan", mode, hops) for mode in ("legacy", "modern") for hops in range(0, 4)]
    if kind == "disp":
        _, cls, stype = fam
        return [("disp", cls, mounts, path, stype) for mounts in mount_tables() for path in request_paths()]
    if kind == "red":
        return [("red", hi, ci, pi, qi, ri, fam[1]) for hi in range(len(R_HOSTS)) for ci in range(len(R_CONF))
                for pi in range(len(R_PATHS)) for qi in range(len(R_QUERIES)) for ri in range(len(R_ROOTS))]
    raise ValueError(fam)


def bounds(tier: str, params: Any) -> dict:
    if params[0] == "e2e":
        return {"M": 0, "S": 0, "R": 0}
    if tier == "quick" or len(params[2]) > 2:
        return {"M": 1, "S": 2, "R": 0}
    return {"M": 2, "S": 3, "R": 1 if params[1] == "trio" else 0}


_DIRECT = {"pf": do_pf, "pf-lifespan": do_pf_lifespan, "disp": do_disp, "red": do_red}


def execute(params: Any, prefix: List[int]) -> ExecResult:
    params = _tuplify(params)
    if params[0] == "fan":
        return do_fan(params, prefix)
    if params[0] == "e2e":
        return do_e2e(params, prefix)
    try:
        return _DIRECT[params[0]](params)
    except HarnessError:
        raise
    except Exception as e:  # the middleware itself raised on an input of the enumerated (valid) space
        from mc.harness import exc_site

        return result(params, [V("middleware-raised", f"{params[0]}:{exc_site(e)}", repr(e))], ("raised", type(e).__name__), True)


def _tuplify(o: Any) -> Any:
    return tuple(_tuplify(x) for x in o) if isinstance(o, (list, tuple)) else o


def explore_item_custom(params: Any, tier: str, deadline: float) -> dict:
    if params[0] in ("fan", "e2e"):
        seen: set = set()

        def once(p: Any, prefix: List[int]) -> ExecResult:
            # one witness per (clause, key) and scenario, so that a defect showing in every interleaving does not
            # crowd other violations out of the framework's bounded lists
            r = execute(p, prefix)
            fresh = [v for v in r.violations if (v["clause"], v["key"]) not in seen]
            seen.update((v["clause"], v["key"]) for v in fresh)
            r.violations = fresh
            return r

        return explore_item(once, params, bounds(tier, params), deadline, MAX_EXEC_PER_ITEM)
    return run_family(execute, cases(params, tier), deadline)
