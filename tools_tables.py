#!/venv/bin/python
"""Regenerates the machine-written tables of DESIGN.md (between the GENERATED markers) from evidence/,
known_findings.json and seeded/*/meta.json."""
import glob, json, os, re
os.chdir(os.path.dirname(os.path.abspath(__file__)))
out = []
out.append("### 11.1 Checks as measured by their last run (quick tier unless noted)\n")
out.append("| id | level | scenarios | executions | distinct outcomes | states | replay divergences | exhaustive | wall s |")
out.append("|---|---|---|---|---|---|---|---|---|")
for f in sorted(glob.glob("evidence/C*.json")):
    e = json.load(open(f)); c = e["coverage"]
    out.append(f"| {e['property_id']} ({e['tier']}) | {e['level']} | {c.get('scenarios')} | {c.get('evaluations')} | {c.get('distinct_outcomes')} | {c.get('states', '-')} | {c.get('replay_divergences')} | {c.get('exhaustive')} | {e['wall_s']} |")
kf = json.load(open("known_findings.json"))
out.append("\n### 11.2 Known findings (open)\n")
for k in kf["findings"]:
    if k["status"] == "open":
        out.append(f"* **{k['id']}** ({k['property']}): {k['summary']}  \n  *Not repaired because:* {k['why_not_fixed']}  \n  *Matched by:* clause `{k['match']['clause']}`, key `{k['match']['key']}`; witness `{k['witness']}`.")
out.append("\n### 11.3 Genuine defects repaired in /repo (one `fix:` commit each)\n")
for line in kf["fixed"]:
    out.append("* " + line[len("fixed: "):])
out.append("\n### 11.4 Seeded property-breaking changes and the checks that catch them\n")
out.append("Each was produced by a sub-agent that saw only the property text and a scratch worktree, keeps the 193-test suite green, and has a demonstration that fails with / passes without it (re-verified by `tools_seed.py`).\n")
out.append("| seed | property | change (first line of notes) | suite with change | caught by |")
out.append("|---|---|---|---|---|")
for f in sorted(glob.glob("seeded/*/meta.json")):
    m = json.load(open(f))
    note = (m.get("needs_to_manifest") or "").strip().splitlines()
    first = next((l.strip("#- *").strip() for l in note if l.strip()), "")[:150].replace("|", "/")
    out.append(f"| {m['seed']} | {m['property']} | {first} | {m.get('suite_with_change','?')} | {', '.join(m.get('caught_by', [])) or '**none**'} |")
text = "\n".join(out) + "\n"
d = open("DESIGN.md").read()
b, e = "<!-- BEGIN GENERATED -->", "<!-- END GENERATED -->"
if b not in d:
    d += f"\n{b}\n{e}\n"
d = d[:d.index(b) + len(b)] + "\n" + text + d[d.index(e):]
open("DESIGN.md", "w").write(d)
print("tables written:", len(out), "lines")
