#!/venv/bin/python
"""tools_seed.py <seed_out_dir> <seed-id> <PROP> [CHECK ...]
Verifies a seeded change in a scratch worktree (applies, suite still green, demo fails with / passes without),
runs the named checks against it (HYPERCORN_SRC) and files it under /verif/seeded/<seed-id>/."""
import json, os, shutil, subprocess, sys, time
src_dir, sid, prop = sys.argv[1], sys.argv[2], sys.argv[3]
checks = sys.argv[4:] or [prop]
WT = f"/tmp/wt/verify_{sid}"
def sh(cmd, **kw):
    return subprocess.run(cmd, shell=True, capture_output=True, text=True, **kw)
sh(f"git -C /repo worktree remove --force {WT}")
BASE = os.environ.get("SEED_BASE", "HEAD")  # a seeded change that a later fix: commit made moot is verified against its own base
r = sh(f"git -C /repo worktree add -q {WT} {BASE}"); assert r.returncode == 0, r.stderr
meta = {"seed": sid, "property": prop, "repo_head": sh(f"git -C /repo rev-parse --short {BASE}").stdout.strip()}
if BASE != "HEAD":
    meta["base_note"] = f"verified against {BASE}: on later commits the change no longer breaks the property (see notes)"
try:
    env = dict(os.environ, PYTHONPATH=f"{WT}/src", PYTHONHASHSEED="0")
    demo = os.path.join(src_dir, "demo_test.py")
    r0 = sh(f"cd {WT} && /venv/bin/python -m pytest -q -p no:cacheprovider -x --timeout=300 {demo}", env=env)
    meta["demo_without_change"] = r0.stdout.strip().splitlines()[-1] if r0.stdout.strip() else r0.stderr[-200:]
    a = sh(f"git -C {WT} apply --3way {src_dir}/patch.diff")
    if a.returncode != 0:
        a = sh(f"git -C {WT} apply {src_dir}/patch.diff")
    meta["applies"] = a.returncode == 0
    if not meta["applies"]:
        meta["apply_error"] = a.stderr[-400:]
        print(json.dumps(meta, indent=1)); sys.exit(1)
    sh(f"git -C {WT} reset -q")
    t = sh(f"cd {WT} && /venv/bin/python -m pytest -q -p no:cacheprovider --timeout=900 tests", env=env)
    meta["suite_with_change"] = t.stdout.strip().splitlines()[-1]
    r1 = sh(f"cd {WT} && /venv/bin/python -m pytest -q -p no:cacheprovider -x --timeout=300 {demo}", env=env)
    meta["demo_with_change"] = r1.stdout.strip().splitlines()[-1] if r1.stdout.strip() else r1.stderr[-200:]
    meta["checks"] = {}
    for c in checks:
        t0 = time.time()
        env2 = dict(os.environ, HYPERCORN_SRC=f"{WT}/src", VERIF_NO_EVIDENCE="1", VERIF_REPLAY_DIR=f"/tmp/replays_{sid}")
        rc = sh(f"cd /verif && ./check {c} --tier quick --jobs {os.environ.get('SEED_JOBS','8')}", env=env2)
        lines = [l for l in rc.stdout.splitlines() if l.startswith("VIOLATION") or l.startswith("  clause")]
        meta["checks"][c] = {"exit": rc.returncode, "wall_s": round(time.time()-t0,1), "violations": lines[:8], "tail": rc.stdout.strip().splitlines()[-1:] }
    meta["caught_by"] = [c for c, v in meta["checks"].items() if v["exit"] == 1]
    dst = f"/verif/seeded/{sid}"
    os.makedirs(dst, exist_ok=True)
    for f in ("patch.diff", "demo_test.py", "notes.md"):
        if os.path.exists(os.path.join(src_dir, f)):
            shutil.copy(os.path.join(src_dir, f), dst)
    notes = open(os.path.join(src_dir, "notes.md")).read() if os.path.exists(os.path.join(src_dir, "notes.md")) else ""
    meta["needs_to_manifest"] = notes[:1500]
    meta["what_i_ran"] = "tools_seed.py: scratch worktree of /repo HEAD, git apply, full pytest suite, demo with/without, ./check <id> --tier quick with HYPERCORN_SRC=<worktree>/src"
    json.dump(meta, open(os.path.join(dst, "meta.json"), "w"), indent=1)
    print(json.dumps({k: meta[k] for k in ("seed","applies","suite_with_change","demo_without_change","demo_with_change","caught_by")}, indent=1))
    for c, v in meta["checks"].items():
        print(c, v["exit"], v["wall_s"], v["violations"][:4], v["tail"])
finally:
    sh(f"git -C /repo worktree remove --force {WT}")
    sh(f"rm -rf /tmp/replays_{sid}")
