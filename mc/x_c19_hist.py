"""C19, family 'hist': what one Config instance does must stay with that instance.

Helpers shared by the check (parent) and the fresh interpreter that stands for a spawned worker (child):

  fake_aioquic()      aioquic is not installed here; Config.response_headers imports aioquic.h3.connection.H3_ALPN as soon
                      as QUIC addresses exist.  For the duration of the `with` block a stand-in module (H3_ALPN = ["h3"],
                      the value aioquic defines) is registered in sys.modules - only when the real one cannot be imported -
                      and removed again afterwards.
  deep_observe(cfg)   every data attribute reachable through dir(cfg) - public settings, the private backing fields
                      (_bind, _quic_addresses, ...), derived properties (ssl_enabled) - as address-free repr strings, plus
                      response_headers(protocol) for the three protocols under a frozen clock.  `log` is not read (reading
                      it creates the Logger); whether one was created is recorded as _log = unset | set.
  class_state() / restore_class_state()
                      the data attributes of the Config CLASS; restored after every case so that nothing one case did to the
                      class survives into the next case of the same worker process (the leak itself is judged inside the case
                      by observing fresh instances).
  observe_in_fresh_interpreter([pickle bytes, ...])
                      what hypercorn.run does for workers >= 1: the Config is pickled and loaded by a *spawned* interpreter.
                      One child process loads every pickle of the list and reports deep_observe() of each.
"""
from __future__ import annotations

import contextlib
import copy
import json
import os
import pickle
import re
import subprocess
import sys
import types
from typing import Any, Dict, Iterator, List, Optional

FROZEN_EPOCH = 1709164800  # 2024-02-29 00:00:00 GMT
PROTOCOLS = ("h11", "h2", "h3")
_ADDR = re.compile(r" at 0x[0-9a-fA-F]+")
_STUB_NAMES = ("aioquic", "aioquic.h3", "aioquic.h3.connection")


def _repr(o: Any) -> str:
    return _ADDR.sub("", repr(o))


@contextlib.contextmanager
def fake_aioquic() -> Iterator[bool]:
    try:
        import aioquic.h3.connection  # noqa: F401

        real = True
    except ImportError:
        real = False
    if real:
        yield False
        return
    saved = {n: sys.modules.get(n) for n in _STUB_NAMES}
    aioquic = types.ModuleType("aioquic")
    h3 = types.ModuleType("aioquic.h3")
    connection = types.ModuleType("aioquic.h3.connection")
    connection.H3_ALPN = ["h3"]  # type: ignore[attr-defined]
    aioquic.h3 = h3  # type: ignore[attr-defined]
    h3.connection = connection  # type: ignore[attr-defined]
    sys.modules.update({"aioquic": aioquic, "aioquic.h3": h3, "aioquic.h3.connection": connection})
    try:
        yield True
    finally:
        for n, old in saved.items():
            if old is None:
                sys.modules.pop(n, None)
            else:
                sys.modules[n] = old


def deep_observe(cfg: Any) -> Dict[str, str]:
    import hypercorn.config as hc

    out: Dict[str, str] = {}
    for name in dir(cfg):
        if name.startswith("__") or name in ("log", "cert_reqs"):
            continue
        try:
            v = getattr(cfg, name)
        except AttributeError:
            continue
        if callable(v) and not isinstance(v, type):
            continue
        out[name] = ("unset" if v is None else "set") if name == "_log" else _repr(v)
    orig = hc.time
    hc.time = lambda: FROZEN_EPOCH
    try:
        for p in PROTOCOLS:
            try:
                out["response_headers:" + p] = _repr(cfg.response_headers(p))
            except Exception as e:
                out["response_headers:" + p] = f"raised {type(e).__name__}: {e}"
    finally:
        hc.time = orig
    return out


def diff(a: Dict[str, str], b: Dict[str, str]) -> List[str]:
    return [n for n in sorted(set(a) | set(b)) if a.get(n, "<absent>") != b.get(n, "<absent>")]


def _is_data(v: Any) -> bool:
    return not (callable(v) or isinstance(v, (property, classmethod, staticmethod)))


def class_state() -> Dict[str, Any]:
    from hypercorn.config import Config

    return {n: copy.deepcopy(v) for n, v in vars(Config).items() if not n.startswith("__") and _is_data(v)}


def restore_class_state(saved: Dict[str, Any]) -> List[str]:
    """Puts the Config class back; returns the names that had to be restored."""
    from hypercorn.config import Config

    touched = []
    for n, v in list(vars(Config).items()):
        if n.startswith("__") or not _is_data(v):
            continue
        if n not in saved:
            delattr(Config, n)
            touched.append(n)
        elif _repr(v) != _repr(saved[n]):
            setattr(Config, n, copy.deepcopy(saved[n]))
            touched.append(n)
    return touched


_CHILD = ("import sys; sys.path.insert(0, %r); import mc.bootstrap; from mc.x_c19_hist import child_main; child_main()"
          % os.path.dirname(os.path.dirname(os.path.abspath(__file__))))


def observe_in_fresh_interpreter(blobs: List[bytes]) -> List[Any]:
    """-> per blob: the deep_observe() dictionary, or a string 'raised ...' if the child could not load it."""
    r = subprocess.run([sys.executable, "-c", _CHILD], input=pickle.dumps(blobs), capture_output=True, timeout=120,
                       env=dict(os.environ, PYTHONHASHSEED="0"))
    if r.returncode != 0:
        raise RuntimeError("the interpreter standing for a spawned worker failed: " + r.stderr.decode()[-600:])
    return json.loads(r.stdout.decode())


def child_main() -> None:
    blobs = pickle.loads(sys.stdin.buffer.read())
    out: List[Any] = []
    with fake_aioquic():
        for b in blobs:
            try:
                cfg = pickle.loads(b)
            except Exception as e:
                out.append(f"raised {type(e).__name__}: {e}")
                continue
            out.append(deep_observe(cfg))
    sys.stdout.write(json.dumps(out))


def try_pickle(cfg: Any) -> Optional[bytes]:
    try:
        return pickle.dumps(cfg)
    except Exception:
        return None
