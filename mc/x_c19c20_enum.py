"""Family runner for pure input enumerations (C19, most of C20).

A top-level scenario of these checks is a *family* of cases; `run_family` executes every case of
the family through the module's `execute(case, [])` (one ExecResult per case, so distinct /
non-trivial digests are per case) and returns the dictionary `mc.explore` expects from
`explore_item_custom`.  Violations carry the *case* as their params, so `./check --replay` re-runs
exactly the failing case.
"""
from __future__ import annotations

import re
import time
from typing import Any, Callable, Iterable, List

from .explore import ExecResult, _account, _blank_result, _json_safe


def run_family(execute: Callable[[Any, List[int]], ExecResult], cases: Iterable[Any], deadline: float) -> dict:
    res = _blank_result()
    first = True
    seen: set = set()
    cases = list(cases)
    for n, case in enumerate(cases):
        if time.time() > deadline:
            res["capped"] = True
            res["cap_pending"] = len(cases) - n
            break
        r = execute(case, [])
        # one witness per (clause, key) and family: a defect that shows in thousands of cases must not crowd
        # other violations out of the framework's bounded violation lists
        fresh = []
        for v in r.violations:
            if (v["clause"], v["key"]) not in seen:
                seen.add((v["clause"], v["key"]))
                fresh.append(v)
        r.violations = fresh
        _account(res, r, case, [], first)
        if first:
            r2 = execute(case, [])
            res["replay_checks"] += 1
            if r2.digest != r.digest:
                res["replay_divergences"] += 1
                res["divergent"].append(_json_safe({"params": case}))
            first = False
    return res


_ADDR = re.compile(r" at 0x[0-9a-fA-F]+")


def stable_repr(o: Any) -> str:
    """repr() without memory addresses (the argparse sentinel is a bare object())."""
    return _ADDR.sub("", repr(o))
