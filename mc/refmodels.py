"""Reference models: plain Python, written from the ASGI / RFC texts, no hypercorn imports."""
from __future__ import annotations

import base64
import hashlib
from typing import Any, List, Optional, Tuple
from urllib.parse import unquote_to_bytes


class HttpSendModel:
    """ASGI HTTP `send` automaton, tracking only what the application itself sent."""

    def __init__(self, http_version: str, te_trailers: bool = False) -> None:
        self.state = "request"
        self.v2 = http_version in ("2", "3")
        self.te = te_trailers
        self.trailers_promised = False

    def allows(self, msg: dict) -> Optional[bool]:
        """True: valid in this state; False: invalid; None: the model does not judge."""
        t = msg.get("type")
        if t == "http.response.start":
            return self.state == "request" and _headers_ok(msg.get("headers", []))
        if t == "http.response.body":
            return self.state == "response"
        if t == "http.response.trailers":
            if not self.v2:
                return False
            return None
        if t == "http.response.push":
            if not self.v2:
                return False
            if not isinstance(msg.get("path"), str):
                return False
            return None
        if t == "http.response.early_hint":
            if not self.v2:
                return False
            return None if self.state == "request" else False
        return False

    def advance(self, msg: dict) -> None:
        t = msg.get("type")
        if t == "http.response.start" and self.state == "request":
            self.state = "response"
            self.trailers_promised = bool(msg.get("trailers", False))
        elif t == "http.response.body" and self.state == "response":
            if not msg.get("more_body", False):
                self.state = "trailers" if self.trailers_promised else "closed"
        elif t == "http.response.trailers" and self.state in ("trailers",):
            if not msg.get("more_trailers", False):
                self.state = "closed"


class WsSendModel:
    def __init__(self) -> None:
        self.state = "handshake"

    def allows(self, msg: dict) -> Optional[bool]:
        t = msg.get("type")
        if t == "websocket.accept":
            return self.state == "handshake"
        if t == "websocket.send":
            if self.state != "connected":
                return False
            if msg.get("bytes") is None and not isinstance(msg.get("text"), str):
                return False
            return True
        if t == "websocket.close":
            return self.state in ("handshake", "connected")
        if t == "websocket.http.response.start":
            return self.state == "handshake"
        if t == "websocket.http.response.body":
            return self.state in ("response_started", "response")
        return False

    def advance(self, msg: dict) -> None:
        t = msg.get("type")
        if t == "websocket.accept" and self.state == "handshake":
            self.state = "connected"
        elif t == "websocket.close" and self.state == "handshake":
            self.state = "httpclosed"
        elif t == "websocket.close" and self.state == "connected":
            self.state = "closed"
        elif t == "websocket.http.response.start" and self.state == "handshake":
            self.state = "response_started"
        elif t == "websocket.http.response.body" and self.state in ("response_started", "response"):
            self.state = "response" if msg.get("more_body", False) else "httpclosed"


def _headers_ok(headers: Any) -> bool:
    try:
        for n, v in headers:
            if not isinstance(n, (bytes, bytearray)) or not isinstance(v, (bytes, bytearray)):
                return False
            if n[:1] == b":":
                return False
    except Exception:
        return False
    return True


def suppress_body(method: str, status: int) -> bool:
    """RFC 7230 3.3.3: HEAD, 1xx, 204, 304 carry no body."""
    return method == "HEAD" or 100 <= status < 200 or status in (204, 304)


def ws_accept_token(key: bytes) -> bytes:
    return base64.b64encode(hashlib.sha1(key + b"258EAFA5-E914-47DA-95CA-C5AB0DC85B11").digest())


def percent_decode_path(raw: bytes) -> str:
    """The ASGI `path`: percent-decoded, UTF-8 with replacement (what urllib's unquote does)."""
    return unquote_to_bytes(raw).decode("utf-8", "replace")
