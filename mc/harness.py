"""Helpers shared by the property harnesses: running one execution on either engine, generic
monitors, normalised observations."""
from __future__ import annotations

import os
from typing import Any, Callable, List, Optional

from . import aio
from .core import Chooser, Point, digest
from .explore import ExecResult, V


WATCHDOG_S = 20


class NeverYields(BaseException):
    pass


class watchdog:
    """Wall-clock guard for one execution: code that spins without yielding never reaches a boundary."""

    def __init__(self, seconds: int) -> None:
        self.seconds = seconds

    def _fire(self, signum: int, frame: Any) -> None:
        where = "?"
        f = frame
        while f is not None:
            fn = f.f_code.co_filename
            if "/hypercorn/" in fn:
                where = f"{fn.rsplit('/hypercorn/', 1)[1]}:{f.f_code.co_name}"
                break
            f = f.f_back
        raise NeverYields(where)

    def __enter__(self) -> "watchdog":
        import signal
        import threading

        self.active = threading.current_thread() is threading.main_thread()
        if self.active:
            self.old = signal.signal(signal.SIGALRM, self._fire)
            signal.alarm(self.seconds)
        return self

    def __exit__(self, *a: Any) -> None:
        import signal

        if self.active:
            signal.alarm(0)
            signal.signal(signal.SIGALRM, self.old)


def run_world(engine: str, scenario: dict, prefix: List[int]) -> Any:
    if engine == "asyncio":
        w = aio.run_execution(scenario, prefix)
    elif engine == "trio":
        from . import tri

        w = tri.run_execution(scenario, prefix)
    else:
        raise ValueError(engine)
    for rec in w.conns.values():
        if rec.client is not None and (rec.closed_at is not None or rec.server_eof_at is not None):
            t = rec.closed_at if rec.closed_at is not None else rec.server_eof_at
            rec.client.on_close(t)
    return w


def norm_headers(headers: Any) -> tuple:
    return tuple((bytes(n), bytes(v)) for n, v in (headers or []) if bytes(n).lower() != b"date")


def norm_msg(m: dict) -> tuple:
    return tuple(sorted((k, v if not isinstance(v, (bytearray, memoryview)) else bytes(v)) for k, v in m.items()
                        if k != "headers")) + (("headers", norm_headers(m["headers"])) if "headers" in m else ())


def client_view(rec: Any) -> tuple:
    cl = rec.client
    if cl is None:
        return (len(rec.out),)
    parts: List[Any] = []
    if cl.h1 is not None:
        parts.append(tuple(
            (r["status"], norm_headers(r["headers"]), r["body"], r["complete"],
             tuple((s, norm_headers(h)) for s, h in r["informational"]))
            for r in cl.h1.responses))
        parts.append(cl.h1.error)
    if cl.h2 is not None:
        parts.append(tuple(
            (sid, st["status"], norm_headers(st["headers"]), st["body"], st["ended"], st["reset"],
             None if st["trailers"] is None else norm_headers(st["trailers"]),
             tuple((s, norm_headers(h)) for s, h in st["informational"]))
            for sid, st in sorted(cl.h2.streams.items())))
        parts.append(cl.h2.goaway[:2] if cl.h2.goaway else None)
        parts.append(cl.h2.error)
        for sid, wsp in sorted(cl.h2.ws.items()):
            parts.append((sid, tuple(wsp.messages), wsp.close, tuple(wsp.pongs), wsp.error))
    if cl.ws is not None:
        parts.append((tuple(cl.ws.messages), cl.ws.close, tuple(cl.ws.pongs), cl.ws.error))
    return tuple(parts)


def default_observation(w: Any, with_times: bool = True) -> tuple:
    insts = tuple(
        (i.scope["type"], i.scope.get("path"), i.scope.get("http_version"),
         tuple(norm_msg(m) for m in i.delivered()),
         tuple((norm_msg(s[2]), s[3]) for s in i.sends), i.outcome)
        for i in w.instances)
    conns = tuple(
        (k, client_view(rec), rec.handler, rec.refused,
         (rec.closed_at, rec.server_eof_at) if with_times else (rec.closed_at is not None, rec.server_eof_at is not None))
        for k, rec in sorted(w.conns.items()))
    access = tuple(sorted(((a[2], a[3], a[4]) for a in w.access), key=repr))
    logs = tuple(sorted(((l[1], l[2], l[3]) for l in w.logrec if l[1] not in ("info", "debug")), key=repr))
    return (insts, conns, access, logs, w.serve_result, tuple(w.problems))


def generic_violations(w: Any, allow_handler_exc: bool = False) -> List[dict]:
    """Monitors every property shares: the harness must not have hit its own caps silently."""
    out: List[dict] = []
    for p in w.problems:
        out.append(V("harness-problem", p.split(":")[0], p))
    return out


def exc_site(e: BaseException) -> str:
    """<ExcType>@<innermost hypercorn function>; exception groups are flattened."""
    if isinstance(e, BaseExceptionGroup):
        return "+".join(sorted({exc_site(x) for x in e.exceptions}))
    site = "?"
    tb = e.__traceback__
    while tb is not None:
        fn = tb.tb_frame.f_code.co_filename
        if "/hypercorn/" in fn:
            site = f"{fn.rsplit('/hypercorn/', 1)[1]}:{tb.tb_frame.f_code.co_name}"
        tb = tb.tb_next
    return f"{type(e).__name__}@{site}"


def internal_errors(w: Any) -> List[dict]:
    """Unhandled exceptions: per-connection handler results and the loop's exception handler."""
    out: List[dict] = []
    for k, rec in sorted(w.conns.items()):
        if rec.handler is not None and rec.handler.startswith("exc:"):
            exc = getattr(rec, "handler_exc", None)
            key = exc_site(exc) if exc is not None else _exc_key(rec.handler[4:])
            out.append(V("handler-exception", key, f"conn {k}: {rec.handler}"))
    for ctx in w.exc_contexts:
        exc = ctx.get("exception")
        msg = ctx.get("message", "")
        if type(exc).__name__ == "CancelledError" and "StreamReaderProtocol.connection_made" in msg:
            continue  # CPython 3.12.1's own done-callback calling task.exception() on a cancelled handler task
        key = exc_site(exc) if exc is not None else "noexc:" + msg[:40]
        out.append(V("loop-exception-handler", key, f"{msg}: {exc!r}"))
    return out


def _exc_key(s: str) -> str:
    import re

    names = re.findall(r"([A-Za-z_]+(?:Error|Exception|Group|Crash))", s)
    names = [n for n in names if n not in ("ExceptionGroup", "BaseExceptionGroup")]
    return "+".join(sorted(set(names))) or s[:40]


def std_execute(build: Callable[[Any], tuple], oracle: Callable[[Any, Any], List[dict]],
                observe: Optional[Callable[[Any, Any], Any]] = None) -> Callable[[Any, List[int]], ExecResult]:
    def execute(params: Any, prefix: List[int]) -> ExecResult:
        engine, scenario = build(params)
        try:
            with watchdog(WATCHDOG_S):
                w = run_world(engine, scenario, prefix)
        except NeverYields as e:
            # a task of the server spun without ever returning to the event loop
            return ExecResult([Point(1, c, "replay") for c in prefix],
                              [V("never-yields", str(e)[:80], f"execution exceeded {WATCHDOG_S}s of wall time inside one step")],
                              "never-yields", True, (), {"params": repr(params)[:300], "choices": list(prefix)})
        viol = generic_violations(w) + oracle(w, params)
        obs = observe(w, params) if observe is not None else default_observation(w)
        choices = w.chooser.choices
        if os.environ.get("MC_VERBOSE"):
            describe(w)
        nontrivial = bool(w.instances) and any(choices)
        sample = {"params": repr(params)[:400], "engine": engine, "choices": choices[:40],
                  "events": [repr(e)[:80] for _, e in w.driver.fired][:12],
                  "instances": [(i.scope["type"], i.scope.get("path"), i.outcome) for i in w.instances][:4],
                  "closed_at": {k: r.closed_at for k, r in w.conns.items()}}
        return ExecResult(w.chooser.trace, viol, digest(obs), nontrivial, w.sigs, sample)

    return execute


def describe(w: Any) -> None:
    print("engine:", w.engine, " final time:", getattr(w, "final_time", None), " steps:", w.steps)
    print("trace:", w.chooser.trace)
    print("events fired:")
    for t, e in w.driver.fired:
        print(f"   t={t} {repr(e)[:150]}")
    print("unfired:", [(n, evs[w.driver.pos[i]:]) for i, (n, evs) in enumerate(w.driver.sources) if evs[w.driver.pos[i]:]])
    for inst in w.instances:
        print(f"instance {inst.idx} {inst.scope['type']} {inst.scope.get('path')} outcome={inst.outcome} pc={inst.pc} gate={inst.parked_gate}")
        for t, what, detail in inst.log:
            print(f"   t={t} {what} {repr(detail)[:120]}")
        print("   drained:", inst.drained)
        print("   sends:", [(s[0], s[1], s[2].get("type"), s[3]) for s in inst.sends])
    for k, rec in w.conns.items():
        print(f"conn {k}: handler={rec.handler} closed_at={rec.closed_at} server_eof_at={rec.server_eof_at} lost_at={rec.lost_at} refused={rec.refused}")
        print("   out:", bytes(rec.out)[:300])
        if rec.client is not None:
            print("   client view:", repr(client_view(rec))[:600])
            if rec.client.h2 is not None and rec.client.h2.skipped:
                print("   client commands refused by the h2 library:", rec.client.h2.skipped)
    print("access:", [(a[0], a[2], a[3], a[4]) for a in w.access])
    print("log:", w.logrec)
    print("exc contexts:", [(c.get("message"), repr(c.get("exception"))) for c in w.exc_contexts])
    print("live tasks:", getattr(w, "live_tasks", None))
    print("problems:", w.problems, " serve:", w.serve_result, w.serve_done_at)
