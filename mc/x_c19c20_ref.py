"""Reference models for C19 (configuration) and C20 (middleware).

Plain Python written from the hypercorn *documentation* (docs/how_to_guides/configuring.rst,
binds.rst, proxy_fix.rst, dispatch_apps.rst, http_https_redirect.rst, the --help texts) and from
RFC 7231 / RFC 7239.  No hypercorn imports here.
"""
from __future__ import annotations

import ssl
from typing import Any, Dict, List, Optional, Tuple

# =============================================================================================
# C19: documented configuration keys (docs/how_to_guides/configuring.rst, "Configuration options")
# name -> (kind, [two distinct non-default values])
# kind: str | int | float | bool | strlist | bindlist | rootpath | dict | class | vmode | vflags


class AltLoggerA:  # stand-ins for `logger_class` (never instantiated by the checks)
    def __init__(self, config: Any) -> None:
        pass


class AltLoggerB:
    def __init__(self, config: Any) -> None:
        pass


CONFIG_KEYS: Dict[str, Tuple[str, list]] = {
    "access_log_format": ("str", ["%(h)s one", "two %(r)s"]),
    "accesslog": ("str", ["-", "/tmp/c19-access.log"]),
    "alpn_protocols": ("strlist", [["h2"], ["http/1.1", "h2"]]),
    "alt_svc_headers": ("strlist", [['h3=":443"; ma=3600'], ['h3=":443"', 'h3-29=":443"']]),
    "application_path": ("str", ["/srv/app-one", "/srv/app-two"]),
    "backlog": ("int", [7, 250]),
    "bind": ("bindlist", ["127.0.0.1:5001", ["127.0.0.1:5002", "[::1]:5003"]]),
    "ca_certs": ("str", ["/c19/ca-one.pem", "/c19/ca-two.pem"]),
    "certfile": ("str", ["/c19/cert-one.pem", "/c19/cert-two.pem"]),
    "ciphers": ("str", ["ECDHE+AESGCM:!aNULL", "DHE-RSA-AES128-SHA"]),
    "debug": ("bool", [True]),
    "dogstatsd_tags": ("str", ["env:test", "a:b,c:d"]),
    "errorlog": ("str", ["/tmp/c19-error.log", "/tmp/c19-error2.log"]),
    "graceful_timeout": ("float", [9, 1.5]),
    "read_timeout": ("int", [13, 1]),
    "group": ("int", [1234, 0]),
    "h11_max_incomplete_size": ("int", [4, 70000]),
    "h11_pass_raw_headers": ("bool", [True]),
    "h2_max_concurrent_streams": ("int", [3, 512]),
    "h2_max_header_list_size": ("int", [64, 1 << 20]),
    "h2_max_inbound_frame_size": ("int", [20000, 1 << 15]),
    "include_date_header": ("bool", [False]),
    "include_server_header": ("bool", [False]),
    "insecure_bind": ("bindlist", ["127.0.0.1:5080", ["127.0.0.1:5081", "unix:/tmp/c19-insecure.sock"]]),
    "keep_alive_max_requests": ("int", [1, 77]),
    "keep_alive_timeout": ("float", [21, 0.5]),
    "keyfile": ("str", ["/c19/key-one.pem", "/c19/key-two.pem"]),
    "keyfile_password": ("str", ["s3cret one", "pw#2"]),
    "logconfig": ("str", ["/c19/log.ini", "json:/c19/log.json"]),
    "logconfig_dict": ("dict", [{"version": 1}, {"version": 1, "disable_existing_loggers": False}]),
    "logger_class": ("class", [AltLoggerA, AltLoggerB]),
    "loglevel": ("str", ["DEBUG", "warning"]),
    "max_app_queue_size": ("int", [1, 64]),
    "max_requests": ("int", [31, 1]),
    "max_requests_jitter": ("int", [17, 2]),
    "pid_path": ("str", ["/tmp/c19-one.pid", "/tmp/c19-two.pid"]),
    "quic_bind": ("bindlist", ["127.0.0.1:5443", ["127.0.0.1:5444", "[::1]:5445"]]),
    "root_path": ("rootpath", ["/mount", "/deep/er/"]),
    "server_names": ("strlist", [["a.example"], ["a.example", "b.example:8443"]]),
    "shutdown_timeout": ("float", [11, 2.5]),
    "ssl_handshake_timeout": ("float", [12, 3.5]),
    "startup_timeout": ("float", [14, 4.5]),
    "statsd_host": ("str", ["127.0.0.1:8125", "statsd.example:9125"]),
    "statsd_prefix": ("str", ["pfx.one", "pfx.two"]),
    "umask": ("int", [0o077, 0o022]),
    "use_reloader": ("bool", [True]),
    "user": ("int", [4321, 0]),
    "verify_flags": ("vflags", [ssl.VerifyFlags.VERIFY_X509_STRICT, ssl.VerifyFlags.VERIFY_CRL_CHECK_LEAF]),
    "verify_mode": ("vmode", [ssl.VerifyMode.CERT_REQUIRED, ssl.VerifyMode.CERT_OPTIONAL]),
    "websocket_max_message_size": ("int", [4, 1 << 20]),
    "websocket_ping_interval": ("float", [19, 0.25]),
    "worker_class": ("str", ["trio", "uvloop"]),
    "workers": ("int", [3, 16]),
    "wsgi_max_body_size": ("int", [5, 1 << 21]),
}

TOML_KINDS = {"str", "int", "float", "bool", "strlist", "bindlist", "rootpath", "dict"}


def normalise_setting(kind: str, value: Any) -> Any:
    """What the documented setting is after assignment: binds are lists, root_path has no trailing slash."""
    if kind == "bindlist":
        return [value] if isinstance(value, str) else list(value)
    if kind == "rootpath":
        return strip_trailing_slashes(value)
    return value


def strip_trailing_slashes(path: str) -> str:
    while path.endswith("/"):
        path = path[:-1]
    return path


# ---------------------------------------------------------------------------------------------
# minimal writers for the file formats


def toml_value(v: Any) -> str:
    if isinstance(v, bool):
        return "true" if v else "false"
    if isinstance(v, int):
        return str(v)
    if isinstance(v, float):
        return repr(v)
    if isinstance(v, str):
        out = ['"']
        for ch in v:
            if ch == '"' or ch == "\\":
                out.append("\\" + ch)
            elif ord(ch) < 0x20 or ord(ch) == 0x7F:
                out.append("\\u%04x" % ord(ch))
            else:
                out.append(ch)
        out.append('"')
        return "".join(out)
    if isinstance(v, (list, tuple)):
        return "[" + ", ".join(toml_value(x) for x in v) + "]"
    if isinstance(v, dict):
        return "{" + ", ".join(f"{k} = {toml_value(x)}" for k, x in v.items()) + "}"
    raise TypeError(f"not expressible in TOML: {v!r}")


def toml_document(settings: Dict[str, Any]) -> str:
    return "".join(f"{k} = {toml_value(v)}\n" for k, v in settings.items())


def python_value(v: Any) -> Tuple[str, str]:
    """(import preamble, expression) spelling `v` in a Python configuration file."""
    if isinstance(v, ssl.VerifyMode):
        return "import ssl\n", f"ssl.VerifyMode.{v.name}"
    if isinstance(v, ssl.VerifyFlags):
        return "import ssl\n", f"ssl.VerifyFlags.{v.name}"
    if isinstance(v, type):
        return "", f"__import__({v.__module__!r}, fromlist=['x']).{v.__name__}"
    return "", repr(v)


def python_document(settings: Dict[str, Any]) -> str:
    pre, body = "", ""
    for k, v in settings.items():
        p, e = python_value(v)
        if p not in pre:
            pre += p
        body += f"{k} = {e}\n"
    return pre + body


# ---------------------------------------------------------------------------------------------
# documented command line (configuring.rst column "Command line" + the --help texts for the
# deprecated spellings).  canonical flag -> (aliases, setting, kind)
# kind: str | int | flag | append | rootpath | vmode_name | cert_reqs | config

CLI_FLAGS: Dict[str, Tuple[List[str], Optional[str], str]] = {
    "--access-log": ([], "accesslog", "str"),  # "Deprecated, see access-logfile"
    "--access-logfile": ([], "accesslog", "str"),
    "--access-logformat": ([], "access_log_format", "str"),
    "--backlog": ([], "backlog", "int"),
    "--bind": (["-b"], "bind", "append"),
    "--ca-certs": ([], "ca_certs", "str"),
    "--certfile": ([], "certfile", "str"),
    "--cert-reqs": ([], "verify_mode", "cert_reqs"),  # "See verify mode argument"
    "--ciphers": ([], "ciphers", "str"),
    "--config": (["-c"], None, "config"),
    "--debug": ([], "debug", "flag"),
    "--error-log": ([], "errorlog", "str"),  # "Deprecated, see error-logfile"
    "--error-logfile": (["--log-file"], "errorlog", "str"),
    "--graceful-timeout": ([], "graceful_timeout", "int"),
    "--read-timeout": ([], "read_timeout", "int"),
    "--max-requests": ([], "max_requests", "int"),
    "--max-requests-jitter": ([], "max_requests_jitter", "int"),
    "--group": (["-g"], "group", "int"),
    "--worker-class": (["-k"], "worker_class", "str"),
    "--keep-alive": ([], "keep_alive_timeout", "int"),
    "--keyfile": ([], "keyfile", "str"),
    "--keyfile-password": ([], "keyfile_password", "str"),
    "--insecure-bind": ([], "insecure_bind", "append"),
    "--log-config": ([], "logconfig", "str"),
    "--log-level": ([], "loglevel", "str"),
    "--pid": (["-p"], "pid_path", "str"),
    "--quic-bind": ([], "quic_bind", "append"),
    "--reload": ([], "use_reloader", "flag"),
    "--root-path": ([], "root_path", "rootpath"),
    "--server-name": ([], "server_names", "append"),
    "--statsd-host": ([], "statsd_host", "str"),
    "--statsd-prefix": ([], "statsd_prefix", "str"),
    "--umask": (["-m"], "umask", "int"),
    "--user": (["-u"], "user", "int"),
    "--verify-mode": ([], "verify_mode", "vmode_name"),
    "--websocket-ping-interval": ([], "websocket_ping_interval", "int"),
    "--workers": (["-w"], "workers", "int"),
}


def cli_spellings() -> List[Tuple[str, str]]:
    """[(spelling, canonical)] for every documented spelling except the config-file option."""
    out = []
    for canon, (aliases, setting, kind) in CLI_FLAGS.items():
        if kind == "config":
            continue
        out.append((canon, canon))
        for a in aliases:
            out.append((a, canon))
    return out


_VMODES = ["CERT_OPTIONAL", "CERT_REQUIRED", "CERT_NONE"]


def cli_value(spelling: str, canon: str, vset: int, slot: int = 0) -> Tuple[List[str], Any]:
    """(argv words after the flag, value the documented setting must end up with / contain).

    vset 0: a value unique to (spelling, slot) so that crossed wiring is visible;
    vset 1: edge values (0, empty string, trailing slash);  vset 2: negative numbers / odd strings.
    """
    kind = CLI_FLAGS[canon][2]
    idx = [s for s, _ in cli_spellings()].index(spelling)
    uniq = 1000 + 10 * idx + slot
    if kind == "flag":
        return [], True
    if kind == "int":
        n = {0: uniq, 1: 0, 2: -(uniq)}[vset]
        return [str(n)], n
    if kind == "cert_reqs":
        n = {0: 2, 1: 0, 2: 1}[vset] if slot == 0 else {0: 1, 1: 2, 2: 0}[vset]
        return [str(n)], ssl.VerifyMode(n)
    if kind == "vmode_name":
        name = _VMODES[(vset + slot) % 3]
        return [name], ssl.VerifyMode[name]
    if kind == "append":
        s = {0: f"10.{idx}.{slot}.1:{uniq}", 1: f"unix:/tmp/c19 {idx} {slot}.sock", 2: f"[::{idx}]:{uniq}"}[vset]
        return [s], s
    if kind == "rootpath":
        s = {0: f"/rp-{uniq}", 1: f"/rp-{uniq}/", 2: "/"}[vset]
        return [s], strip_trailing_slashes(s)
    s = {0: f"v-{spelling.strip('-')}-{slot}", 1: "", 2: f"a b={uniq};#x"}[vset]
    return [s], s


# =============================================================================================
# C19: bind strings (docs binds.rst: host:port, host, [v6]:port, unix:path, fd://num; default port 8000)


def parse_bind(bind: str) -> tuple:
    """('unix', path) | ('fd', n) | ('inet', host, port) | ('inet6', host, port)."""
    if bind.startswith("unix:"):
        return ("unix", bind[len("unix:"):])
    if bind.startswith("fd://"):
        return ("fd", int(bind[len("fd://"):]))
    if bind.startswith("["):
        close = bind.index("]")
        host = bind[1:close]
        rest = bind[close + 1:]
        port = int(rest[1:]) if rest.startswith(":") else 8000
        return ("inet6", host, port)
    if bind.count(":") == 0:
        return ("inet", bind, 8000)
    if bind.count(":") == 1:
        host, port = bind.split(":")
        return ("inet", host, int(port))
    return ("inet6", bind, 8000)  # unbracketed IPv6 literal can only be a bare host


# =============================================================================================
# C19: RFC 7231 section 7.1.1.1 IMF-fixdate, from first principles (no time/datetime/wsgiref)

_DAYS = ["Thu", "Fri", "Sat", "Sun", "Mon", "Tue", "Wed"]  # 1970-01-01 was a Thursday
_MONTHS = ["Jan", "Feb", "Mar", "Apr", "May", "Jun", "Jul", "Aug", "Sep", "Oct", "Nov", "Dec"]


def _is_leap(y: int) -> bool:
    return y % 4 == 0 and (y % 100 != 0 or y % 400 == 0)


def civil_from_days(days: int) -> Tuple[int, int, int]:
    y = 1970
    while True:
        n = 366 if _is_leap(y) else 365
        if days < n:
            break
        days -= n
        y += 1
    lengths = [31, 29 if _is_leap(y) else 28, 31, 30, 31, 30, 31, 31, 30, 31, 30, 31]
    m = 0
    while days >= lengths[m]:
        days -= lengths[m]
        m += 1
    return y, m + 1, days + 1


def days_from_civil(y: int, m: int, d: int) -> int:
    days = 0
    for yy in range(1970, y):
        days += 366 if _is_leap(yy) else 365
    lengths = [31, 29 if _is_leap(y) else 28, 31, 30, 31, 30, 31, 31, 30, 31, 30, 31]
    for mm in range(m - 1):
        days += lengths[mm]
    return days + d - 1


def imf_fixdate(epoch: float) -> bytes:
    secs = int(epoch // 1)
    days, rem = divmod(secs, 86400)
    y, m, d = civil_from_days(days)
    hh, rem = divmod(rem, 3600)
    mm, ss = divmod(rem, 60)
    return ("%s, %02d %s %04d %02d:%02d:%02d GMT" % (_DAYS[days % 7], d, _MONTHS[m - 1], y, hh, mm, ss)).encode("ascii")


# =============================================================================================
# C20: proxy trust rule (docs proxy_fix.rst; RFC 7239 for the Forwarded element syntax)


def list_values(headers: List[Tuple[bytes, bytes]], name: bytes) -> List[str]:
    """All comma separated items of all fields called `name` (case-insensitive), in order, trimmed."""
    out: List[str] = []
    for n, v in headers:
        if n.lower() == name:
            for item in v.split(b","):
                out.append(item.decode("latin1").strip(" \t"))
    return out


def trusted(values: List[str], hops: int) -> Optional[str]:
    if hops <= 0 or len(values) < hops:
        return None
    return values[len(values) - hops]


def proxy_expect(mode: str, hops: int, headers: List[Tuple[bytes, bytes]]) -> Dict[str, Optional[str]]:
    """{'client','scheme','host'}: the trusted value or None (= leave untouched).

    Only for *plain* elements (lower-case parameter names, token values); the checks do not use this
    for the exotic RFC 7239 spellings (quoted strings, upper-case parameter names).
    In modern mode the Forwarded header is authoritative when it carries enough values, otherwise
    the legacy headers are consulted (hypercorn's documented modes are "legacy" and "modern" only; the
    checks keep legacy headers out of modern-mode cases whose Forwarded header is too short, so this
    fallback is never what decides a verdict).
    """
    res: Dict[str, Optional[str]] = {"client": None, "scheme": None, "host": None}
    if mode == "modern":
        elem = trusted(list_values(headers, b"forwarded"), hops)
        if elem is not None:
            for pair in elem.split(";"):
                if "=" not in pair:
                    continue
                k, v = pair.split("=", 1)
                if k == "for":
                    res["client"] = v
                elif k == "proto":
                    res["scheme"] = v
                elif k == "host":
                    res["host"] = v
            return res
    res["client"] = trusted(list_values(headers, b"x-forwarded-for"), hops)
    res["scheme"] = trusted(list_values(headers, b"x-forwarded-proto"), hops)
    res["host"] = trusted(list_values(headers, b"x-forwarded-host"), hops)
    return res


# =============================================================================================
# C20: dispatcher routing rule (docs dispatch_apps.rst: mounts are checked in dictionary order)


def dispatch_expect(mounts: List[str], path: str) -> Optional[Tuple[int, str]]:
    """(index of the mount that must serve the request, path it must see) or None for 404."""
    for i, prefix in enumerate(mounts):
        if path.startswith(prefix):
            rest = path[len(prefix):]
            return i, (rest if rest != "" else "/")
    return None


# =============================================================================================
# C20: redirect target


def redirect_expect(scheme: str, host: str, root_path: str, raw_path: bytes, query: bytes) -> bytes:
    url = scheme.encode() + b"://" + host.encode("latin1") + root_path.encode() + raw_path
    if query:
        url += b"?" + query
    return url
