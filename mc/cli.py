from __future__ import annotations

import argparse
import ast
import importlib
import json
import os
import sys

from . import bootstrap  # noqa: F401
from .explore import main_check

QUICK_BUDGET = 100.0
THOROUGH_BUDGET = 900.0


def main() -> int:
    ap = argparse.ArgumentParser()
    ap.add_argument("target")
    ap.add_argument("--tier", default=os.environ.get("VERIF_TIER", "quick"))
    ap.add_argument("--replay")
    ap.add_argument("--jobs", type=int, default=int(os.environ.get("VERIF_JOBS", "16")))
    ap.add_argument("--budget", type=float, default=None)
    args = ap.parse_args()
    seed = int(os.environ.get("VERIF_SEED", "0") or 0)
    if args.tier not in ("quick", "thorough"):
        args.tier = "quick"
    if args.target == "selftest":
        from . import selftest

        return selftest.main()
    modname = "props." + args.target.lower()
    if args.replay:
        return replay(modname, args.replay)
    budget = args.budget
    if budget is None:
        mod = importlib.import_module(modname)
        budget = getattr(mod, "BUDGET", {}).get(args.tier, QUICK_BUDGET if args.tier == "quick" else THOROUGH_BUDGET)
    return main_check(modname, args.tier, seed, args.jobs, budget)


def replay(modname: str, path: str) -> int:
    mod = importlib.import_module(modname)
    with open(path) as f:
        art = json.load(f)
    params = ast.literal_eval(art["params_repr"])
    if art.get("history_repr"):
        history = ast.literal_eval(art["history_repr"])
        viol, obs = mod.replay_history(params, history)
    else:
        r1 = mod.execute(params, art["choices"])
        r2 = mod.execute(params, art["choices"])
        if r1.digest != r2.digest:
            print("HARNESS-ERROR: replay is not deterministic")
            return 2
        viol, obs = r1.violations, r1.sample
    print("observation:", json.dumps(obs, indent=1, default=repr)[:4000])
    for v in viol:
        print(f"violation clause={v['clause']} key={v['key']} detail={v['detail'][:400]}")
    hit = [v for v in viol if v["clause"] == art["clause"] and v["key"] == art["key"]]
    print("verdict:", "REPRODUCED" if hit else ("other violations" if viol else "no violation"))
    return 1 if viol else 0


if __name__ == "__main__":
    sys.exit(main())
