"""Shared runner for the C10 / C11 harnesses.

Both properties are (mostly) bounded-exhaustive *input* enumerations: one execution = one input
case played at quiescence.  To keep the number of top-level scenarios small, and to get replay
artefacts and the determinism re-run for free, the input case is selected by *data choice points*
("data" kind: always fully enumerated by Explorer A, never bounded) drawn from the very chooser that
the engine uses afterwards for its own scheduling choice points.  `build(params, pick)` draws the
case with `pick(n, label) -> int` and returns `(engine, scenario_dict, case)`.
"""
from __future__ import annotations

import os
from typing import Any, Callable, List, Optional

from wsproto import ConnectionType, WSConnection
from wsproto import events as wse
from wsproto.connection import Connection as WSFrameConnection
from wsproto.extensions import PerMessageDeflate
from wsproto.utilities import RemoteProtocolError as WSRemoteProtocolError

from . import aio
from .clients import Client, H1Parser, WSParser
from .core import Chooser, digest
from .explore import ExecResult, V
from .harness import WATCHDOG_S, NeverYields, default_observation, describe, generic_violations, watchdog


def run_world_with(engine: str, scenario: dict, chooser: Chooser) -> Any:
    """mc.harness.run_world, but continuing an existing chooser (whose first points were data choices)."""
    if engine == "asyncio":
        w = aio.AioWorld(scenario, chooser).run()
    elif engine == "trio":
        from . import tri

        w = tri.TrioWorld(scenario, chooser).run()
    else:
        raise ValueError(engine)
    for rec in w.conns.values():
        if rec.client is not None and (rec.closed_at is not None or rec.server_eof_at is not None):
            t = rec.closed_at if rec.closed_at is not None else rec.server_eof_at
            rec.client.on_close(t)
    return w


# mc.explore keeps at most 2000 violation records per run (400 per scenario) and drops the rest, so a
# frequent violation would crowd out a rare one and the set of reported keys would depend on scheduling
# of the pool.  Each worker process therefore reports a given (clause, key) at most KEEP times; a
# replay runs in a fresh process and always reports.
KEEP = 2
_REPORTED: dict = {}


def _thin(viol: List[dict]) -> List[dict]:
    out = []
    for v in viol:
        k = (v["clause"], v["key"])
        n = _REPORTED.get(k, 0)
        if n < KEEP:
            _REPORTED[k] = n + 1
            out.append(v)
    return out


def case_execute(build: Callable[[Any, Callable[[int, str], int]], tuple],
                 oracle: Callable[[Any, Any, Any], List[dict]],
                 observe: Optional[Callable[[Any, Any, Any], Any]] = None,
                 describe_case: Optional[Callable[[Any], Any]] = None) -> Callable[[Any, List[int]], ExecResult]:
    def execute(params: Any, prefix: List[int]) -> ExecResult:
        chooser = Chooser(prefix)

        def pick(n: int, label: str = "") -> int:
            return chooser.choose(n, "data", label)

        engine, scenario, case = build(params, pick)
        n_data = len(chooser.trace)
        try:
            with watchdog(WATCHDOG_S):
                w = run_world_with(engine, scenario, chooser)
        except NeverYields as e:
            # server code that computes for ever inside one step (e.g. module-level state that grows from execution to
            # execution of a worker process): reported, so that the run ends instead of hanging
            return ExecResult(list(chooser.trace),
                              [V("never-yields", str(e)[:80], f"execution exceeded {WATCHDOG_S}s of wall time inside one step")],
                              "never-yields", True, (), {"params": repr(params)[:300], "choices": list(prefix)})
        viol = _thin(generic_violations(w) + oracle(w, params, case))
        obs = observe(w, params, case) if observe is not None else default_observation(w)
        choices = chooser.choices
        if os.environ.get("MC_VERBOSE"):
            print("case:", describe_case(case) if describe_case else case)
            describe(w)
        nontrivial = bool(w.instances) and any(choices)
        sample = {"params": repr(params)[:300], "engine": engine, "choices": choices[:40],
                  "case": repr(describe_case(case) if describe_case else case)[:400],
                  "data_choice_points": n_data,
                  "events": [repr(e)[:80] for _, e in w.driver.fired][:8],
                  "instances": [(i.scope["type"], i.scope.get("path"), i.outcome) for i in w.instances][:4]}
        return ExecResult(chooser.trace, viol, digest(obs), nontrivial, w.sigs, sample)

    return execute


def negotiated_deflate(offered: bool, headers: Optional[list]) -> Optional[str]:
    """RFC 6455 9.1 / RFC 7692 5: what a client that offered (or did not offer) permessage-deflate ENABLES after the
    handshake response `headers` (101 of HTTP/1.1, 200 of an RFC 8441 extended CONNECT): the extension is in use iff
    the client offered it AND the response names it in sec-websocket-extensions.  Returns the accepted extension
    string (with its parameters) or None."""
    if not offered or headers is None:
        return None
    for n, v in headers:
        if n.lower() != b"sec-websocket-extensions":
            continue
        for tok in v.split(b","):
            if tok.split(b";")[0].strip().lower() == b"permessage-deflate":
                return tok.decode("latin1").strip()
    return None


class NegotiatedWSParser(WSParser):
    """Server -> client frames through a wsproto client connection on which exactly the negotiated extensions are
    enabled.  Without a negotiated permessage-deflate an RSV1 frame is the protocol error it is (RFC 6455 5.2:
    'MUST be 0 unless an extension is negotiated', wsproto: 1002 'Reserved bit set unexpectedly')."""

    def __init__(self, accepted: Optional[str]) -> None:
        super().__init__(False)
        self.negotiated = accepted
        if accepted is not None:
            ext = PerMessageDeflate()
            try:
                ext.finalize(accepted)
            except Exception as e:  # parameters a client cannot make sense of
                self.error = f"ExtensionParameters: {accepted!r}: {e}"
            else:
                self.conn = WSFrameConnection(ConnectionType.CLIENT, [ext])


class _StreamParsers(dict):
    """ws over HTTP/2: the frame parser of a stream comes into being when the 200 arrives, with the extensions that
    response accepted (mc.clients.H2Client looks the parser up at every DATA frame: `sid in ws`, `ws[sid]`)."""

    def __init__(self, h2client: Any) -> None:
        super().__init__()
        self.h2client = h2client
        self.offers: dict = {}  # stream id -> the client offered permessage-deflate

    def _make(self, sid: Any) -> Optional[WSParser]:
        if dict.__contains__(self, sid):
            return dict.__getitem__(self, sid)
        if sid not in self.offers:
            return None
        st = self.h2client.streams.get(sid)
        if st is None or st["status"] != 200:
            return None
        parser = NegotiatedWSParser(negotiated_deflate(self.offers[sid], st["headers"]))
        dict.__setitem__(self, sid, parser)
        return parser

    def settle(self) -> None:
        for sid in sorted(self.offers):
            self._make(sid)

    def __contains__(self, sid: Any) -> bool:
        return self._make(sid) is not None

    def __getitem__(self, sid: Any) -> WSParser:
        parser = self._make(sid)
        if parser is None:
            raise KeyError(sid)
        return parser

    def get(self, sid: Any, default: Any = None) -> Any:
        parser = self._make(sid)
        return default if parser is None else parser


class UpgradeAtParser(H1Parser):
    """mc.clients.H1Parser whose websocket upgrade is request number `upgrade_at` of the connection (the stock parser
    can only upgrade with request 0): the h11 client that reads response `upgrade_at` has proposed the upgrade."""

    upgrade_at = 0

    def _start(self) -> None:
        import h11

        c = h11.Connection(h11.CLIENT)
        method = self.methods[self.idx] if self.idx < len(self.methods) else b"GET"
        headers = [("host", "x")]
        if self.upgrade is not None and self.idx == self.upgrade_at:
            headers += [("connection", "upgrade"), ("upgrade", self.upgrade)]
        c.send(h11.Request(method=method, target="/", headers=headers))
        c.send(h11.EndOfMessage())
        self.conn = c
        self.cur = None


class GuardClient(Client):
    """mc.clients.Client + what a real client does around the handshake:
      * frames are sent only once the handshake response (101 / 200) was received; ws/h1 frames are
        ('cmd', k, 'ws_raw', bytes);
      * the extension is NEGOTIATED: connection option `deflate` (ws/h1) / ('cmd', k, 'ws_open', sid, deflate) (ws/h2)
        say what the client OFFERED; the frame parser is created when the handshake response arrives and has
        permessage-deflate enabled only if that response accepted it (negotiated_deflate);
      * connection option `upgrade_at` = n: the upgrade is the (n+1)-th request of the HTTP/1.1 connection."""

    def __init__(self, opts: dict) -> None:
        super().__init__(opts)
        self.offered_deflate = bool(opts.get("deflate", False))
        if self.h1 is not None and self.ws is not None:
            if opts.get("upgrade_at"):
                h1 = UpgradeAtParser(opts.get("methods"), upgrade=self.h1.upgrade)
                h1.upgrade_at = int(opts["upgrade_at"])
                self.h1 = h1
            self.ws = None  # comes into being with the 101
            self.h1.on_switch_data = self._ws_feed
        if self.h2 is not None and self.h1 is None:
            self.h2.ws = _StreamParsers(self.h2)

    def upgrade_response(self) -> Optional[dict]:
        if self.h1 is None:
            return None
        return next((r for r in self.h1.responses if r["status"] == 101), None)

    def _settle(self) -> None:
        if self.h1 is not None and self.h1.on_switch_data == self._ws_feed and self.ws is None and self.h1.switched:
            r = self.upgrade_response()
            self.ws = NegotiatedWSParser(negotiated_deflate(self.offered_deflate, None if r is None else r["headers"]))
        if self.h2 is not None and isinstance(self.h2.ws, _StreamParsers):
            self.h2.ws.settle()

    def _ws_feed(self, data: bytes, t: float) -> None:
        self._settle()
        self.ws.feed(data, t)

    def on_server_bytes(self, data: bytes, t: float) -> None:
        super().on_server_bytes(data, t)
        self._settle()

    def upgraded(self) -> bool:
        if self.h1 is not None:
            return self.h1.switched
        st = self.h2.streams.get(1)
        return st is not None and st["status"] == 200

    def cmd_enabled(self, ev: tuple) -> bool:
        if ev[2] == "ws_wait":  # pure guard: lets a source wait for the handshake response
            return self.upgraded()
        if ev[2] == "ws_raw":
            return self.h1 is not None and self.h1.switched
        if ev[2] == "ws_data":
            st = self.h2.streams.get(ev[3])
            if st is None or st["status"] != 200:
                return False
        return super().cmd_enabled(ev)

    def command(self, ev: tuple) -> bytes:
        if ev[2] == "ws_wait":
            return b""
        if ev[2] == "ws_raw":
            return ev[3]
        if ev[2] == "ws_open" and isinstance(self.h2.ws, _StreamParsers):
            self.h2.ws.offers[ev[3]] = len(ev) > 4 and bool(ev[4])
            self.h2.ws.settle()
            return b""
        return super().command(ev)


def wsproto_client_verdict(raw101: bytes, key: bytes, subprotocols: List[str], deflate_offered: bool) -> Optional[str]:
    """The handshake response bytes judged by an independent wsproto CLIENT that sent the corresponding request
    (same key, subprotocols and extension offer).  None = it accepts the connection; else why it does not."""
    ws = WSConnection(ConnectionType.CLIENT)
    exts = [PerMessageDeflate()] if deflate_offered else []
    ws.send(wse.Request(host="hypercorn", target="/w", subprotocols=list(subprotocols), extensions=exts))
    ws.handshake._nonce = key  # the request on the wire was written by the harness with this key
    try:
        ws.receive_data(raw101)
        evs = list(ws.events())
    except WSRemoteProtocolError as e:
        return f"RemoteProtocolError: {e}"
    except Exception as e:
        return f"{type(e).__name__}: {e}"
    if len(evs) != 1 or not isinstance(evs[0], wse.AcceptConnection):
        return f"events {[type(e).__name__ for e in evs]}"
    return None


def raw_upgrade_response(raw: bytes) -> Optional[bytes]:
    """The bytes of the 101 response head in everything the server wrote on an HTTP/1.1 connection."""
    i = bytes(raw).find(b"HTTP/1.1 101")
    if i < 0:
        return None
    j = bytes(raw).find(b"\r\n\r\n", i)
    return None if j < 0 else bytes(raw[i:j + 4])


def make_guard_client(world: Any, k: int, opts: dict) -> Client:
    return GuardClient(opts)


class WindowClient(GuardClient):
    """GuardClient + the 'ws_early' command: WebSocket bytes sent while the server's handshake response is still
    in flight (the peer's reading is paused, so the client has not seen the 101 / 200 yet).

        ('cmd', k, 'ws_early', stream_id, bytes)     stream_id is ignored on the HTTP/1.1 carrier
        ('cmd', k, 'accept_wait')                    sends nothing: lets a source wait for the same instant
        ('cmd', k, 'close_wait')                     sends nothing: enabled once an application instance has issued
                                                     websocket.close (its send may still be under way)

    The command is a scheduling device: it is enabled exactly once an application instance of this connection's
    world has issued websocket.accept, i.e. it places the arrival of the bytes in the window between the
    application's decision and the completion of the server's send of the response."""

    world: Any = None
    # the client accepts response heads far larger than the transport's write buffer limits
    BIG_HEADER_LIST = 1 << 22

    def __init__(self, opts: dict) -> None:
        super().__init__(opts)
        if self.h2 is not None:
            self.h2.conn.decoder.max_header_list_size = self.BIG_HEADER_LIST

    def sent_by_app(self, mtype: str) -> bool:
        w = self.world
        if w is None:
            return False
        return any(s[2].get("type") == mtype for i in w.instances for s in i.sends)

    def accepted_by_app(self) -> bool:
        return self.sent_by_app("websocket.accept")

    def cmd_enabled(self, ev: tuple) -> bool:
        if ev[2] == "accept_wait":  # pure guard: the application has decided to accept
            return self.accepted_by_app()
        if ev[2] == "close_wait":  # pure guard: the application has issued its close
            return self.sent_by_app("websocket.close")
        if ev[2] == "ws_early":
            if not self.accepted_by_app():
                return False
            if self.h2 is not None and self.h1 is None:
                return self.h2.cmd_enabled("datan", (ev[3], ev[4], False))
            return True
        return super().cmd_enabled(ev)

    def command(self, ev: tuple) -> bytes:
        if ev[2] in ("accept_wait", "close_wait"):
            return b""
        if ev[2] == "ws_early":
            if self.h2 is not None and self.h1 is None:
                return self.h2.command("datan", (ev[3], ev[4], False))
            return ev[4]
        return super().command(ev)


def make_window_client(world: Any, k: int, opts: dict) -> Client:
    c = WindowClient(opts)
    c.world = world
    return c
