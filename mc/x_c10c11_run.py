"""Shared runner for the C10 / C11 harnesses.

Both properties are (mostly) bounded-exhaustive *input* enumerations: one execution = one input
case played at quiescence.  To keep the number of top-level scenarios small, and to get replay
artefacts and the determinism re-run for free, the input case is selected by *data choice points*
("data" kind: always fully enumerated by Explorer A, never bounded) drawn from the very chooser that
the engine uses afterwards for its own scheduling choice points.  `build(params, pick)` draws the
case with `pick(n, label) -> int` and returns `(engine, scenario_dict, case)`.
"""
from __future__ import annotations

import os
from typing import Any, Callable, List, Optional

from . import aio
from .clients import Client
from .core import Chooser, digest
from .explore import ExecResult
from .harness import default_observation, describe, generic_violations


def run_world_with(engine: str, scenario: dict, chooser: Chooser) -> Any:
    """mc.harness.run_world, but continuing an existing chooser (whose first points were data choices)."""
    if engine == "asyncio":
        w = aio.AioWorld(scenario, chooser).run()
    elif engine == "trio":
        from . import tri

        w = tri.TrioWorld(scenario, chooser).run()
    else:
        raise ValueError(engine)
    for rec in w.conns.values():
        if rec.client is not None and (rec.closed_at is not None or rec.server_eof_at is not None):
            t = rec.closed_at if rec.closed_at is not None else rec.server_eof_at
            rec.client.on_close(t)
    return w


# mc.explore keeps at most 2000 violation records per run (400 per scenario) and drops the rest, so a
# frequent violation would crowd out a rare one and the set of reported keys would depend on scheduling
# of the pool.  Each worker process therefore reports a given (clause, key) at most KEEP times; a
# replay runs in a fresh process and always reports.
KEEP = 2
_REPORTED: dict = {}


def _thin(viol: List[dict]) -> List[dict]:
    out = []
    for v in viol:
        k = (v["clause"], v["key"])
        n = _REPORTED.get(k, 0)
        if n < KEEP:
            _REPORTED[k] = n + 1
            out.append(v)
    return out


def case_execute(build: Callable[[Any, Callable[[int, str], int]], tuple],
                 oracle: Callable[[Any, Any, Any], List[dict]],
                 observe: Optional[Callable[[Any, Any, Any], Any]] = None,
                 describe_case: Optional[Callable[[Any], Any]] = None) -> Callable[[Any, List[int]], ExecResult]:
    def execute(params: Any, prefix: List[int]) -> ExecResult:
        chooser = Chooser(prefix)

        def pick(n: int, label: str = "") -> int:
            return chooser.choose(n, "data", label)

        engine, scenario, case = build(params, pick)
        n_data = len(chooser.trace)
        w = run_world_with(engine, scenario, chooser)
        viol = _thin(generic_violations(w) + oracle(w, params, case))
        obs = observe(w, params, case) if observe is not None else default_observation(w)
        choices = chooser.choices
        if os.environ.get("MC_VERBOSE"):
            print("case:", describe_case(case) if describe_case else case)
            describe(w)
        nontrivial = bool(w.instances) and any(choices)
        sample = {"params": repr(params)[:300], "engine": engine, "choices": choices[:40],
                  "case": repr(describe_case(case) if describe_case else case)[:400],
                  "data_choice_points": n_data,
                  "events": [repr(e)[:80] for _, e in w.driver.fired][:8],
                  "instances": [(i.scope["type"], i.scope.get("path"), i.outcome) for i in w.instances][:4]}
        return ExecResult(chooser.trace, viol, digest(obs), nontrivial, w.sigs, sample)

    return execute


class GuardClient(Client):
    """mc.clients.Client + the guard a real client obeys: frames are sent only once the handshake response
    (101 / 200) was received.  ws/h1 frames are ('cmd', k, 'ws_raw', bytes)."""

    def upgraded(self) -> bool:
        if self.h1 is not None:
            return self.h1.switched
        st = self.h2.streams.get(1)
        return st is not None and st["status"] == 200

    def cmd_enabled(self, ev: tuple) -> bool:
        if ev[2] == "ws_wait":  # pure guard: lets a source wait for the handshake response
            return self.upgraded()
        if ev[2] == "ws_raw":
            return self.h1 is not None and self.h1.switched
        if ev[2] == "ws_data":
            st = self.h2.streams.get(ev[3])
            if st is None or st["status"] != 200:
                return False
        return super().cmd_enabled(ev)

    def command(self, ev: tuple) -> bytes:
        if ev[2] == "ws_wait":
            return b""
        if ev[2] == "ws_raw":
            return ev[3]
        return super().command(ev)


def make_guard_client(world: Any, k: int, opts: dict) -> Client:
    return GuardClient(opts)


class WindowClient(GuardClient):
    """GuardClient + the 'ws_early' command: WebSocket bytes sent while the server's handshake response is still
    in flight (the peer's reading is paused, so the client has not seen the 101 / 200 yet).

        ('cmd', k, 'ws_early', stream_id, bytes)     stream_id is ignored on the HTTP/1.1 carrier
        ('cmd', k, 'accept_wait')                    sends nothing: lets a source wait for the same instant

    The command is a scheduling device: it is enabled exactly once an application instance of this connection's
    world has issued websocket.accept, i.e. it places the arrival of the bytes in the window between the
    application's decision and the completion of the server's send of the response."""

    world: Any = None
    # the client accepts response heads far larger than the transport's write buffer limits
    BIG_HEADER_LIST = 1 << 22

    def __init__(self, opts: dict) -> None:
        super().__init__(opts)
        if self.h2 is not None:
            self.h2.conn.decoder.max_header_list_size = self.BIG_HEADER_LIST

    def accepted_by_app(self) -> bool:
        w = self.world
        if w is None:
            return False
        return any(s[2].get("type") == "websocket.accept" for i in w.instances for s in i.sends)

    def cmd_enabled(self, ev: tuple) -> bool:
        if ev[2] == "accept_wait":  # pure guard: the application has decided to accept
            return self.accepted_by_app()
        if ev[2] == "ws_early":
            if not self.accepted_by_app():
                return False
            if self.h2 is not None and self.h1 is None:
                return self.h2.cmd_enabled("datan", (ev[3], ev[4], False))
            return True
        return super().cmd_enabled(ev)

    def command(self, ev: tuple) -> bytes:
        if ev[2] == "accept_wait":
            return b""
        if ev[2] == "ws_early":
            if self.h2 is not None and self.h1 is None:
                return self.h2.command("datan", (ev[3], ev[4], False))
            return ev[4]
        return super().command(ev)


def make_window_client(world: Any, k: int, opts: dict) -> Client:
    c = WindowClient(opts)
    c.world = world
    return c
