"""Shared runner for the C10 / C11 harnesses.

Both properties are (mostly) bounded-exhaustive *input* enumerations: one execution = one input
case played at quiescence.  To keep the number of top-level scenarios small, and to get replay
artefacts and the determinism re-run for free, the input case is selected by *data choice points*
("data" kind: always fully enumerated by Explorer A, never bounded) drawn from the very chooser that
the engine uses afterwards for its own scheduling choice points.  `build(params, pick)` draws the
case with `pick(n, label) -> int` and returns `(engine, scenario_dict, case)`.
"""
from __future__ import annotations

import os
from typing import Any, Callable, List, Optional

from . import aio
from .clients import Client
from .core import Chooser, digest
from .explore import ExecResult
from .harness import default_observation, describe, generic_violations


def run_world_with(engine: str, scenario: dict, chooser: Chooser) -> Any:
    """mc.harness.run_world, but continuing an existing chooser (whose first points were data choices)."""
    if engine == "asyncio":
        w = aio.AioWorld(scenario, chooser).run()
    elif engine == "trio":
        from . import tri

        w = tri.TrioWorld(scenario, chooser).run()
    else:
        raise ValueError(engine)
    for rec in w.conns.values():
        if rec.client is not None and (rec.closed_at is not None or rec.server_eof_at is not None):
            t = rec.closed_at if rec.closed_at is not None else rec.server_eof_at
            rec.client.on_close(t)
    return w


# mc.explore keeps at most 2000 violation records per run (400 per scenario) and drops the rest, so a
# frequent violation would crowd out a rare one and the set of reported keys would depend on scheduling
# of the pool.  Each worker process therefore reports a given (clause, key) at most KEEP times; a
# replay runs in a fresh process and always reports.
KEEP = 2
_REPORTED: dict = {}


def _thin(viol: List[dict]) -> List[dict]:
    out = []
    for v in viol:
        k = (v["clause"], v["key"])
        n = _REPORTED.get(k, 0)
        if n < KEEP:
            _REPORTED[k] = n + 1
            out.append(v)
    return out


def case_execute(build: Callable[[Any, Callable[[int, str], int]], tuple],
                 oracle: Callable[[Any, Any, Any], List[dict]],
                 observe: Optional[Callable[[Any, Any, Any], Any]] = None,
                 describe_case: Optional[Callable[[Any], Any]] = None) -> Callable[[Any, List[int]], ExecResult]:
    def execute(params: Any, prefix: List[int]) -> ExecResult:
        chooser = Chooser(prefix)

        def pick(n: int, label: str = "") -> int:
            return chooser.choose(n, "data", label)

        engine, scenario, case = build(params, pick)
        n_data = len(chooser.trace)
        w = run_world_with(engine, scenario, chooser)
        viol = _thin(generic_violations(w) + oracle(w, params, case))
        obs = observe(w, params, case) if observe is not None else default_observation(w)
        choices = chooser.choices
        if os.environ.get("MC_VERBOSE"):
            print("case:", describe_case(case) if describe_case else case)
            describe(w)
        nontrivial = bool(w.instances) and any(choices)
        sample = {"params": repr(params)[:300], "engine": engine, "choices": choices[:40],
                  "case": repr(describe_case(case) if describe_case else case)[:400],
                  "data_choice_points": n_data,
                  "events": [repr(e)[:80] for _, e in w.driver.fired][:8],
                  "instances": [(i.scope["type"], i.scope.get("path"), i.outcome) for i in w.instances][:4]}
        return ExecResult(chooser.trace, viol, digest(obs), nontrivial, w.sigs, sample)

    return execute


class GuardClient(Client):
    """mc.clients.Client + the guard a real client obeys: frames are sent only once the handshake response
    (101 / 200) was received.  ws/h1 frames are ('cmd', k, 'ws_raw', bytes)."""

    def upgraded(self) -> bool:
        if self.h1 is not None:
            return self.h1.switched
        st = self.h2.streams.get(1)
        return st is not None and st["status"] == 200

    def cmd_enabled(self, ev: tuple) -> bool:
        if ev[2] == "ws_wait":  # pure guard: lets a source wait for the handshake response
            return self.upgraded()
        if ev[2] == "ws_raw":
            return self.h1 is not None and self.h1.switched
        if ev[2] == "ws_data":
            st = self.h2.streams.get(ev[3])
            if st is None or st["status"] != 200:
                return False
        return super().cmd_enabled(ev)

    def command(self, ev: tuple) -> bytes:
        if ev[2] == "ws_wait":
            return b""
        if ev[2] == "ws_raw":
            return ev[3]
        return super().command(ev)


def make_guard_client(world: Any, k: int, opts: dict) -> Client:
    return GuardClient(opts)
