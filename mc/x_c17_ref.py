"""Reference models for C17 (WSGI adapter): written from PEP 3333, RFC 3875 (CGI meta-variables),
wsgiref.validate's reading of the PEP and the ASGI HTTP spec.  No hypercorn imports.

* `Req`                 - the request *specification* every case starts from
* `asgi_scope(req)`     - the ASGI http scope a conforming server builds for it (used at the direct seam only)
* `check_environ(...)`  - PEP 3333 environ oracle: compares a snapshot of what the WSGI callable got with
                          the environ derived from the request specification
* `expected_response()` - what the client must see for an application *shape* (derived from the shape's
                          specification, never by running hypercorn)
* `asgi_view(msgs)`     - a boring ASGI `send` consumer: status, headers, body, completeness, protocol errors
* `check_flow(...)`     - the thread bridge is synchronous: what the application thread may observe of the
                          sends (begun / completed / failed) each time it is asked for the next chunk
"""
from __future__ import annotations

from typing import Any, Dict, List, NamedTuple, Optional, Tuple
from urllib.parse import unquote_to_bytes

# ---------------------------------------------------------------------------------------------
# request specification


class Req(NamedTuple):
    method: str
    raw_path: bytes  # request-target path as sent (percent-encoded ASCII)
    query: bytes  # raw query string (after '?'), b"" when absent
    root_path: str  # the mount point (config.root_path / scope["root_path"]), decoded text
    headers: Tuple[Tuple[bytes, bytes], ...]  # as sent by the client (any case), in order
    version: str  # "1.0" | "1.1" | "2"
    scheme: str
    client: Optional[Tuple[str, int]]
    server: Optional[Tuple[str, Optional[int]]]
    body: bytes


def asgi_scope(req: Req, variant: str = "full") -> dict:
    """ASGI 3 HTTP connection scope (asgiref specs/www.rst): path is the percent-decoded target,
    UTF-8 decoded; header names lower-cased byte strings in original order."""
    scope: Dict[str, Any] = {
        "type": "http",
        "asgi": {"version": "3.0", "spec_version": "2.1"},
        "http_version": req.version,
        "method": req.method.upper(),
        "scheme": req.scheme,
        "path": unquote_to_bytes(req.raw_path).decode("utf-8", "replace"),
        "raw_path": req.raw_path,
        "query_string": req.query,
        "root_path": req.root_path,
        "headers": [(n.lower(), v.strip(b" \t")) for n, v in req.headers],
        "client": req.client,
        "server": req.server,
        "extensions": {},
        "state": {},
    }
    if variant == "minimal":  # every key the ASGI spec marks optional is left out
        for key in ("scheme", "root_path", "client", "server", "state", "extensions", "raw_path"):
            scope.pop(key, None)
    return scope


# ---------------------------------------------------------------------------------------------
# PEP 3333 environ


def _latin1(b: bytes) -> str:
    return b.decode("latin-1")


def split_path(req: Req) -> Optional[Tuple[str, List[str]]]:
    """(SCRIPT_NAME, acceptable PATH_INFO values) as PEP 3333 native strings (bytes-as-latin-1), or
    None when the mount point is not a whole-segment prefix of the request path (no valid split)."""
    full = unquote_to_bytes(req.raw_path)
    root = req.root_path.encode("utf-8")
    if root == b"":
        return "", [_latin1(full)]
    if full == root:
        # "PATH_INFO may be an empty string if the request URL targets the application root and does
        # not have a trailing slash"; many gateways hand "/" instead: both are accepted.
        return _latin1(root), ["", "/"]
    if full.startswith(root + b"/"):
        return _latin1(root), [_latin1(full[len(root):])]
    return None


def header_vars(req: Req) -> Dict[str, List[str]]:
    """CGI variable name -> list of values in arrival order (RFC 3875 4.1.18 + PEP 3333)."""
    out: Dict[str, List[str]] = {}
    for name, value in req.headers:
        n = _latin1(name).lower()
        if n == "content-type":
            key = "CONTENT_TYPE"
        elif n == "content-length":
            key = "CONTENT_LENGTH"
        else:
            key = "HTTP_" + n.upper().replace("-", "_")
        out.setdefault(key, []).append(_latin1(value.strip(b" \t")))
    return out


def _norm_list(value: str) -> List[str]:
    return [part.strip(" \t") for part in value.split(",")]


CGI_STR_KEYS = ("REQUEST_METHOD", "SCRIPT_NAME", "PATH_INFO", "QUERY_STRING", "SERVER_NAME", "SERVER_PORT",
                "SERVER_PROTOCOL")


def check_environ(req: Req, snap: Dict[str, Any], body_read: Any, variant: str = "full") -> List[Tuple[str, str, str]]:
    """snap: shallow copy of the environ taken inside the callable; body_read: what wsgi.input.read()
    returned there.  Returns (clause, key, detail) triples."""
    bad: List[Tuple[str, str, str]] = []

    def flag(clause: str, key: str, detail: Any) -> None:
        bad.append((clause, key, str(detail)))

    if type(snap) is not dict:
        flag("environ-type", f"environ:{type(snap).__name__}", "environ must be a builtin dict")
        return bad
    # --- required CGI variables are present and are native strings
    for key in CGI_STR_KEYS:
        if key not in snap:
            flag("environ-missing", key, "required by PEP 3333")
        elif type(snap[key]) is not str and key not in ("SERVER_PORT", "SERVER_NAME"):
            # SERVER_NAME/SERVER_PORT are not among the variables the property statement names (hypercorn
            # passes the port as an int): their *type* is deliberately not judged, only their value is.
            flag("environ-pep3333-types", f"{key}:{type(snap[key]).__name__}",
                 f"{key}={snap[key]!r}: CGI variables must be native strings (PEP 3333 'environ Variables')")
    for key, value in snap.items():
        if "." not in key and key not in CGI_STR_KEYS and type(value) is not str:
            kind = "HTTP_*" if key.startswith("HTTP_") else key
            flag("environ-pep3333-types", f"{kind}:{type(value).__name__}", f"{key}={value!r}")
    # --- method, query, protocol, scheme
    if snap.get("REQUEST_METHOD") != req.method.upper():
        flag("environ-method", "REQUEST_METHOD", f"got {snap.get('REQUEST_METHOD')!r} want {req.method.upper()!r}")
    if snap.get("QUERY_STRING") != _latin1(req.query):
        flag("environ-query", "QUERY_STRING", f"got {snap.get('QUERY_STRING')!r} want {_latin1(req.query)!r}")
    protos = {"HTTP/" + req.version} | ({"HTTP/2.0"} if req.version == "2" else set())
    if snap.get("SERVER_PROTOCOL") not in protos:
        flag("environ-protocol", "SERVER_PROTOCOL", f"got {snap.get('SERVER_PROTOCOL')!r} want {sorted(protos)}")
    want_scheme = req.scheme if variant != "minimal" else "http"
    if snap.get("wsgi.url_scheme") != want_scheme:
        flag("environ-scheme", "wsgi.url_scheme", f"got {snap.get('wsgi.url_scheme')!r} want {want_scheme!r}")
    # --- SCRIPT_NAME / PATH_INFO
    sp = split_path(req) if variant != "minimal" else ("", [_latin1(unquote_to_bytes(req.raw_path))])
    script, info = snap.get("SCRIPT_NAME"), snap.get("PATH_INFO")
    if isinstance(script, str) and isinstance(info, str):
        if script == "/":
            flag("environ-path-split", "SCRIPT_NAME:is-slash", "SCRIPT_NAME must be '' instead of '/'")
        elif script and not script.startswith("/"):
            flag("environ-path-split", "SCRIPT_NAME:no-leading-slash", repr(script))
        if info and not info.startswith("/"):
            cause = "root-not-on-segment-boundary" if sp is None else "other"
            flag("environ-path-split", f"PATH_INFO:no-leading-slash:{cause}",
                 f"root_path={req.root_path!r} target={req.raw_path!r} -> SCRIPT_NAME={script!r} PATH_INFO={info!r}")
        elif sp is None:
            flag("environ-path-split", "called-with-unmatched-root",
                 f"root_path={req.root_path!r} target={req.raw_path!r} -> SCRIPT_NAME={script!r} PATH_INFO={info!r}")
        else:
            if script != sp[0]:
                flag("environ-path-split", "SCRIPT_NAME:value", f"got {script!r} want {sp[0]!r}")
            if info not in sp[1]:
                flag("environ-path-split", "PATH_INFO:value", f"got {info!r} want one of {sp[1]!r}")
    # --- headers
    want = header_vars(req)
    for key, values in want.items():
        if key not in snap:
            flag("environ-header", f"{_hk(key)}:missing", f"{key} want {values!r}")
            continue
        got = snap[key]
        if not isinstance(got, str):
            continue  # already reported by the type clause
        if len(values) == 1:
            if got != values[0]:
                flag("environ-header", f"{_hk(key)}:value", f"{key} got {got!r} want {values[0]!r}")
        elif _norm_list(got) != _norm_list(",".join(values)):
            flag("environ-header", f"{_hk(key)}:join", f"{key} got {got!r} want {','.join(values)!r}")
    for key in snap:
        if key.startswith("HTTP_") and key not in want:
            flag("environ-header", "HTTP_*:spurious", f"{key}={snap[key]!r}")
    for key in ("CONTENT_TYPE", "CONTENT_LENGTH"):
        if key not in want and snap.get(key, "") != "":
            flag("environ-header", f"{key}:spurious", f"{key}={snap[key]!r}")
    # --- server / client address
    srv = req.server if variant != "minimal" else None
    if srv is not None and isinstance(snap.get("SERVER_NAME"), str) and snap["SERVER_NAME"] != srv[0]:
        flag("environ-server", "SERVER_NAME", f"got {snap['SERVER_NAME']!r} want {srv[0]!r}")
    if srv is not None and srv[1] is not None and "SERVER_PORT" in snap and str(snap["SERVER_PORT"]) != str(srv[1]):
        flag("environ-server", "SERVER_PORT:value", f"got {snap['SERVER_PORT']!r} want {str(srv[1])!r}")
    cli = req.client if variant != "minimal" else None
    if "REMOTE_ADDR" in snap and cli is not None and snap["REMOTE_ADDR"] != cli[0]:
        flag("environ-server", "REMOTE_ADDR", f"got {snap['REMOTE_ADDR']!r} want {cli[0]!r}")
    # --- wsgi.* variables
    if snap.get("wsgi.version") != (1, 0):
        flag("environ-wsgi", "wsgi.version", repr(snap.get("wsgi.version")))
    for key in ("wsgi.multithread", "wsgi.multiprocess", "wsgi.run_once"):
        if key not in snap:
            flag("environ-wsgi", f"{key}:missing", "")
    inp, err = snap.get("wsgi.input"), snap.get("wsgi.errors")
    for attr in ("read", "readline", "readlines", "__iter__"):
        if not hasattr(inp, attr):
            flag("environ-wsgi", f"wsgi.input:no-{attr}", type(inp).__name__)
    for attr in ("write", "writelines", "flush"):
        if not hasattr(err, attr):
            flag("environ-wsgi", f"wsgi.errors:no-{attr}", type(err).__name__)
    # --- the body
    if not isinstance(body_read, (bytes, bytearray)):
        flag("environ-body", f"wsgi.input:read-type:{type(body_read).__name__}", "")
    elif bytes(body_read) != req.body:
        flag("environ-body", "wsgi.input:content",
             f"read {len(body_read)} bytes {bytes(body_read)[:24]!r}.. want {len(req.body)} bytes {req.body[:24]!r}..")
    return bad


def _hk(key: str) -> str:
    return key if key in ("CONTENT_TYPE", "CONTENT_LENGTH") else "HTTP_*"


def environ_digest_view(snap: Any, body_read: Any) -> Any:
    """Address-free rendering of an environ snapshot for outcome digests."""
    if not isinstance(snap, dict):
        return repr(type(snap))
    items = []
    for key in sorted(snap):
        value = snap[key]
        if key in ("wsgi.input", "wsgi.errors"):
            value = type(value).__name__
        items.append((key, repr(value)))
    return (tuple(items), bytes(body_read) if isinstance(body_read, (bytes, bytearray)) else repr(body_read))


# ---------------------------------------------------------------------------------------------
# WSGI application shapes: what the client must see

# excinfo_first_*: start_response(status, headers) eagerly (or, _lazy_, inside the generator body), then - while the
# FIRST chunk is being produced - start_response(EXCINFO_STATUS, EXCINFO_HEADERS, exc_info): nothing has been sent
# yet, so the second call replaces the first (PEP 3333 "The start_response() Callable" / "Error Handling")
EXCINFO_ITER_KINDS = ("excinfo_first_iter", "excinfo_first_gen", "excinfo_lazy_gen")
OK_KINDS = ("list", "gen_eager", "gen_lazy", "iter_close", "iter_close_lazy", "iterable_close", "twice_excinfo") + \
    EXCINFO_ITER_KINDS
ERROR_KINDS = ("raise_before_sr", "raise_after_sr", "raise_mid_gen", "raise_mid_iter_close", "raise_lazy_first",
               "no_sr_list", "no_sr_iter_close", "raise_lazy_after_sr", "raise_after_empties_gen")
# kinds whose returned iterable is an object with a counted close() method
CLOSEABLE_KINDS = ("iter_close", "iter_close_lazy", "iterable_close", "raise_mid_iter_close", "no_sr_iter_close",
                   "excinfo_first_iter")
# kinds that never call start_response
NO_SR_KINDS = ("raise_before_sr", "raise_lazy_first", "no_sr_list", "no_sr_iter_close")
EMPTIES = (b"", b"")  # what raise_after_empties_gen yields before it raises
EXCINFO_STATUS = "500 Internal Server Error"
EXCINFO_HEADERS = (("Content-Type", "text/plain"), ("X-Replaced", "yes"))
EXCINFO_CHUNKS = (b"handled",)


class Expected(NamedTuple):
    ok: bool  # the application completes normally: the full response must arrive
    status: Optional[int]  # what start_response was given (None: never called)
    headers: Optional[List[Tuple[bytes, bytes]]]  # lower-cased names, latin-1 encoded
    produced: List[bytes]  # the chunks the iterable yields before it ends or raises
    closeable: bool  # the iterable has a close() method that must be called exactly once
    # PEP 3333: "response headers must not be sent until there is actual body data available, or until the
    # application's returned iterable is exhausted".  True for shapes that call start_response and then fail
    # before the iterable has yielded anything: the status they set must never reach the client.
    # (STRICT_NONEMPTY reads "actual body data" literally: empty chunks do not count.  wsgiref, the reference
    # implementation, sends the headers with the first chunk even when it is empty, so this is opt-in.)
    no_head: bool = False


STRICT_NONEMPTY = [False]


def _no_head(produced: Any) -> bool:
    return not any(produced) if STRICT_NONEMPTY[0] else len(produced) == 0


def wire_headers(headers: Any) -> List[Tuple[bytes, bytes]]:
    return [(n.lower().encode("latin-1"), v.encode("latin-1")) for n, v in headers]


def expected_response(kind: str, status: str, headers: Any, chunks: Any) -> Expected:
    code = int(status.split(" ", 1)[0])
    if kind == "twice_excinfo":
        # PEP 3333: a second start_response call with exc_info, before any output, replaces the headers
        return Expected(True, int(EXCINFO_STATUS.split(" ")[0]), wire_headers(EXCINFO_HEADERS), list(EXCINFO_CHUNKS), False)
    if kind in EXCINFO_ITER_KINDS:
        return Expected(True, int(EXCINFO_STATUS.split(" ")[0]), wire_headers(EXCINFO_HEADERS),
                        list(EXCINFO_CHUNKS) + list(chunks), kind in CLOSEABLE_KINDS)
    if kind in OK_KINDS:
        return Expected(True, code, wire_headers(headers), list(chunks), kind in CLOSEABLE_KINDS)
    if kind in ("raise_mid_gen", "raise_mid_iter_close"):
        produced = list(chunks[:1])
        return Expected(False, code, wire_headers(headers), produced, kind in CLOSEABLE_KINDS, _no_head(produced))
    if kind in ("raise_after_sr", "raise_lazy_after_sr"):
        return Expected(False, code, wire_headers(headers), [], False, True)
    if kind == "raise_after_empties_gen":
        return Expected(False, code, wire_headers(headers), list(EMPTIES), False, _no_head(EMPTIES))
    if kind in ("no_sr_list", "no_sr_iter_close"):
        return Expected(False, None, None, list(chunks), kind in CLOSEABLE_KINDS)
    if kind in ("raise_before_sr", "raise_lazy_first"):
        return Expected(False, None, None, [], False)
    raise ValueError(kind)


# ---------------------------------------------------------------------------------------------
# ASGI send consumer


class View(NamedTuple):
    started: bool
    status: Optional[int]
    headers: Optional[List[Tuple[bytes, bytes]]]
    body: bytes
    complete: bool
    errors: List[str]


def asgi_view(msgs: List[Any]) -> View:
    """Interpret a list of ASGI http send messages the way the ASGI spec tells a server to."""
    started = complete = False
    status = None
    headers = None
    body = b""
    errors: List[str] = []
    for m in msgs:
        t = m.get("type") if isinstance(m, dict) else None
        if t == "http.response.start":
            if started:
                errors.append("second-start")
                continue
            started = True
            status = m.get("status")
            try:
                headers = [(bytes(n), bytes(v)) for n, v in m.get("headers", [])]
            except Exception:
                errors.append("headers-not-bytes")
                headers = []
            if not isinstance(status, int):
                errors.append("status-not-int")
        elif t == "http.response.body":
            if not started:
                errors.append("body-before-start")
                continue
            if complete:
                errors.append("body-after-end")
                continue
            chunk = m.get("body", b"")
            if not isinstance(chunk, (bytes, bytearray, memoryview)):
                errors.append(f"body-type-{type(chunk).__name__}")
                chunk = b""
            body += bytes(chunk)
            if not m.get("more_body", False):
                complete = True
        else:
            errors.append(f"unexpected-message-{t}")
    return View(started, status, headers, body, complete, errors)


def check_response(exp: Expected, view: View, extra_ok: Any = None) -> List[Tuple[str, str, str]]:
    """Compare what reached the client (View) with what the shape produces (Expected).
    `extra_ok(name)` says which additional response headers the carrier may add (end-to-end only)."""
    bad: List[Tuple[str, str, str]] = []
    for e in view.errors:
        bad.append(("response-message-sequence", e, ""))
    produced = b"".join(exp.produced)
    if exp.ok:
        if not view.started:
            bad.append(("response-missing", "not-started", f"want status {exp.status}"))
            return bad
        if view.status != exp.status:
            bad.append(("response-status", f"got-{view.status}", f"want {exp.status}"))
            return bad
        _cmp_headers(exp, view, extra_ok, bad)
        if view.body != produced:
            bad.append(("response-body", "differs", f"got {len(view.body)}B {view.body[:40]!r} want {len(produced)}B {produced[:40]!r}"))
        if not view.complete:
            bad.append(("response-incomplete", "no-final-body-message", ""))
        return bad
    # the application fails: whatever did reach the client must be what the application produced
    if view.started:
        server_error = isinstance(view.status, int) and view.status >= 500
        if exp.status is None:
            if not server_error:
                bad.append(("response-status", f"invented-status-{view.status}", "start_response was never called"))
        elif exp.no_head:
            if not server_error:
                bad.append(("response-head-before-data", f"got-{view.status}",
                            f"the application set {exp.status} and failed before its iterable yielded "
                            f"{'a non-empty chunk' if exp.produced else 'anything'}: that status must not be sent "
                            f"(PEP 3333: headers only go out with the first body data or at exhaustion); want a 5xx or nothing"))
        elif view.status == exp.status:
            _cmp_headers(exp, view, extra_ok, bad)
            if not produced.startswith(view.body):
                bad.append(("response-body", "not-a-prefix", f"got {view.body[:40]!r} produced {produced[:40]!r}"))
        elif not server_error:
            bad.append(("response-status", f"got-{view.status}", f"want {exp.status} (what the application set) or a 5xx"))
    return bad


def _cmp_headers(exp: Expected, view: View, extra_ok: Any, bad: list) -> None:
    got = list(view.headers or [])
    want = list(exp.headers or [])
    if extra_ok is None:
        if any(n != n.lower() for n, _ in got):  # ASGI: "header names must be lowercased"
            bad.append(("response-headers", "name-not-lowercased", f"got {got!r}"))
        if [(n.lower(), v) for n, v in got] != want:
            bad.append(("response-headers", "differ", f"got {got!r} want {want!r}"))
        return
    rest = [(n.lower(), v) for n, v in got]
    pos = 0
    for item in want:
        try:
            pos = rest.index(item, pos) + 1
        except ValueError:
            bad.append(("response-headers", "missing-or-reordered", f"{item!r} not in {rest!r} (in order)"))
            return
    leftovers = list(rest)
    for item in want:
        leftovers.remove(item)
    for n, v in leftovers:
        if not extra_ok(n):
            bad.append(("response-headers", "unexpected-extra", f"{n!r}: {v!r}"))


# ---------------------------------------------------------------------------------------------
# the thread bridge


def check_flow(produced: List[bytes], marks: List[tuple]) -> List[Tuple[str, str, str]]:
    """The WSGI side of the adapter is synchronous code: handing a block to the server is a blocking
    call, so whenever the *application* runs again (it is asked for the next chunk, its iterable is
    exhausted or closed) every send issued so far has completed and carried exactly the chunks yielded so
    far (PEP 3333 'Buffering and Streaming': a block is passed on before the next one is requested; close()
    comes 'upon completion of the current request'), and a send that failed ends the iteration: the only
    thing the application still sees is close().

    marks: (event, begun, ended, failed, ended_body_len) snapshots taken on the application thread at
    each next / stop / raise / close; `produced`: the chunks the shape yields, in order."""
    bad: List[Tuple[str, str, str]] = []
    yielded = 0
    for idx, (ev, begun, ended, failed, body_len) in enumerate(marks):
        where = f"at app event #{idx} {ev!r} (after {yielded} chunk(s))"
        if failed:
            if ev != "close":
                bad.append(("bridge-order", "send-error-not-propagated",
                            f"{where}: a send had already failed, the application thread kept iterating"))
        elif begun != ended:
            bad.append(("bridge-order", "app-ran-ahead-of-send", f"{where}: {begun - ended} send(s) still in flight"))
        else:
            want = sum(len(c) for c in produced[:yielded])
            if body_len != want:
                bad.append(("bridge-order", "app-ran-ahead-of-send",
                            f"{where}: completed sends carried {body_len} body bytes, the chunks yielded so far are {want}"))
        if ev == "next":
            yielded += 1
    return bad
