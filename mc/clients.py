"""Independent client-side protocol drivers: they parse every byte the server writes (h11 / h2 /
wsproto *client* state machines, never hypercorn code) and turn client commands into bytes."""
from __future__ import annotations

import struct
import zlib
from typing import Any, Dict, List, Optional, Tuple

import h2.config
import h2.connection
import h2.events
import h2.exceptions
import h2.settings
import h11
from wsproto import ConnectionType
from wsproto import events as wse
from wsproto.connection import Connection as WSConnection
from wsproto.extensions import PerMessageDeflate


# ---------------------------------------------------------------------------------------------
# WebSocket frames (client -> server), hand written: RFC 6455 framing + RFC 7692 per-message deflate

OP_CONT, OP_TEXT, OP_BIN, OP_CLOSE, OP_PING, OP_PONG = 0, 1, 2, 8, 9, 10


def ws_frame(opcode: int, payload: bytes, fin: bool = True, rsv1: bool = False,
             mask: bytes = b"\x11\x22\x33\x44") -> bytes:
    b0 = (0x80 if fin else 0) | (0x40 if rsv1 else 0) | opcode
    n = len(payload)
    if n < 126:
        head = bytes([b0, 0x80 | n])
    elif n < 65536:
        head = bytes([b0, 0x80 | 126]) + struct.pack("!H", n)
    else:
        head = bytes([b0, 0x80 | 127]) + struct.pack("!Q", n)
    masked = bytes(b ^ mask[i % 4] for i, b in enumerate(payload))
    return head + mask + masked


def ws_message_frames(opcode: int, payload: bytes, cuts: Tuple[int, ...] = (), deflate: bool = False) -> List[bytes]:
    """Frames of one message fragmented at the byte offsets `cuts` (of the on-wire payload)."""
    rsv1 = False
    if deflate:
        c = zlib.compressobj(wbits=-15)
        payload = c.compress(payload) + c.flush(zlib.Z_SYNC_FLUSH)
        assert payload.endswith(b"\x00\x00\xff\xff")
        payload = payload[:-4]
        rsv1 = True
    bounds = [0] + sorted(cuts) + [len(payload)]
    frames = []
    for i in range(len(bounds) - 1):
        part = payload[bounds[i]:bounds[i + 1]]
        first = i == 0
        last = i == len(bounds) - 2
        frames.append(ws_frame(opcode if first else OP_CONT, part, fin=last, rsv1=rsv1 and first))
    return frames


def ws_close_frame(code: Optional[int], reason: str = "") -> bytes:
    payload = b"" if code is None else struct.pack("!H", code) + reason.encode()
    return ws_frame(OP_CLOSE, payload)


class WSParser:
    """Server -> client frames through a wsproto client connection."""

    def __init__(self, deflate: bool = False) -> None:
        exts = [PerMessageDeflate()] if deflate else []
        if deflate:
            exts[0].finalize("")  # negotiated with default parameters
        self.conn = WSConnection(ConnectionType.CLIENT, exts)
        self.events: List[tuple] = []  # (t, kind, ...)
        self.error: Optional[str] = None
        self._text: List[str] = []
        self._bytes: List[bytes] = []
        self.messages: List[tuple] = []  # complete messages ('text'|'bytes', payload)
        self.close: Optional[tuple] = None
        self.pongs: List[bytes] = []
        self.pings: List[bytes] = []

    def feed(self, data: bytes, t: float) -> None:
        if self.error is not None:
            return
        try:
            self.conn.receive_data(data)
            for ev in self.conn.events():
                if isinstance(ev, wse.TextMessage):
                    self._text.append(ev.data)
                    if ev.message_finished:
                        self.messages.append(("text", "".join(self._text)))
                        self.events.append((t, "text", "".join(self._text)))
                        self._text = []
                elif isinstance(ev, wse.BytesMessage):
                    self._bytes.append(bytes(ev.data))
                    if ev.message_finished:
                        self.messages.append(("bytes", b"".join(self._bytes)))
                        self.events.append((t, "bytes", b"".join(self._bytes)))
                        self._bytes = []
                elif isinstance(ev, wse.Pong):
                    self.pongs.append(bytes(ev.payload))
                    self.events.append((t, "pong", bytes(ev.payload)))
                elif isinstance(ev, wse.Ping):
                    self.pings.append(bytes(ev.payload))
                    self.events.append((t, "ping", bytes(ev.payload)))
                elif isinstance(ev, wse.CloseConnection):
                    self.close = (ev.code, ev.reason)
                    self.events.append((t, "close", ev.code, ev.reason))
        except Exception as e:  # wsproto RemoteProtocolError etc.
            self.error = f"{type(e).__name__}: {e}"


# ---------------------------------------------------------------------------------------------
# HTTP/1 responses


class H1Parser:
    """Sequential responses on one HTTP/1 connection, each through a fresh h11 client."""

    def __init__(self, methods: Optional[List[bytes]] = None, upgrade: Optional[str] = None) -> None:
        self.methods = list(methods or [])
        self.upgrade = upgrade  # 'websocket' | 'h2c' | None: what request 0 asked for
        self.responses: List[dict] = []
        self.error: Optional[str] = None
        self.idx = 0
        self.conn: Optional[h11.Connection] = None
        self.cur: Optional[dict] = None
        self.switched = False
        self.after_switch = bytearray()
        self.on_switch_data: Any = None
        self.eof = False
        self.leftover = b""

    def _start(self) -> None:
        c = h11.Connection(h11.CLIENT)
        method = self.methods[self.idx] if self.idx < len(self.methods) else b"GET"
        headers = [("host", "x")]
        if self.upgrade is not None and self.idx == 0:
            headers += [("connection", "upgrade"), ("upgrade", self.upgrade)]
        c.send(h11.Request(method=method, target="/", headers=headers))
        c.send(h11.EndOfMessage())
        self.conn = c
        self.cur = None

    def feed(self, data: bytes, t: float) -> None:
        if self.switched:
            self.after_switch.extend(data)
            if self.on_switch_data is not None:
                self.on_switch_data(data, t)
            return
        if self.error is not None:
            self.leftover += data
            return
        if self.conn is None:
            if not data:
                return
            self._start()
        self._pump(data, t)

    def _pump(self, data: bytes, t: float) -> None:
        assert self.conn is not None
        try:
            self.conn.receive_data(data)
            while True:
                ev = self.conn.next_event()
                if ev is h11.NEED_DATA:
                    return
                if ev is h11.PAUSED:
                    if self.conn.our_state is h11.SWITCHED_PROTOCOL:
                        rest = self.conn.trailing_data[0]
                        self.switched = True
                        if rest:
                            self.feed(bytes(rest), t)
                    return
                if isinstance(ev, h11.InformationalResponse):
                    if self.cur is None:
                        self.cur = self._blank(t)
                    self.cur["informational"].append((ev.status_code, [(bytes(n), bytes(v)) for n, v in ev.headers]))
                    if ev.status_code == 101:
                        self.cur["status"] = 101
                        self.cur["headers"] = [(bytes(n), bytes(v)) for n, v in ev.headers]
                        self.cur["t_end"] = t
                        self.responses.append(self.cur)
                elif isinstance(ev, h11.Response):
                    if self.cur is None:
                        self.cur = self._blank(t)
                    self.cur["status"] = ev.status_code
                    self.cur["reason"] = bytes(ev.reason)
                    self.cur["version"] = bytes(ev.http_version)
                    self.cur["headers"] = [(bytes(n), bytes(v)) for n, v in ev.headers]
                    self.cur["t_head"] = t
                    self.responses.append(self.cur)
                elif isinstance(ev, h11.Data):
                    self.cur["body"] += bytes(ev.data)
                elif isinstance(ev, h11.EndOfMessage):
                    self.cur["complete"] = True
                    self.cur["t_end"] = t
                    self.cur["trailers"] = [(bytes(n), bytes(v)) for n, v in ev.headers]
                    rest = bytes(self.conn.trailing_data[0])
                    closing = self.conn.their_state is h11.MUST_CLOSE or self.conn.our_state is h11.MUST_CLOSE
                    self.cur["must_close"] = closing
                    self.idx += 1
                    self.conn = None
                    self.cur = None
                    if rest:
                        self.feed(rest, t)
                    return
                elif isinstance(ev, h11.ConnectionClosed):
                    return
        except h11.RemoteProtocolError as e:
            self.error = f"RemoteProtocolError: {e}"
        except h11.LocalProtocolError as e:
            self.error = f"LocalProtocolError: {e}"

    def _blank(self, t: float) -> dict:
        return {"idx": self.idx, "status": None, "headers": [], "body": b"", "complete": False,
                "informational": [], "t_head": None, "t_end": None, "trailers": [], "t_first": t,
                "must_close": None}

    def close(self, t: float) -> None:
        """The server closed (or half-closed) its side."""
        if self.eof:
            return
        self.eof = True
        if self.switched or self.error is not None:
            return
        if self.conn is not None:
            self._pump(b"", t)


# ---------------------------------------------------------------------------------------------
# HTTP/2


class H2Client:
    def __init__(self, validate_inbound: bool = True, auto_ack: bool = True,
                 settings: Optional[Dict[int, int]] = None) -> None:
        self.conn = h2.connection.H2Connection(
            config=h2.config.H2Configuration(
                client_side=True, header_encoding=None, validate_inbound_headers=validate_inbound,
            )
        )
        if settings:
            self.conn.local_settings = h2.settings.Settings(client=True, initial_values=dict(settings))
            mfs = dict(settings).get(h2.settings.SettingCodes.MAX_FRAME_SIZE)
            if mfs is not None:  # the client accepts what it announced from the start
                self.conn.max_inbound_frame_size = mfs
        self.auto_ack = auto_ack
        self.pending = bytearray()  # bytes the client produced in reaction to server frames
        self.streams: Dict[int, dict] = {}
        self.conn_events: List[tuple] = []
        self.error: Optional[str] = None
        self.goaway: Optional[tuple] = None
        self.remote_settings: List[dict] = []
        self.unacked: Dict[int, int] = {}
        self.frames_data: List[tuple] = []  # (t, stream_id, len, flow_len)
        self.ws: Dict[int, WSParser] = {}
        self.started = False
        self.prebuf: List[Tuple[bytes, float]] = []
        self.skipped: List[Tuple[str, str]] = []  # commands the client library refused (name, exception)

    def stream(self, sid: int) -> dict:
        if sid not in self.streams:
            self.streams[sid] = {"status": None, "headers": None, "informational": [], "body": b"",
                                 "chunks": [], "ended": 0, "reset": None, "trailers": None,
                                 "pushes": [], "t_head": None, "t_end": None}
        return self.streams[sid]

    def feed(self, data: bytes, t: float) -> None:
        if self.error is not None:
            return
        if not self.started:  # a real client reads nothing before it has sent its preface
            self.prebuf.append((data, t))
            return
        try:
            evs = self.conn.receive_data(data)
        except h2.exceptions.ProtocolError as e:
            self.error = f"{type(e).__name__}: {e}"
            return
        except Exception as e:  # hpack errors etc.
            self.error = f"{type(e).__name__}: {e}"
            return
        for ev in evs:
            if isinstance(ev, h2.events.ResponseReceived):
                st = self.stream(ev.stream_id)
                hd = [(bytes(n), bytes(v)) for n, v in ev.headers]
                st["status"] = int(dict(hd).get(b":status", b"0"))
                st["headers"] = [(n, v) for n, v in hd if not n.startswith(b":")]
                st["t_head"] = t
            elif isinstance(ev, h2.events.InformationalResponseReceived):
                st = self.stream(ev.stream_id)
                hd = [(bytes(n), bytes(v)) for n, v in ev.headers]
                st["informational"].append((int(dict(hd).get(b":status", b"0")), [(n, v) for n, v in hd if not n.startswith(b":")]))
            elif isinstance(ev, h2.events.DataReceived):
                st = self.stream(ev.stream_id)
                st["body"] += bytes(ev.data)
                st["chunks"].append((t, len(ev.data)))
                self.frames_data.append((t, ev.stream_id, len(ev.data), ev.flow_controlled_length))
                if ev.stream_id in self.ws:
                    self.ws[ev.stream_id].feed(bytes(ev.data), t)
                if self.auto_ack:
                    try:
                        self.conn.acknowledge_received_data(ev.flow_controlled_length, ev.stream_id)
                    except Exception:
                        pass
                else:
                    self.unacked[ev.stream_id] = self.unacked.get(ev.stream_id, 0) + ev.flow_controlled_length
            elif isinstance(ev, h2.events.TrailersReceived):
                st = self.stream(ev.stream_id)
                st["trailers"] = [(bytes(n), bytes(v)) for n, v in ev.headers]
            elif isinstance(ev, h2.events.StreamEnded):
                st = self.stream(ev.stream_id)
                st["ended"] += 1
                st["t_end"] = t
            elif isinstance(ev, h2.events.StreamReset):
                st = self.stream(ev.stream_id)
                st["reset"] = int(ev.error_code)
                st["t_end"] = t
            elif isinstance(ev, h2.events.PushedStreamReceived):
                st = self.stream(ev.parent_stream_id)
                st["pushes"].append((ev.pushed_stream_id, [(bytes(n), bytes(v)) for n, v in ev.headers]))
            elif isinstance(ev, h2.events.ConnectionTerminated):
                self.goaway = (int(ev.error_code), ev.last_stream_id, t)
                self.conn_events.append((t, "goaway", int(ev.error_code), ev.last_stream_id))
            elif isinstance(ev, h2.events.RemoteSettingsChanged):
                self.remote_settings.append({int(k): v.new_value for k, v in ev.changed_settings.items()})
                self.conn_events.append((t, "settings"))
            elif isinstance(ev, h2.events.SettingsAcknowledged):
                self.conn_events.append((t, "settings_ack"))
            elif isinstance(ev, h2.events.PingAckReceived):
                self.conn_events.append((t, "ping_ack", bytes(ev.ping_data)))
            elif isinstance(ev, h2.events.WindowUpdated):
                self.conn_events.append((t, "winup", ev.stream_id, ev.delta))
        out = self.conn.data_to_send()
        if out:
            self.pending.extend(out)

    def take(self) -> bytes:
        out = bytes(self.pending) + self.conn.data_to_send()
        self.pending.clear()
        return out

    # ---- commands
    def command(self, name: str, args: tuple) -> bytes:
        c = self.conn
        try:
            if name in ("preface", "upgrade_preface"):
                if name == "preface":
                    c.initiate_connection()
                else:  # after an h2c upgrade: stream 1 is half closed (local)
                    c.initiate_upgrade_connection()
                out = c.data_to_send()
                self.started = True
                for d, t in self.prebuf:
                    self.feed(d, t)
                self.prebuf = []
                return out + self.take()
            elif name == "headers":
                sid, headers, end = args[0], args[1], args[2]
                c.send_headers(sid, list(headers), end_stream=end,
                               **({} if len(args) < 4 or args[3] is None else
                                  {"priority_weight": args[3][0], "priority_depends_on": args[3][1],
                                   "priority_exclusive": args[3][2]}))
            elif name == "datan":
                sid, data, end = args
                c.send_data(sid, data, end_stream=end)
            elif name == "datap":  # padded DATA
                sid, data, pad, end = args
                c.send_data(sid, data, end_stream=end, pad_length=pad)
            elif name == "winup":
                sid, n = args
                c.increment_flow_control_window(n, stream_id=sid or None)
            elif name == "ack":
                sid = args[0]
                n = self.unacked.pop(sid, 0) if len(args) < 2 else args[1]
                if n:
                    c.acknowledge_received_data(n, sid)
            elif name == "settings":
                c.update_settings(dict(args[0]))
            elif name == "rst":
                c.reset_stream(args[0], error_code=args[1] if len(args) > 1 else 8)
            elif name == "prio":
                sid, depends, weight, excl = args
                c.prioritize(sid, weight=weight, depends_on=depends, exclusive=excl)
            elif name == "ping":
                c.ping(args[0])
            elif name == "goaway":
                c.close_connection()
            elif name == "trailers":
                c.send_headers(args[0], list(args[1]), end_stream=True)
            elif name == "batch":
                # several commands whose frames leave in ONE segment (the server sees them in one read)
                return b"".join(self.command(sub[0], tuple(sub[1:])) for sub in args[0])
            elif name == "flush":
                pass
            elif name == "raw":
                return self.take() + args[0]
            else:
                raise ValueError(name)
        except (h2.exceptions.ProtocolError, KeyError) as e:
            # the command is no longer legal for the client (stream closed meanwhile): skip it, visibly
            self.skipped.append((name, type(e).__name__))
            return self.take()
        return self.take()

    def cmd_enabled(self, name: str, args: tuple) -> bool:
        if name == "batch":
            return all(self.cmd_enabled(sub[0], tuple(sub[1:])) for sub in args[0][:1])
        if name == "flush":
            return bool(self.pending)
        if name in ("winup", "rst", "ack") and args[0]:
            st = self.conn.streams.get(args[0])  # only for streams the client has opened
            if st is None:
                return False
            if name == "rst" and st.closed:
                return False
            return True
        if name == "datap":
            sid = args[0]
            try:
                st = self.conn.streams.get(sid)
                return st is not None and not st.closed and \
                    self.conn.local_flow_control_window(sid) >= len(args[1]) + args[2] + 1
            except Exception:
                return False
        if name in ("datan", "trailers"):
            sid = args[0]
            try:
                st = self.conn.streams.get(sid)
                if st is None or st.closed:
                    return False
                if name == "datan":
                    return (self.conn.local_flow_control_window(sid) >= len(args[1]))
            except Exception:
                return False
        return True


def raw_h2_frame(ftype: int, flags: int, sid: int, payload: bytes) -> bytes:
    return struct.pack("!I", len(payload))[1:] + bytes([ftype, flags]) + struct.pack("!I", sid & 0x7FFFFFFF) + payload


# ---------------------------------------------------------------------------------------------
# one client per connection


class Client:
    """Carrier-aware wrapper the engines talk to (`on_server_bytes`, `command`, `cmd_enabled`)."""

    def __init__(self, opts: dict) -> None:
        self.opts = opts
        carrier = opts.get("carrier", "h1")
        self.carrier = carrier
        self.h1: Optional[H1Parser] = None
        self.h2: Optional[H2Client] = None
        self.ws: Optional[WSParser] = None
        self.raw = bytearray()
        self.t_bytes: List[Tuple[float, int]] = []
        if carrier in ("h1", "ws/h1", "h2c"):
            up = {"ws/h1": "websocket", "h2c": "h2c"}.get(carrier)
            self.h1 = H1Parser(opts.get("methods"), upgrade=opts.get("upgrade", up))
            if carrier == "ws/h1" or opts.get("upgrade") == "websocket":
                self.ws = WSParser(deflate=opts.get("deflate", False))
                self.h1.on_switch_data = self.ws.feed
            elif carrier == "h2c":
                self.h2 = H2Client(opts.get("validate_inbound", True), opts.get("auto_ack", True),
                                   opts.get("h2_settings"))
                self._h2c_started = False
                self.h1.on_switch_data = self._h2c_feed
        elif carrier in ("h2", "h2pk", "ws/h2"):
            self.h2 = H2Client(opts.get("validate_inbound", True), opts.get("auto_ack", True),
                               opts.get("h2_settings"))
        else:
            raise ValueError(carrier)

    def _h2c_feed(self, data: bytes, t: float) -> None:
        if not self._h2c_started:
            self._h2c_started = True
            self.h2.started = True
            self.h2.conn.initiate_upgrade_connection()
            self.h2.pending.extend(self.h2.conn.data_to_send())
        self.h2.feed(data, t)

    def on_server_bytes(self, data: bytes, t: float) -> None:
        self.raw.extend(data)
        self.t_bytes.append((t, len(data)))
        if self.h1 is not None:
            self.h1.feed(data, t)
        elif self.h2 is not None:
            self.h2.feed(data, t)

    def on_close(self, t: float) -> None:
        if self.h1 is not None:
            self.h1.close(t)

    def command(self, ev: tuple) -> bytes:
        name, args = ev[2], tuple(ev[3:])
        if name == "ws_open":  # ws over h2: register a frame parser for the stream
            sid = args[0]
            self.h2.ws[sid] = WSParser(deflate=len(args) > 1 and args[1])
            return b""
        if name == "ws_data":  # websocket bytes carried in h2 DATA
            return self.h2.command("datan", (args[0], args[1], False))
        return self.h2.command(name, args)

    def cmd_enabled(self, ev: tuple) -> bool:
        if self.h2 is None:
            return False
        name, args = ev[2], tuple(ev[3:])
        if name == "ws_data":
            return self.h2.cmd_enabled("datan", (args[0], args[1], False))
        if name == "ws_open":
            return True
        return self.h2.cmd_enabled(name, args)

    @property
    def error(self) -> Optional[str]:
        errs = []
        for p in (self.h1, self.h2, self.ws):
            if p is not None and p.error is not None:
                errs.append(p.error)
        if self.h2 is not None:
            for sid, w in self.h2.ws.items():
                if w.error is not None:
                    errs.append(f"ws[{sid}] {w.error}")
        return "; ".join(errs) if errs else None


def make_client(world: Any, k: int, opts: dict) -> Client:
    return Client(opts)


# ---------------------------------------------------------------------------------------------
# request builders (the *specification* of what the client sends; oracles start from these)


def h1_request(method: bytes = b"GET", target: bytes = b"/", headers: List[Tuple[bytes, bytes]] = (),
               body: Optional[bytes] = None, chunked: Optional[List[bytes]] = None,
               version: bytes = b"1.1", host: Optional[bytes] = b"hypercorn") -> bytes:
    lines = [method + b" " + target + b" HTTP/" + version]
    hs = list(headers)
    if host is not None:
        hs = [(b"Host", host)] + hs
    if body is not None:
        hs.append((b"Content-Length", str(len(body)).encode()))
    if chunked is not None:
        hs.append((b"Transfer-Encoding", b"chunked"))
    for n, v in hs:
        lines.append(n + b": " + v)
    out = b"\r\n".join(lines) + b"\r\n\r\n"
    if body is not None:
        out += body
    if chunked is not None:
        for ch in chunked:
            if ch:
                out += b"%x\r\n" % len(ch) + ch + b"\r\n"
        out += b"0\r\n\r\n"
    return out


WS_KEY = b"dGhlIHNhbXBsZSBub25jZQ=="


def ws_h1_handshake(target: bytes = b"/", extra: List[Tuple[bytes, bytes]] = (), host: bytes = b"hypercorn",
                    key: bytes = WS_KEY) -> bytes:
    hs = [(b"Upgrade", b"websocket"), (b"Connection", b"Upgrade"), (b"Sec-WebSocket-Key", key),
          (b"Sec-WebSocket-Version", b"13")] + list(extra)
    return h1_request(b"GET", target, hs, host=host)


def h2_request_headers(method: bytes = b"GET", path: bytes = b"/", authority: bytes = b"hypercorn",
                       scheme: bytes = b"https", extra: List[Tuple[bytes, bytes]] = ()) -> List[Tuple[bytes, bytes]]:
    return [(b":method", method), (b":path", path), (b":scheme", scheme), (b":authority", authority)] + list(extra)


def ws_h2_headers(path: bytes = b"/", extra: List[Tuple[bytes, bytes]] = ()) -> List[Tuple[bytes, bytes]]:
    return [(b":method", b"CONNECT"), (b":protocol", b"websocket"), (b":scheme", b"https"),
            (b":path", path), (b":authority", b"hypercorn"), (b"sec-websocket-version", b"13")] + list(extra)
