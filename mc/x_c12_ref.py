"""Reference automata for property C12, written from the ASGI specification (HTTP & WebSocket
message formats, the http.response.trailers / push / early_hint and websocket.http.response
extensions).  No hypercorn imports.

`allows(msg)` is three-valued:

    True   the message is valid in this state: the server must take it without raising
    False  the message is invalid (for the state, or in itself): the server must raise into the
           application and must not put a byte on the wire
    None   the specification (or the property statement) leaves it open; the oracle demands
           nothing about raising and the automaton follows what the implementation did

`advance(msg, wire_changed)` is called when the implementation took the message (judgement True or
None); `raised(msg, wire_changed)` when it raised on a None-judged message.  Wherever the state
after an unjudged step is ambiguous the automaton moves to "limbo", where only the
state-independent rejections (unknown type, malformed headers, non-str push path / text frame,
extension not offered on this HTTP version) are still demanded.
"""
from __future__ import annotations

from typing import Any, Optional, Set

from .refmodels import HttpSendModel, WsSendModel

CTL = (0x00, 0x0A, 0x0D)


def header_defects(headers: Any) -> Set[str]:
    """'malformed' = not a byte string / a pseudo-header (the statement demands a raise);
    'ctl' = CR, LF or NUL somewhere, or a blank inside a name (must not reach the wire; whether
    the server raises or sanitises is left open)."""
    out: Set[str] = set()
    try:
        pairs = list(headers)
    except TypeError:
        return {"malformed"}
    for item in pairs:
        try:
            n, v = item
        except (TypeError, ValueError):
            out.add("malformed")
            continue
        if not isinstance(n, (bytes, bytearray)) or not isinstance(v, (bytes, bytearray)):
            out.add("malformed")
            continue
        if n[:1] == b":":
            out.add("malformed")
        elif bytes(n).strip()[:1] == b":":
            out.add("ctl")  # becomes a pseudo-header once surrounding blanks are stripped: must not reach the wire as one
        if any(c in CTL for c in n) or any(c in CTL for c in v) or b" " in bytes(n).strip():
            out.add("ctl")
    return out


def _no_body(status: int) -> bool:
    return 100 <= status < 200 or status in (204, 304)


class HttpRef(HttpSendModel):
    """states: request -> response -> (trailers ->) closed; limbo."""

    def __init__(self, http_version: str, te_trailers: bool = False) -> None:
        super().__init__(http_version, te_trailers)
        self.declared: Optional[int] = None  # remaining declared content-length
        self.no_body = False
        self.length_broken = False  # the application itself contradicted its content-length

    def key(self) -> tuple:
        return (self.state, self.trailers_promised, self.declared, self.no_body, self.length_broken)

    # -- judgement
    def allows(self, msg: dict) -> Optional[bool]:
        t = msg.get("type")
        limbo = self.state == "limbo"
        if t == "http.response.start":
            d = header_defects(msg.get("headers", []))
            if "malformed" in d:
                return False
            if limbo:
                return None
            if self.state != "request":
                return False
            return None if "ctl" in d else True
        if t == "http.response.body":
            if limbo:
                return None
            if self.state != "response":
                return False
            if self.declared is not None and not self.no_body:
                n = len(msg.get("body", b""))
                if n > self.declared:
                    return None
                if not msg.get("more_body", False) and n != self.declared:
                    return None
            return True
        if t == "http.response.trailers":
            if not self.v2:
                return False  # extension not offered in the scope
            d = header_defects(msg.get("headers", []))
            if "malformed" in d:
                return False
            if limbo or self.state == "request":
                return None  # (hypercorn offers a trailers-only response; the spec does not)
            if self.state != "trailers":
                return False
            return None if "ctl" in d else True
        if t == "http.response.push":
            if not self.v2:
                return False
            if not isinstance(msg.get("path"), str):
                return False
            if "malformed" in header_defects(msg.get("headers", [])):
                return False
            if limbo:
                return None
            if self.state == "closed":
                return False  # anything after completion
            return True if self.state == "response" else None
        if t == "http.response.early_hint":
            if not self.v2:
                return False
            if limbo:
                return None
            if self.state != "request":
                return False
            links = msg.get("links", [])
            if any(not isinstance(l, (bytes, bytearray)) or any(c in CTL for c in l) for l in links):
                return None  # a link is a header value: CR/LF/NUL must not reach the wire, raising is fine
            return True
        return False

    # -- transitions
    def advance(self, msg: dict, wire_changed: bool = True) -> None:  # type: ignore[override]
        t = msg.get("type")
        if self.state == "limbo":
            return
        if t == "http.response.start":
            self.state = "response"
            self.trailers_promised = bool(msg.get("trailers", False))
            self.no_body = _no_body(int(msg.get("status", 200)))
            for n, v in msg.get("headers", []):
                if bytes(n).strip().lower() == b"content-length" and bytes(v).strip().isdigit():
                    self.declared = int(bytes(v).strip())
        elif t == "http.response.body":
            n = 0 if self.no_body else len(msg.get("body", b""))
            end = not msg.get("more_body", False)
            if self.declared is not None and not self.no_body:
                if n > self.declared or (end and n != self.declared):
                    self.length_broken = True
                self.declared = max(0, self.declared - n)
            if end:
                self.state = "trailers" if self.trailers_promised else "closed"
        elif t == "http.response.trailers":
            if self.state == "request":
                self.state = "limbo" if msg.get("more_trailers", False) else "closed"
            elif not msg.get("more_trailers", False):
                self.state = "closed"

    def raised(self, msg: dict, wire_changed: bool) -> None:
        """A None-judged message raised."""
        t = msg.get("type")
        if wire_changed or t == "http.response.body":
            # partial effects (body bytes written before the framing error) or a poisoned
            # connection after a content-length contradiction: nothing more is demanded
            self.state = "limbo"


class WsRef(WsSendModel):
    """states: handshake -> connected -> closed | handshake -> response_started -> response ->
    httpclosed | handshake -> httpclosed; limbo."""

    def __init__(self, offered: tuple = ()) -> None:
        super().__init__()
        self.pending_ctl = False
        self.offered = tuple(offered)  # subprotocols in the connection scope (what the client advertised)

    def key(self) -> tuple:
        return (self.state, self.pending_ctl)

    def env(self, name: str) -> None:
        """Environment operations: the peer made the server close the WebSocket on its own (message too big): what
        the application may still send is no longer a matter of this automaton (sends after closure are C03's)."""
        if name == "c_big" and self.state == "connected":
            self.state = "limbo"

    def allows(self, msg: dict) -> Optional[bool]:
        t = msg.get("type")
        limbo = self.state == "limbo"
        if t == "websocket.accept":
            d = header_defects(msg.get("headers", []))
            if "malformed" in d:
                return False
            sub = msg.get("subprotocol")
            if sub is not None and sub not in self.offered:
                # the server may only select a subprotocol the client advertised (scope["subprotocols"]; RFC 6455
                # 4.2.2): any other value can only produce a handshake the client must fail
                return False
            if limbo or self.state == "response_started":
                return None
            if self.state != "handshake":
                return False
            return None if "ctl" in d else True
        if t == "websocket.send":
            if msg.get("bytes") is None and not isinstance(msg.get("text"), str):
                return False
            if limbo:
                return None
            return self.state == "connected"
        if t == "websocket.close":
            if limbo or self.state == "response_started":
                return None
            return self.state in ("handshake", "connected")
        if t == "websocket.http.response.start":
            d = header_defects(msg.get("headers", []))
            if "malformed" in d:
                return False
            if limbo:
                return None
            if self.state != "handshake":
                return False
            if "ctl" in d:
                return None  # control characters may be refused here or with the first body message
            return True
        if t == "websocket.http.response.body":
            if limbo:
                return None
            if self.state == "response_started":
                return None if self.pending_ctl else True
            return self.state == "response"
        return False

    def advance(self, msg: dict, wire_changed: bool = True) -> None:  # type: ignore[override]
        t = msg.get("type")
        if self.state == "limbo":
            return
        if t == "websocket.accept":
            self.state = "connected"
        elif t == "websocket.close":
            self.state = "closed" if self.state == "connected" else "httpclosed"
        elif t == "websocket.http.response.start":
            self.state = "response_started"
            self.pending_ctl = "ctl" in header_defects(msg.get("headers", []))
        elif t == "websocket.http.response.body":
            self.state = "response" if msg.get("more_body", False) else "httpclosed"

    def raised(self, msg: dict, wire_changed: bool) -> None:
        if wire_changed:
            self.state = "limbo"
