"""Setup-time self test: the engines work offline in this checkout and agree with each other and
with real sockets on canonical traces (extended in mc/conformance.py)."""
from __future__ import annotations

import sys


def main() -> int:
    from .clients import h1_request, make_client
    from .harness import default_observation, run_world

    req = h1_request(b"POST", b"/a?x=1", body=b"hello")
    sc = {
        "level": "conn", "conns": {0: {"carrier": "h1", "methods": [b"POST"]}}, "client_factory": make_client,
        "config": {"keep_alive_timeout": 5},
        "apps": {"http": [("recv_body",), ("send", {"type": "http.response.start", "status": 200,
                                                    "headers": [(b"content-length", b"2")]}),
                          ("send", {"type": "http.response.body", "body": b"ok"}), ("recv",)]},
        "sources": [("client", [("data", 0, req[:10]), ("data", 0, req[10:])]), ("clock", [("tick",)])],
    }
    obs = {}
    for engine in ("asyncio", "trio"):
        w = run_world(engine, sc, [])
        r = w.conns[0].client.h1.responses
        if len(r) != 1 or r[0]["status"] != 200 or r[0]["body"] != b"ok" or w.conns[0].closed_at != 5.0:
            print(f"selftest: {engine} engine smoke failed: {r} closed_at={w.conns[0].closed_at}")
            return 1
        obs[engine] = default_observation(w)
    if obs["asyncio"] != obs["trio"]:
        print("selftest: engines disagree on the canonical trace")
        return 1
    try:
        from . import conformance
    except ImportError:
        conformance = None
    if conformance is not None:
        rc = conformance.main()
        if rc:
            return rc
    print("selftest ok")
    return 0


if __name__ == "__main__":
    sys.exit(main())
